#!/usr/bin/env python3
"""tools/seed_eval.py <PID> <variant dir with patch.diff + demo.py [+ notes.md]> [--all-checks] [--no-suite]

Confirms a seeded property-breaking change and runs the checks against it:
  1. scratch worktree of /repo HEAD under /tmp (removed afterwards)
  2. demo.py on the unchanged tree must exit 0
  3. `git apply patch.diff`; demo.py must now exit != 0
  4. the repository's own suite must still pass the 488-test baseline (tools/baseline.py)
  5. ./check <PID> (or every registered check) with VERIF_REPO=<worktree>
  6. /verif/seeded/<PID>-<name>/{patch.diff, demo.py, notes.md, meta.json}
"""
import json
import os
import shutil
import subprocess
import sys
import time

args = [a for a in sys.argv[1:] if not a.startswith("--")]
flags = [a for a in sys.argv[1:] if a.startswith("--")]
pid, src = args[0], args[1].rstrip("/")
name = f"{pid}-{os.path.basename(src)}"
wt = f"/tmp/sev_{name}"
env = dict(os.environ)


def sh(cmd, **kw):
    return subprocess.run(cmd, capture_output=True, text=True, **kw)


def demo(tree):
    e = dict(env, PYTHONPATH=tree, OMP_NUM_THREADS="1", OPENBLAS_NUM_THREADS="1")
    r = sh(["/venv/bin/python", os.path.join(src, "demo.py")], env=e, cwd=src, timeout=1800)
    return r.returncode, (r.stdout + r.stderr)[-600:]


meta = {"id": name, "property": pid, "source": "fresh sub-agent given only the property text and its own worktree", "evaluated_at": time.strftime("%Y-%m-%d %H:%M:%S")}
sh(["git", "-C", "/repo", "worktree", "remove", "--force", wt])
r = sh(["git", "-C", "/repo", "worktree", "add", "--detach", wt, "HEAD"])
assert r.returncode == 0, r.stderr
try:
    rc0, out0 = demo(wt)
    meta["demo_on_unchanged_tree"] = {"exit": rc0}
    r = sh(["git", "-C", wt, "apply", "--whitespace=nowarn", os.path.join(src, "patch.diff")])
    meta["patch_applies"] = r.returncode == 0
    if r.returncode != 0:
        meta["patch_error"] = r.stderr[-400:]
        print(json.dumps(meta, indent=1))
        sys.exit(3)
    rc1, out1 = demo(wt)
    meta["demo_with_change"] = {"exit": rc1, "tail": out1[-300:]}
    if "--no-suite" not in flags:
        r = sh([os.path.join(os.path.dirname(__file__), "baseline.py"), wt], env=dict(env, BASELINE_XDIST="1"))
        meta["repo_suite_with_change"] = {"baseline_ok": r.returncode == 0, "summary": r.stdout.strip().splitlines()[-3:]}
    man = json.load(open("/verif/MANIFEST.json"))
    checks = [c["property_id"] for c in man["checks"]] if "--all-checks" in flags else [pid]
    if pid not in checks:
        checks.append(pid)
    res = {}
    for c in checks:
        t0 = time.time()
        r = sh(["./check", c, "--tier", "quick"], cwd="/verif", env=dict(env, VERIF_REPO=wt))
        sigs = [l.strip()[len("violation signature "):].split(" (")[0] for l in r.stdout.splitlines() if l.strip().startswith("violation signature")]
        res[c] = {"exit": r.returncode, "signatures": sigs[:12], "n_signatures": len(sigs), "wall_s": round(time.time() - t0, 1)}
        if r.returncode == 2:
            res[c]["stderr"] = r.stderr[-500:]
        sh(["git", "checkout", "-q", f"evidence/{c}.json"], cwd="/verif")
    if not any(v["exit"] == 1 for v in res.values()) and "--all-checks" not in flags:
        # missed by the property's own check: see whether any other registered check notices it
        for c in [c["property_id"] for c in man["checks"] if c["property_id"] not in res]:
            t0 = time.time()
            r = sh(["./check", c, "--tier", "quick"], cwd="/verif", env=dict(env, VERIF_REPO=wt))
            sigs = [l.strip()[len("violation signature "):].split(" (")[0] for l in r.stdout.splitlines() if l.strip().startswith("violation signature")]
            res[c] = {"exit": r.returncode, "signatures": sigs[:12], "n_signatures": len(sigs), "wall_s": round(time.time() - t0, 1)}
            sh(["git", "checkout", "-q", f"evidence/{c}.json"], cwd="/verif")
    meta["checks"] = res
    meta["detected_by"] = [c for c, v in res.items() if v["exit"] == 1]
    meta["confirmed"] = bool(rc0 == 0 and rc1 != 0 and meta.get("repo_suite_with_change", {"baseline_ok": True})["baseline_ok"])
    dst = f"/verif/seeded/{name}"
    os.makedirs(dst, exist_ok=True)
    for f in ("patch.diff", "demo.py", "notes.md"):
        if os.path.exists(os.path.join(src, f)):
            shutil.copy(os.path.join(src, f), os.path.join(dst, f))
    notes = open(os.path.join(src, "notes.md")).read() if os.path.exists(os.path.join(src, "notes.md")) else ""
    meta["needs_to_manifest"] = notes[:1500]
    meta["what_was_run"] = ["demo.py on unchanged worktree", "git apply patch.diff; demo.py", "tools/baseline.py <worktree> (repo suite vs 488-test baseline)",
                            "VERIF_REPO=<worktree> ./check <id> --tier quick"]
    json.dump(meta, open(os.path.join(dst, "meta.json"), "w"), indent=1)
    print(f"{name}: confirmed={meta['confirmed']} demo {rc0}->{rc1} suite_ok={meta.get('repo_suite_with_change', {}).get('baseline_ok')} detected_by={meta['detected_by']} "
          + "; ".join(f"{c}:{v['exit']}({v['n_signatures']})" for c, v in res.items()))
finally:
    sh(["git", "-C", "/repo", "worktree", "remove", "--force", wt])
    shutil.rmtree(wt, ignore_errors=True)
