#!/usr/bin/env python3
"""Run the repository's own test suite on a tree (default /repo) and compare with the 488-test stable baseline.
usage: tools/baseline.py [repo_dir] ; exit 0 iff every stable_pass test passed."""
import json, os, subprocess, sys, tempfile, xml.etree.ElementTree as ET
repo = sys.argv[1] if len(sys.argv) > 1 else "/repo"
base = json.load(open("/root/.vp/BASELINE.json"))
fd, xml = tempfile.mkstemp(suffix=".xml"); os.close(fd)
env = dict(os.environ); env.pop("TENSORLY_VERIF", None); env["PYTHONPATH"] = repo
extra = ["-n", "4"] if os.environ.get("BASELINE_XDIST") else []
p = subprocess.run(["/venv/bin/python", "-m", "pytest", "-q", "-p", "no:cacheprovider", "-p", "no:randomly", "--timeout=900",
                    "--continue-on-collection-errors", f"--junitxml={xml}", *extra], cwd=repo, env=env, capture_output=True, text=True)
passed = set()
for tc in ET.parse(xml).getroot().iter("testcase"):
    if not any(ch.tag in ("failure", "error", "skipped") for ch in tc):
        passed.add(f"{tc.get('classname')}::{tc.get('name')}")
os.unlink(xml)
missing = [t for t in base["stable_pass"] if t not in passed]
# a test that uses unseeded randomness can fail once in a while: re-run the missing ones alone (twice at most) before judging
for attempt in range(2):
    if not missing or len(missing) > 5:
        break
    still = []
    for t in missing:
        mod, name = t.split("::", 1)
        node = mod.replace(".", "/") + ".py::" + name
        r = subprocess.run(["/venv/bin/python", "-m", "pytest", "-q", "-p", "no:cacheprovider", "-p", "no:randomly", node], cwd=repo, env=env, capture_output=True, text=True)
        if r.returncode != 0:
            still.append(t)
        else:
            print(f"  (re-run alone, passed: {t})")
    missing = still
print(p.stdout.strip().splitlines()[-1] if p.stdout.strip() else p.stderr[-500:])
print(f"stable baseline: {len(base['stable_pass']) - len(missing)}/{len(base['stable_pass'])} passed")
for t in missing[:30]:
    print("  NOT PASSED:", t)
sys.exit(1 if missing else 0)
