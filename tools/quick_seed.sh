#!/bin/bash
# tools/quick_seed.sh <PID> <variant-dir> [check ...] : apply the seed patch to a scratch copy and run the check(s) (no suite run)
pid=$1; src=$2; shift 2; checks=${@:-$pid}
d=$(mktemp -d /tmp/qs_XXXX); cp -r /repo/tensorly $d/; (cd $d && patch -p1 -s < $src/patch.diff) || { echo "patch failed"; rm -rf $d; exit 3; }
for c in $checks; do VERIF_REPO=$d ./check $c 2>&1 | grep -E "violation sig|^C[0-9]+ tier|HARNESS" | cut -c1-220 | head -4; git checkout -q evidence/$c.json 2>/dev/null; done
rm -rf $d
