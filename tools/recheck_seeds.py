#!/usr/bin/env python3
"""tools/recheck_seeds.py [id-prefix ...] : re-run the FINAL quick checks against every kept seeded change.

For each /verif/seeded/<PID>-<v>/patch.diff: copy /repo/tensorly to a scratch directory, apply the patch (patch -p1, fuzz allowed - the
tree has been repaired since many of the changes were written), run the property's own quick check (and the checks recorded in meta.json as
detecting it) with VERIF_REPO=<scratch>, and record whether a VIOLATION line is printed.  Writes seeded/FINAL_RECHECK.json.  Never touches
/repo; evidence files written by the runs are restored from git afterwards."""
import json
import os
import shutil
import subprocess
import sys
import tempfile

HERE = os.path.dirname(os.path.dirname(os.path.abspath(__file__)))
pref = sys.argv[1:]
out_path = os.path.join(HERE, "seeded", "FINAL_RECHECK.json")
res = json.load(open(out_path)) if os.path.exists(out_path) else {}
ids = sorted(d for d in os.listdir(os.path.join(HERE, "seeded")) if os.path.isdir(os.path.join(HERE, "seeded", d)))
for sid in ids:
    if pref and not any(sid.startswith(p) for p in pref):
        continue
    meta = json.load(open(os.path.join(HERE, "seeded", sid, "meta.json")))
    pid = meta["property"]
    checks = [pid] + [c for c in meta.get("detected_by", []) if c != pid]
    d = tempfile.mkdtemp(prefix="rs_", dir="/tmp")
    try:
        shutil.copytree("/repo/tensorly", os.path.join(d, "tensorly"))
        r = subprocess.run(["patch", "-p1", "-s", "-i", os.path.join(HERE, "seeded", sid, "patch.diff")], cwd=d, capture_output=True, text=True)
        if r.returncode != 0:
            res[sid] = {"applies": False, "note": "patch no longer applies to the repaired tree", "detail": (r.stdout + r.stderr)[-200:]}
            print(sid, "PATCH-FAILS")
            continue
        det = []
        for c in checks:
            p = subprocess.run([os.path.join(HERE, "check"), c], cwd=HERE, env=dict(os.environ, VERIF_REPO=d), capture_output=True, text=True)
            if "VIOLATION property=" in p.stdout:
                det.append(c)
                break
        res[sid] = {"applies": True, "detected_by_final_checks": det}
        print(sid, "detected by", det if det else "NOTHING")
    finally:
        shutil.rmtree(d, ignore_errors=True)
    json.dump(res, open(out_path, "w"), indent=1, sort_keys=True)
subprocess.run(["git", "checkout", "-q", "--", "evidence", "replays"], cwd=HERE)
