#!/usr/bin/env python3
"""tools/mutate.py <relpath> <old> <new> -- <check ids...> : apply a textual mutation to a scratch copy of /repo/tensorly
(under /tmp), run the given checks against it with VERIF_REPO, print verdicts, remove the copy."""
import os, shutil, subprocess, sys, tempfile
args = sys.argv[1:]
i = args.index("--")
rel, old, new = args[0], args[1], args[2]
checks = args[i + 1:]
d = tempfile.mkdtemp(prefix="mut_", dir="/tmp")
try:
    shutil.copytree("/repo/tensorly", d + "/tensorly")
    p = os.path.join(d, rel)
    s = open(p).read()
    old = old.encode().decode("unicode_escape"); new = new.encode().decode("unicode_escape")
    assert s.count(old) >= 1, f"pattern not found in {rel}"
    open(p, "w").write(s.replace(old, new, 1))
    for c in checks:
        r = subprocess.run(["./check", c], cwd="/verif", env=dict(os.environ, VERIF_REPO=d), capture_output=True, text=True)
        sigs = [l.strip()[20:150] for l in r.stdout.splitlines() if l.strip().startswith("violation signature")]
        print(f"{c}: exit {r.returncode}; {len(sigs)} new signature(s)", sigs[:4])
        subprocess.run(["git", "checkout", "-q", f"evidence/{c}.json"], cwd="/verif")
finally:
    shutil.rmtree(d, ignore_errors=True)
