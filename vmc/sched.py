"""SX — stateless exploration of thread interleavings of real Python code under a controlled scheduler.

Real `threading.Thread`s, exactly one runs at a time (baton = one semaphore per thread + one for the
controller).  Scheduling points: every `line` (or every bytecode, opcode=True) event of frames whose
code object lives in one of `files`, delivered by `sys.settrace` installed inside each worker thread.
Choice sequences are enumerated depth-first with iterative pre-emption bounding; executions always run
to completion.  No source hooks.
"""
import sys
import threading

from vmc.runner import HarnessError

HANDOFF_TIMEOUT = 20.0


class Execution:
    __slots__ = ("choices", "points", "events", "finished", "steps")

    def __init__(self):
        self.choices = []   # chosen index at every decision point
        self.points = []    # (enabled thread ids in canonical order, running_still_enabled)
        self.events = []    # harness events recorded by thread bodies: (clock, thread, payload)
        self.finished = False
        self.steps = 0


class Scheduler:
    def __init__(self, files, opcode=False):
        self.files = tuple(files)
        self.opcode = opcode

    def run(self, bodies, prefix):
        """Run thread bodies (callables taking a `rec(payload)` function) under the choice prefix; choice 0 afterwards."""
        n = len(bodies)
        sems = [threading.Semaphore(0) for _ in range(n)]
        ctl = threading.Semaphore(0)
        done = [False] * n
        failed = []
        ex = Execution()
        clock = [0]
        files = self.files
        opcode = self.opcode

        def yield_point(t):
            ctl.release()
            if not sems[t].acquire(timeout=HANDOFF_TIMEOUT):
                failed.append(f"thread {t} starved")
                raise SystemExit

        def make_tracer(t):
            def local(frame, event, arg):
                if event == "line" and not opcode:
                    yield_point(t)
                elif event == "opcode":
                    yield_point(t)
                return local

            def glob(frame, event, arg):
                if event == "call" and frame.f_code.co_filename.endswith(files):
                    if opcode:
                        frame.f_trace_opcodes = True
                    return local
                return None

            return glob

        def worker(t):
            if not sems[t].acquire(timeout=HANDOFF_TIMEOUT):
                return

            def rec(payload):
                clock[0] += 1
                ex.events.append((clock[0], t, payload))

            try:
                sys.settrace(make_tracer(t))
                try:
                    bodies[t](rec)
                finally:
                    sys.settrace(None)
            except SystemExit:
                pass
            except BaseException as e:  # harness-level failure inside a body
                failed.append(f"thread {t}: {type(e).__name__}: {e}")
            done[t] = True
            ctl.release()

        threads = [threading.Thread(target=worker, args=(t,), daemon=True) for t in range(n)]
        for th in threads:
            th.start()
        running = None
        k = 0
        while True:
            enabled = [t for t in range(n) if not done[t]]
            if not enabled:
                break
            still = running is not None and not done[running]
            if still:
                enabled = [running] + [t for t in enabled if t != running]
            if k < len(prefix):
                c = prefix[k]
                if c >= len(enabled):
                    raise HarnessError(f"schedule replay diverged: choice {c} at point {k} but only {len(enabled)} enabled")
            else:
                c = 0
            ex.choices.append(c)
            ex.points.append((tuple(enabled), still))
            k += 1
            running = enabled[c]
            sems[running].release()
            if not ctl.acquire(timeout=HANDOFF_TIMEOUT):
                raise HarnessError("harness: blocked outside scheduler (a thread neither reached a scheduling point nor finished)")
            if failed:
                break
        for th in threads:
            th.join(timeout=HANDOFF_TIMEOUT)
        if failed:
            raise HarnessError("; ".join(failed))
        ex.finished = True
        ex.steps = k
        return ex


def preemptions(ex, upto):
    return sum(1 for j in range(upto) if ex.choices[j] != 0 and ex.points[j][1])


def explore(sched, make_bodies, bound, on_execution, max_executions=None):
    """Enumerate every schedule with at most `bound` pre-emptions.  `make_bodies()` must return FRESH bodies
    (fresh state) for every execution.  Returns (#executions, capped?)."""
    count = [0]
    capped = [False]
    stack = [[]]
    while stack:
        prefix = stack.pop()
        if max_executions is not None and count[0] >= max_executions:
            capped[0] = True
            break
        ex = sched.run(make_bodies(), prefix)
        count[0] += 1
        on_execution(ex)
        for i in range(len(ex.points) - 1, len(prefix) - 1, -1):
            enabled, still = ex.points[i]
            cost = preemptions(ex, i)
            if still:
                cost += 1
            if cost > bound:
                continue
            for alt in range(len(enabled) - 1, 0, -1):
                stack.append(ex.choices[:i] + [alt])
    return count[0], capped[0]
