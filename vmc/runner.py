"""Shared runner for all property checks.

A check module (vmc/props/cXX.py) exposes a module-level object ``CHECK`` that is an
instance of a ``Check`` subclass.  The runner

* enumerates ``CHECK.groups(tier, seed)`` (coarse, JSON-able descriptors that *partition*
  the bounded space), shards them deterministically over worker processes,
* in each worker enumerates ``CHECK.cases(group, tier, seed)`` completely and calls
  ``CHECK.run_case(case, ctx)`` on every case (the real code + oracle),
* merges the per-group statistics, matches violations against ``known_findings.json``,
  writes replay files, the evidence file, and prints VIOLATION / KNOWN-FINDING lines.

Nothing here samples: every group and every case of every group is visited, or a cap is
reported and ``exhaustive`` is false.
"""
from __future__ import annotations

import fnmatch
import hashlib
import importlib
import json
import os
import sys
import time
import traceback
from collections import Counter

ROOT = os.path.dirname(os.path.dirname(os.path.abspath(__file__)))
NWORKERS = int(os.environ.get("VERIF_WORKERS", "16"))


class HarnessError(Exception):
    """Raised for problems of the harness itself (never a property verdict)."""


def jhash(obj) -> str:
    return hashlib.sha1(json.dumps(obj, sort_keys=True, default=str).encode()).hexdigest()[:16]


class Ctx:
    """Per-group collector handed to ``run_case``."""

    MAX_STORED_PER_SIG = 2

    def __init__(self, group):
        self.group = group
        self.evaluations = 0
        self.nontrivial = set()
        self.outcomes = Counter()
        self.counters = Counter()
        self.violations = {}  # sig -> {"count": n, "examples": [ {case, detail} ]}
        self.samples = []
        self.states = 0
        self.transitions = 0
        self.traces = 0
        self._case = None

    # --- bookkeeping -----------------------------------------------------------------
    def begin(self, case):
        self._case = case
        self.evaluations += 1

    def nontriv(self, key=None):
        """Mark current case (or an explicit key) as non-trivial; distinct by hash."""
        self.nontrivial.add(jhash(self._case if key is None else key))

    def outcome(self, cls):
        self.outcomes[str(cls)] += 1

    def count(self, name, n=1):
        self.counters[name] += n

    def sample(self, obj):
        if len(self.samples) < 2:
            self.samples.append(obj)

    def violation(self, sig, detail, case=None):
        v = self.violations.setdefault(sig, {"count": 0, "examples": []})
        v["count"] += 1
        if len(v["examples"]) < self.MAX_STORED_PER_SIG:
            v["examples"].append({"case": case if case is not None else self._case, "detail": str(detail)[:2000]})

    def result(self):
        return {
            "evaluations": self.evaluations,
            "nontrivial": len(self.nontrivial),
            "outcomes": dict(self.outcomes),
            "counters": dict(self.counters),
            "violations": self.violations,
            "samples": self.samples,
            "states": self.states,
            "transitions": self.transitions,
            "traces": self.traces,
        }


class Check:
    pid = "C00"
    level = "exploration"  # or model_checking
    rule = ""
    assumptions: list = []
    design_ref = ""

    def setup_worker(self):
        pass

    def groups(self, tier, seed):
        raise NotImplementedError

    def cases(self, group, tier, seed):
        raise NotImplementedError

    def run_case(self, case, ctx):
        raise NotImplementedError

    # optional: whole-group execution (engines that are not case-by-case, e.g. BFS)
    def run_group(self, group, tier, seed, ctx):
        for case in self.cases(group, tier, seed):
            ctx.begin(case)
            try:
                self.run_case(case, ctx)
            except HarnessError:
                raise
            except Exception as e:
                # The oracle could not even evaluate what the library returned (e.g. a malformed result).  On the unchanged tree
                # this never happens (every check is run there), so after a change to the library it is reported as a violation
                # of the property under its own signature - unless VERIF_STRICT_HARNESS=1 asks for a harness error instead.
                if os.environ.get("VERIF_STRICT_HARNESS"):
                    raise HarnessError(
                        f"unhandled exception in run_case for case {json.dumps(case, default=str)[:500]}:\n"
                        + traceback.format_exc()
                    ) from e
                tb = traceback.extract_tb(e.__traceback__)
                where = f"{os.path.basename(tb[-1].filename)}:{tb[-1].name}" if tb else "?"
                ctx.violation(f"oracle-could-not-evaluate-library-result/{type(e).__name__}@{where}",
                              f"case {json.dumps(case, default=str)[:800]}: {type(e).__name__}: {e}\n" + traceback.format_exc()[-1500:])

    def extra_coverage(self, merged):
        return {}


# ------------------------------------------------------------------------------------------
_WCHECK = None


def _load(pid):
    mod = importlib.import_module(f"vmc.props.{pid.lower()}")
    return mod.CHECK


def _winit(pid):
    global _WCHECK
    import warnings

    warnings.filterwarnings("ignore")
    _WCHECK = _load(pid)
    _WCHECK.setup_worker()


def _wrun(args):
    gi, group, tier, seed = args
    ctx = Ctx(group)
    t0 = time.time()
    try:
        _WCHECK.run_group(group, tier, seed, ctx)
    except HarnessError as e:
        return {"harness_error": str(e), "group": group}
    except Exception:
        return {"harness_error": traceback.format_exc(), "group": group}
    r = ctx.result()
    r["gi"] = gi
    r["wall"] = time.time() - t0
    return r


def load_known(pid):
    path = os.path.join(ROOT, "known_findings.json")
    if not os.path.exists(path):
        return []
    with open(path) as f:
        data = json.load(f)
    return [e for e in data.get("findings", []) if e.get("property") == pid]


def match_known(sig, known):
    for e in known:
        if e.get("status") != "known":
            continue
        for pat in e.get("signatures", [e.get("signature")]):
            if pat and fnmatch.fnmatchcase(sig, pat):
                return e
    return None


def validate_evidence(ev):
    try:
        sys.path.insert(0, os.path.join(ROOT, ".deps"))
        import jsonschema  # type: ignore
    except Exception:
        return "jsonschema unavailable (run setup.sh); evidence not validated"
    finally:
        if sys.path and sys.path[0].endswith(".deps"):
            sys.path.pop(0)
    schema_path = "/root/.vp/EVIDENCE.schema.json"
    if not os.path.exists(schema_path):
        schema_path = os.path.join(ROOT, "schemas", "EVIDENCE.schema.json")
    with open(schema_path) as f:
        schema = json.load(f)
    jsonschema.validate(ev, schema)
    return None


def run_check(pid, tier, seed, replay=None):
    import warnings

    warnings.filterwarnings("ignore")
    check = _load(pid)
    t0 = time.time()

    if replay:
        with open(replay) as f:
            rep = json.load(f)
        check.setup_worker()
        ctx = Ctx(rep.get("group"))
        case = rep["case"]
        ctx.begin(case)
        check.run_case(case, ctx)
        if ctx.violations:
            for sig, v in ctx.violations.items():
                print(f"REPLAY reproduces: {sig}: {v['examples'][0]['detail']}")
                print(f"VIOLATION property={pid} replay={replay}")
            return 1
        print("REPLAY: no violation on this tree")
        return 0

    groups = list(check.groups(tier, seed))
    jobs = [(i, g, tier, seed) for i, g in enumerate(groups)]
    results = []
    import multiprocessing as mp

    mpctx = mp.get_context("fork")
    with mpctx.Pool(max(1, min(NWORKERS, max(len(jobs), getattr(check, "parent_parallelism", 1)))), initializer=_winit, initargs=(pid,)) as pool:
        if hasattr(check, "parent_run"):
            # engines that need a global frontier (level-synchronous BFS): driven from the parent, expanded in the pool
            try:
                for k, r in enumerate(check.parent_run(tier, seed, pool)):
                    r.setdefault("gi", len(groups))
                    groups.append(r.pop("group", {"part": "parent_run", "k": k}))
                    results.append(r)
            except HarnessError as e:
                results.append({"harness_error": str(e), "group": "parent_run"})
        for r in pool.imap_unordered(_wrun, jobs, chunksize=1):
            results.append(r)

    herr = [r for r in results if "harness_error" in r]
    if herr:
        print(f"HARNESS-ERROR property={pid}: {len(herr)} group(s) failed; first:\n{herr[0]['harness_error']}", file=sys.stderr)
        return 2
    results.sort(key=lambda r: r["gi"])

    merged = {
        "evaluations": sum(r["evaluations"] for r in results),
        "nontrivial": sum(r["nontrivial"] for r in results),
        "states": sum(r["states"] for r in results),
        "transitions": sum(r["transitions"] for r in results),
        "traces": sum(r["traces"] for r in results),
        "outcomes": Counter(),
        "counters": Counter(),
        "violations": {},
        "samples": [],
    }
    for r in results:
        merged["outcomes"].update(r["outcomes"])
        merged["counters"].update(r["counters"])
        for sig, v in r["violations"].items():
            m = merged["violations"].setdefault(sig, {"count": 0, "examples": []})
            m["count"] += v["count"]
            for ex in v["examples"]:
                if len(m["examples"]) < 2:
                    ex = dict(ex)
                    ex["group"] = groups[r["gi"]]
                    m["examples"].append(ex)
        for s in r["samples"]:
            if len(merged["samples"]) < 4:
                merged["samples"].append(s)

    known = load_known(pid)
    unknown_sigs, known_hits = [], {}
    for sig in sorted(merged["violations"]):
        e = match_known(sig, known)
        if e is None:
            unknown_sigs.append(sig)
        else:
            known_hits.setdefault(e["id"], (e, []))[1].append(sig)

    rc = 0
    for eid, (e, sigs) in sorted(known_hits.items()):
        n = sum(merged["violations"][s]["count"] for s in sigs)
        print(f"KNOWN-FINDING: property={pid} {e['id']}: {e['what']} [{n} case(s), signatures: {', '.join(sigs[:4])}{' …' if len(sigs) > 4 else ''}]")
    for sig in unknown_sigs:
        v = merged["violations"][sig]
        ex = v["examples"][0]
        rdir = os.path.join(ROOT, "replays", pid)
        os.makedirs(rdir, exist_ok=True)
        path = os.path.join(rdir, f"{jhash([sig, ex['case']])}.json")
        with open(path, "w") as f:
            json.dump({"property": pid, "signature": sig, "group": ex.get("group"), "case": ex["case"],
                       "detail": ex["detail"], "count": v["count"], "tier": tier, "seed": seed,
                       "replay_cmd": f"./check {pid} --replay {os.path.relpath(path, ROOT)}"}, f, indent=1, default=str)
        print(f"  violation signature {sig} ({v['count']} case(s)); first: {ex['detail'][:600]}")
        print(f"VIOLATION property={pid} replay={os.path.relpath(path, ROOT)}")
        rc = 1

    wall = time.time() - t0
    cov = {
        "evaluations": merged["evaluations"],
        "distinct_nontrivial": merged["nontrivial"],
        "rule": check.rule,
        "samples": merged["samples"] or [{"note": "no sample recorded"}],
        "exhaustive": True,
        "groups": len(groups),
        "outcome_classes": dict(merged["outcomes"].most_common(40)),
        "distinct_outcome_classes": len(merged["outcomes"]),
        "counters": dict(merged["counters"]),
        "known_finding_cases": {eid: sum(merged["violations"][s]["count"] for s in sigs) for eid, (e, sigs) in known_hits.items()},
        "violation_signatures": unknown_sigs,
        "workers": NWORKERS,
    }
    if check.level == "model_checking":
        cov["states"] = merged["states"]
        cov["transitions"] = merged["transitions"]
        cov["traces_validated_against_impl"] = merged["traces"]
    cov.update(check.extra_coverage(merged))
    ev = {
        "property_id": pid,
        "tier": tier,
        "seed": seed,
        "level": check.level,
        "coverage": cov,
        "assumptions": list(check.assumptions),
        "wall_s": round(wall, 2),
        "violations": len(unknown_sigs),
    }
    os.makedirs(os.path.join(ROOT, "evidence"), exist_ok=True)
    try:
        note = validate_evidence(ev)
    except Exception as e:  # schema violation is a harness error
        print(f"HARNESS-ERROR property={pid}: evidence does not validate: {e}", file=sys.stderr)
        return 2
    if note:
        ev["assumptions"].append(note)
    with open(os.path.join(ROOT, "evidence", f"{pid}.json"), "w") as f:
        json.dump(ev, f, indent=1, default=str)
    print(f"{pid} tier={tier} seed={seed}: groups={len(groups)} evaluations={merged['evaluations']} "
          f"distinct_nontrivial={merged['nontrivial']} outcome_classes={len(merged['outcomes'])} "
          + (f"states={merged['states']} transitions={merged['transitions']} traces={merged['traces']} " if check.level == 'model_checking' else "")
          + f"known={sum(cov['known_finding_cases'].values())} new_violation_signatures={len(unknown_sigs)} wall={wall:.1f}s")
    return rc
