"""C17 infrastructure: specification (reference model), adapters around the two real managers,
and a thread runner that executes one operation at a time in persistent real threads."""
import itertools
import sys
import threading
from queue import SimpleQueue

import numpy as np

BOGUS = "no_such_backend"

# ------------------------------------------------------------------------------------------
# Specification: per-thread stack over a shared default.  Nondeterministic exactly where the
# statement is silent (what a *global*-flavour context exit does to the shared default, whether
# restoration re-selects the saved backend or un-selects).
# state = (G, sel, stk);  sel[t] in names + (None,);  stk[t] = tuple of (prev, wasNone, fl, g0)


def spec_init(nthreads, g0):
    return (g0, (None,) * nthreads, ((),) * nthreads)


def spec_cur(s, t):
    G, sel, stk = s
    return sel[t] if sel[t] is not None else G


def _rep(tup, i, v):
    return tup[:i] + (v,) + tup[i + 1:]


def spec_enabled(s, t, ev, maxdepth):
    G, sel, stk = s
    if ev[0] in ("enter",):
        return len(stk[t]) < maxdepth
    if ev[0] == "exit":
        return len(stk[t]) > 0
    return True


def spec_step(s, t, ev):
    """Set of successor spec states of event `ev` by thread `t`."""
    G, sel, stk = s
    k = ev[0]
    if k in ("query", "setbad", "enterbad"):
        return {s}
    if k == "set":
        _, b, fl = ev
        return {(b if fl == "G" else G, _rep(sel, t, b), stk)}
    if k == "enter":
        _, b, fl = ev
        entry = (spec_cur(s, t), sel[t] is None, fl, G if fl == "G" else None)  # g0 only matters for the global flavour
        return {(b if fl == "G" else G, _rep(sel, t, b), _rep(stk, t, stk[t] + (entry,)))}
    if k == "enter_r":  # first half of a non-atomic enter: remember what to restore (no visible effect)
        _, b, fl = ev
        entry = (spec_cur(s, t), sel[t] is None, fl, G if fl == "G" else None)
        return {(G, sel, _rep(stk, t, stk[t] + (entry,)))}
    if k == "enter_w":  # second half: the selection itself
        _, b, fl = ev
        return {(b if fl == "G" else G, _rep(sel, t, b), stk)}
    if k == "exit":
        prev, was_none, fl, g0 = stk[t][-1]
        nstk = _rep(stk, t, stk[t][:-1])
        out = set()
        gopts = {G} if fl == "L" else {G, prev, g0}
        for g2 in gopts:
            out.add((g2, _rep(sel, t, prev), nstk))  # restore by value
            if was_none and g2 == prev:
                out.add((g2, _rep(sel, t, None), nstk))  # or un-select (thread follows the default again)
        return out
    raise ValueError(ev)


def alphabet(names, with_query=True):
    evs = []
    if with_query:
        evs.append(("query",))
    for b in names:
        for fl in ("L", "G"):
            evs.append(("set", b, fl))
    evs.append(("setbad",))
    for b in names:
        for fl in ("L", "G"):
            evs.append(("enter", b, fl))
    for fl in ("L", "G"):
        evs.append(("enterbad", fl))
    evs.append(("exit", "ok"))
    evs.append(("exit", "exc"))
    return evs


# ------------------------------------------------------------------------------------------
# Adapters around the real managers
_EXEC = threading.local()


def _log_exec(name):
    _EXEC.last = name


class Boom(Exception):
    pass


class Manager:
    """Uniform access to one real manager (tensorly.backend or tensorly.tenalg)."""

    def __init__(self, which, nbackends=2):
        import tensorly.backend as TB
        import tensorly.tenalg as TA
        from tensorly.backend.core import Backend
        from tensorly.backend.numpy_backend import NumpyBackend

        self.which = which
        if which == "backend":
            self.mod = TB
            self.cls = type(TB)
            have = Backend._available_backends
            for nm in ("vfa", "vfb")[: max(0, nbackends - 1)]:
                if nm not in have:
                    type("Verif" + nm, (NumpyBackend,), {}, backend_name=nm)
                if nm not in self.cls.available_backend_names:
                    self.cls.available_backend_names.append(nm)
            self.names = ["numpy", "vfa", "vfb"][:nbackends]
            for nm in self.names:
                bcls = have[nm]
                if not bcls.__dict__.get("_verif_wrapped", False):
                    if "_verif_orig_to_numpy" not in NumpyBackend.__dict__:
                        o = NumpyBackend.__dict__["to_numpy"]
                        NumpyBackend._verif_orig_to_numpy = o.__func__ if isinstance(o, staticmethod) else o
                    orig = bcls.__dict__.get("to_numpy", None) if bcls is not NumpyBackend else None
                    f = (orig.__func__ if isinstance(orig, staticmethod) else orig) if orig is not None else NumpyBackend._verif_orig_to_numpy

                    def to_numpy(x, _nm=nm, _f=f):
                        _log_exec(_nm)
                        return _f(x)

                    bcls.to_numpy = staticmethod(to_numpy)
                    bcls._verif_wrapped = True
            self._arg = np.zeros(1)
            self.call = lambda: self.mod.to_numpy(self._arg)
        else:
            self.mod = TA
            self.cls = type(TA)
            from tensorly.tenalg.base_tenalg import TenalgBackend

            self.names = ["core", "einsum"][:nbackends]
            for nm in self.names:
                self.cls.load_backend.__func__(self.cls, nm) if nm not in self.cls._loaded_backends else None
                bcls = TenalgBackend._available_tenalg_backends[nm]
                if not bcls.__dict__.get("_verif_wrapped", False):
                    orig = bcls.__dict__["inner"]
                    f = orig.__func__ if isinstance(orig, staticmethod) else orig

                    def inner(*a, _nm=nm, _f=f, **k):
                        _log_exec(_nm)
                        return _f(*a, **k)

                    bcls.inner = staticmethod(inner)
                    bcls._verif_wrapped = True
            self._arg = np.ones(2)
            self.call = lambda: self.mod.inner(self._arg, self._arg)
        # make sure every backend is loaded so that _loaded_backends is constant during exploration
        for nm in self.names:
            if nm not in self.cls._loaded_backends:
                self.cls.load_backend(nm)
        self._baseline = None

    # ---- generic snapshot of every data field the manager owns (class dict + module dict)
    def _fields(self):
        out = {}
        for scope, d in (("cls", vars(self.cls)), ("mod", vars(self.mod))):
            for k, v in d.items():
                if k.startswith("__") or k == "_THREAD_LOCAL_DATA":
                    continue
                if isinstance(v, (staticmethod, classmethod, type, type(sys), property)) or callable(v):
                    continue
                if type(v).__name__ in ("dynamically_dispatched_class_attribute",):
                    continue
                out[(scope, k)] = v
        return out

    @staticmethod
    def _canon(v):
        if hasattr(v, "backend_name") and not isinstance(v, type):
            return "<backend %s>" % v.backend_name
        if isinstance(v, dict):
            return tuple(sorted((str(k), Manager._canon(x)) for k, x in v.items()))
        if isinstance(v, (list, tuple)):
            return tuple(Manager._canon(x) for x in v)
        if isinstance(v, (str, int, float, bool, type(None))):
            return v
        return "<%s>" % type(v).__name__

    def snapshot(self):
        return tuple(sorted((k, self._canon(v)) for k, v in self._fields().items()))

    def reset(self, g0):
        """Put the manager into the initial state: shared default g0, no participant thread has selected.
        (The calling thread's own thread-local selection is irrelevant: it never participates.)"""
        import copy

        inst = self.cls._loaded_backends[g0]
        if self._baseline is None:
            self.mod.set_backend(g0)
            self._baseline = {k: (v, copy.copy(v) if isinstance(v, (list, dict, set)) else None) for k, v in self._fields().items()}
            return
        for k in list(self._fields()):
            if k not in self._baseline:  # a data field that did not exist initially (e.g. a cache): drop it
                scope, name = k
                try:
                    delattr(self.cls if scope == "cls" else self.mod, name)
                except Exception:
                    pass
        for (scope, name), (v, cp) in self._baseline.items():
            tgt = self.cls if scope == "cls" else self.mod
            if cp is not None and v != cp:  # container mutated in place: restore its contents
                if isinstance(v, list):
                    v[:] = cp
                else:
                    v.clear()
                    v.update(cp)
            if tgt.__dict__.get(name, None) is not v:
                try:
                    setattr(tgt, name, v)
                except Exception:
                    pass
        self.cls._backend = inst
        self.cls._default_backend = g0

    # ---- operations (executed inside a participant thread)
    def op(self, ev, ctxs, by_instance=False):
        """by_instance: hand the backend over as an instance instead of a name (both are documented ways of selecting)."""
        k = ev[0]
        arg = (lambda nm: self.cls._loaded_backends[nm]) if by_instance else (lambda nm: nm)
        try:
            if k == "query":
                return ("ok",)
            if k == "set":
                self.mod.set_backend(arg(ev[1]), local_threadsafe=(ev[2] == "L"))
                return ("ok",)
            if k == "setbad":
                try:
                    self.mod.set_backend(BOGUS)
                except Exception as e:
                    return ("rejected", type(e).__name__)
                return ("accepted-bogus",)
            if k == "enter":
                cm = self.mod.backend_context(arg(ev[1]), local_threadsafe=(ev[2] == "L"))
                cm.__enter__()
                ctxs.append(cm)
                return ("ok",)
            if k == "enterbad":
                cm = self.mod.backend_context(BOGUS, local_threadsafe=(ev[1] == "L"))
                try:
                    cm.__enter__()
                except Exception as e:
                    return ("rejected", type(e).__name__)
                ctxs.append(cm)
                return ("accepted-bogus",)
            if k == "exit":
                cm = ctxs.pop()
                if ev[1] == "ok":
                    cm.__exit__(None, None, None)
                    return ("ok",)
                try:
                    raise Boom("body failed")
                except Boom as e:
                    try:
                        r = cm.__exit__(Boom, e, e.__traceback__)
                    except Boom:
                        return ("ok",)
                    return ("ok",) if not r else ("swallowed",)
        except Exception as e:  # unexpected exception from the manager: recorded, judged by observations
            return ("raised", type(e).__name__, str(e)[:80])
        raise ValueError(ev)

    def clear_tls(self):
        """Executed inside a participant thread: make it a thread that 'never selected' again by emptying every
        threading.local the manager owns (class or module level)."""
        import threading as _th

        for d in (vars(self.cls), vars(self.mod)):
            for v in list(d.values()):
                if isinstance(v, _th.local):
                    v.__dict__.clear()
        return True

    def probe(self):
        """What the calling thread observes: every documented way of asking must agree."""
        _EXEC.last = None
        try:
            self.call()
            ex = _EXEC.last
        except Exception as e:
            ex = "call-raised:" + type(e).__name__
        try:
            a = self.mod.get_backend()
        except Exception as e:
            a = "get-raised:" + type(e).__name__
        try:
            b = self.mod.current_backend().backend_name
        except Exception as e:
            b = "cur-raised:" + type(e).__name__
        tls = self.cls._THREAD_LOCAL_DATA.__dict__.get("backend")
        return (a, b, ex, None if tls is None else tls.backend_name)


# ------------------------------------------------------------------------------------------
class ThreadRunner:
    """n persistent fresh threads; `do(t, fn)` runs fn() in thread t and returns its result."""

    def __init__(self, n):
        self.inbox = [SimpleQueue() for _ in range(n)]
        self.outbox = SimpleQueue()
        self.threads = []
        for i in range(n):
            th = threading.Thread(target=self._loop, args=(i,), daemon=True)
            th.start()
            self.threads.append(th)

    def _loop(self, i):
        q = self.inbox[i]
        while True:
            fn = q.get()
            if fn is None:
                return
            try:
                r = fn()
            except BaseException as e:  # harness bug
                r = ("__harness_exception__", repr(e))
            self.outbox.put(r)

    def do(self, t, fn):
        self.inbox[t].put(fn)
        return self.outbox.get()

    def close(self):
        for q in self.inbox:
            q.put(None)
        for th in self.threads:
            th.join()


def ctx_canon(cm):
    """Canonical form of an open context manager object: whatever it saved for its exit."""
    gen = getattr(cm, "gen", None)
    fr = getattr(gen, "gi_frame", None)
    if fr is not None:
        return tuple(sorted((k, Manager._canon(v)) for k, v in fr.f_locals.items() if k != "cls"))
    return tuple(sorted((k, Manager._canon(v)) for k, v in getattr(cm, "__dict__", {}).items() if k not in ("func", "args", "kwds", "gen")))


def run_history(mgr, other, nthreads, g0, hist):
    """Replay `hist` (list of (t, ev)) on fresh threads from the initial state.
    Returns per-step records: (result, probes of every thread, implementation fields, other manager's probes)."""
    mgr.reset(g0)
    tr = ThreadRunner(nthreads)
    ctxs = [[] for _ in range(nthreads)]
    recs = []
    try:
        p0 = tuple(tr.do(u, mgr.probe) for u in range(nthreads))
        o0 = tuple(tr.do(u, other.probe) for u in range(nthreads)) if other is not None else None
        recs.append((None, p0, mgr.snapshot(), o0, tuple(len(c) for c in ctxs)))
        for (t, ev) in hist:
            ev = tuple(ev)
            res = tr.do(t, lambda t=t, ev=ev: mgr.op(ev, ctxs[t]))
            probes = tuple(tr.do(u, mgr.probe) for u in range(nthreads))
            oth = tuple(tr.do(u, other.probe) for u in range(nthreads)) if other is not None else None
            recs.append((res, probes, mgr.snapshot(), oth, tuple(len(c) for c in ctxs)))
    finally:
        tr.close()
    return recs
