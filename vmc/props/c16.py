"""C16 — seeded calls are reproducible and independent of the global NumPy RNG state.

Engine HX (API histories, DESIGN.md §1.2 / §4 C16): per entry point, breadth-first search over ALL
operation sequences up to the depth bound.  A state is the history that reaches it; every BFS edge
is executed on the REAL tensorly code by replaying the whole history from a fixed initial global
RNG state (``np.random.seed(BASE)``) and then the new operation.  States are merged on the
canonical form

    (hash of np.random.get_state(),  {(call kind, seed) -> set of output hashes seen})

which contains everything the invariants of any continuation can depend on (a *set* instead of the
multiset of the design: a repeated identical output does not change any future verdict).

Alphabet of a seed-accepting entry point f (13 operations):
    int(s)   f(random_state=s)                       s in {0, 1, 12345, 2**32-1}
    gen(s)   f(random_state=np.random.RandomState(s))  (a fresh, identically seeded generator)
    none     f(random_state=None)      -- a legitimate user of the global RNG: perturbation only
    seed(j)  np.random.seed(j)         j in {0, 12345}  (deliberately colliding with call seeds)
    draw(1)  np.random.random_sample(1);  draw(3)  np.random.randn(3)  (leaves a cached gaussian)
Alphabet of a seedless family (4 deterministic functions g0..g3):  g(i), seed(j), draw(n).

Depth bound: quick 3 / thorough 4 for ordinary entry points; +1 for the cheap ones (random tensor
generators, bare initialisers, sample_khatri_rao, randomized SVD: catalogue flag "deep"); +2 for
the seedless families (8-letter alphabet).

Invariants, evaluated for the last operation of every history (every prefix is itself visited):
    I1  int(s): the output is bit-identical to every earlier int(s) output in the history
    I2  gen(s): the output is bit-identical to every earlier gen(s) output in the history
    I3  int(s): np.random.get_state() is identical before and after the call
    I4  g(i):   the output is bit-identical to every earlier g(i) output
Deliberately NOT demanded (the statement is silent): int(s) == gen(s); anything about none-calls;
global state untouched by gen(s) / g(i) calls; different seeds giving different outputs (only
recorded, as evidence that the comparison is not vacuous).
"""
import contextlib
import hashlib
import io
import itertools

import numpy as np

from vmc.runner import Check

INT_SEEDS = [0, 1, 12345, 2 ** 32 - 1]
GEN_SEEDS = [0, 1, 12345, 2 ** 32 - 1]
PERTURB = [["seed", 0], ["seed", 12345], ["draw", 1], ["draw", 3]]
SEEDED_ALPHABET = [["int", s] for s in INT_SEEDS] + [["gen", s] for s in GEN_SEEDS] + [["none"]] + PERTURB
BASE_SEED = 20240917


def depth_for(tier, deep):
    d = 3 if tier == "quick" else 4
    return d + int(deep)  # deep: 0 (ordinary entry point), 1 (cheap entry point), 2 (seedless family)


# ---------------------------------------------------------------------------------------------
def gstate_hash():
    st = np.random.get_state()
    h = hashlib.sha1()
    h.update(str(st[0]).encode())
    h.update(np.ascontiguousarray(st[1]).tobytes())
    h.update(repr((int(st[2]), int(st[3]))).encode())
    h.update(np.float64(st[4]).tobytes())
    return h.hexdigest()[:16]


def flatten(obj, out):
    """Canonical flattening of a tensorly result into a list of ('tag', payload) leaves."""
    if obj is None:
        out.append(("none", None))
    elif isinstance(obj, np.ndarray):
        out.append(("array", obj))
    elif isinstance(obj, (bool, int, float, complex, np.generic)):
        out.append(("array", np.asarray(obj)))
    elif isinstance(obj, str):
        out.append(("str", obj))
    elif isinstance(obj, slice):
        out.append(("str", repr(obj)))
    elif isinstance(obj, (list, tuple)):
        out.append(("seq", len(obj)))
        for o in obj:
            flatten(o, out)
    else:
        try:
            items = list(obj)  # CPTensor / TuckerTensor / TTTensor / TRTensor / Parafac2Tensor / TTMatrix
        except TypeError:
            out.append(("str", type(obj).__name__))
            return out
        out.append(("obj:" + type(obj).__name__, len(items)))
        for o in items:
            flatten(o, out)
    return out


def out_hash(leaves):
    h = hashlib.sha1()
    for tag, p in leaves:
        h.update(tag.encode())
        if tag == "array":
            a = np.ascontiguousarray(p)
            h.update(str(a.dtype).encode())
            h.update(repr(a.shape).encode())
            h.update(a.tobytes())
        else:
            h.update(repr(p).encode())
    return h.hexdigest()[:16]


def describe_diff(la, lb):
    """Human-readable difference of two flattened outputs."""
    if isinstance(la, str) or isinstance(lb, str):
        return f"{la if isinstance(la, str) else 'returned'} vs {lb if isinstance(lb, str) else 'returned'}"
    if len(la) != len(lb):
        return f"different structure ({len(la)} vs {len(lb)} leaves)"
    worst, where, first = 0.0, None, None
    for k, ((ta, pa), (tb, pb)) in enumerate(zip(la, lb)):
        if ta != tb:
            return f"leaf {k}: {ta} vs {tb}"
        if ta == "array":
            if pa.shape != pb.shape or pa.dtype != pb.dtype:
                return f"leaf {k}: {pa.dtype}{pa.shape} vs {pb.dtype}{pb.shape}"
            if pa.tobytes() != pb.tobytes():
                with np.errstate(all="ignore"):
                    d = float(np.nanmax(np.abs(pa.astype(complex) - pb.astype(complex)))) if pa.size else 0.0
                if where is None or d > worst:
                    worst, where = d, k
                    first = (np.ravel(pa)[:3].tolist(), np.ravel(pb)[:3].tolist())
        elif pa != pb:
            return f"leaf {k}: {pa!r} vs {pb!r}"
    if where is None:
        return "identical"
    return f"max |diff| = {worst:.3g} in leaf {where}; first entries {first[0]} vs {first[1]}"


def fmt_history(hist):
    names = []
    for op in hist:
        if op[0] == "int":
            names.append(f"f(random_state={op[1]})")
        elif op[0] == "gen":
            names.append(f"f(random_state=RandomState({op[1]}))")
        elif op[0] == "none":
            names.append("f(random_state=None)")
        elif op[0] == "seed":
            names.append(f"np.random.seed({op[1]})")
        elif op[0] == "draw":
            names.append("np.random.random_sample(1)" if op[1] == 1 else f"np.random.randn({op[1]})")
        elif op[0] == "g":
            names.append(f"g{op[1]}()")
    return "; ".join(names)


class C16(Check):
    pid = "C16"
    level = "model_checking"
    design_ref = "DESIGN.md §4 C16 (engine HX, §1.2)"
    rule = ("per entry point x configuration (one group each): BFS over ALL operation sequences of length <= depth "
            "(quick 3 / thorough 4; cheap entry points 4 / 5; seedless families 5 / 6) over the alphabet {f(int seed) x4, f(RandomState(seed)) x4, "
            "f(None), np.random.seed(j) x2, global draws x2} (seedless family: {g0..g3, seed x2, draws x2}); histories "
            "are merged when their canonical state (global RNG state hash, {(call kind, seed) -> set of output hashes}) "
            "coincides; every edge (state, op) is executed on the real code by replaying its whole history from "
            "np.random.seed(BASE). evaluations = edges = histories replayed. An edge is non-trivial iff its last operation "
            "is a library call for which the oracle actually compares something: an int-seeded call (global-state "
            "before/after comparison) or a call whose (kind, seed) already occurred in the history (bitwise output comparison)")
    assumptions = [
        "np.random.get_state()/seed()/RandomState are trusted; outputs are compared on ndarray.tobytes()+dtype+shape (exact, no tolerance: DESIGN §1.6 item 1)",
        "single-threaded BLAS (check script sets *_NUM_THREADS=1) so that identical inputs give bit-identical LAPACK/BLAS results within one process",
        "state merging is sound under the hypothesis that the library keeps no RNG-related state outside numpy's global generator; "
        "a violation of that hypothesis (e.g. a cached generator) is itself detected by invariant I1/I2 on the two-call histories",
        "data are fixed table values (vmc/values.py: generic), VERIF_SEED rotates the table offset only",
    ]

    _seeded = None
    _families = None

    # ------------------------------------------------------------------------------------------
    def setup_worker(self):
        if self._seeded is None:
            from vmc.ref import c16_catalogue as cat

            C16._seeded = {(e["name"], e["config"]): e for e in cat.seeded_entries()}
            C16._families = {f["name"]: f for f in cat.seedless_families()}
            C16._built = {}

    def groups(self, tier, seed):
        self.setup_worker()
        gs = []
        for (name, config), e in self._seeded.items():
            gs.append((e["cost"] * (60.0 if e["deep"] else 13.0), {"kind": "seeded", "entry": name, "config": config, "deep": int(e["deep"])}))
        for name, f in self._families.items():
            gs.append((f["cost"] * 12.0, {"kind": "seedless", "family": name, "deep": 2}))
        gs.sort(key=lambda t: -t[0])  # heavy groups first (dynamic scheduling evens out the rest)
        return [g for _, g in gs]

    def alphabet(self, group):
        if group["kind"] == "seeded":
            return SEEDED_ALPHABET
        n = len(self._families[group["family"]]["members"])
        return [["g", i] for i in range(n)] + PERTURB

    def cases(self, group, tier, seed):
        """All histories of the group, shortest first (superset of what the BFS replays: the BFS does not extend a
        history whose canonical state was already reached by a shorter/earlier one)."""
        alpha = self.alphabet(group)
        for d in range(1, depth_for(tier, group["deep"]) + 1):
            for h in itertools.product(alpha, repeat=d):
                yield dict(group, history=[list(o) for o in h], seed=seed)

    # ------------------------------------------------------------------------------------------
    def run_group(self, group, tier, seed, ctx):
        self.setup_worker()
        alpha = self.alphabet(group)
        depth = depth_for(tier, group["deep"])
        saved = np.random.get_state()
        try:
            np.random.seed(BASE_SEED)
            init_state = (gstate_hash(), ())
            visited = {init_state}
            frontier = [[]]
            first_out = {}
            for d in range(1, depth + 1):
                nxt = []
                for h in frontier:
                    for op in alpha:
                        case = dict(group, history=h + [op], seed=seed)
                        ctx.begin(case)
                        st = self._exec(case, ctx, first_out)
                        ctx.transitions += 1
                        ctx.traces += 1
                        if st not in visited:
                            visited.add(st)
                            nxt.append(h + [op])
                frontier = nxt
            ctx.states += len(visited)
            ctx.count("frontier_states_at_depth_bound", len(frontier))
            # integers outside the range NumPy accepts as a seed ("the same integer seed" quantifies over integers): whatever the
            # entry point does with them - the unchanged tree refuses them - it must do the same every time, global state untouched
            if group["kind"] == "seeded":
                for s_ in (-1, -12345, 2 ** 32):
                    for h in ([["int", s_], ["int", s_]], [["int", s_], ["seed", 0], ["draw", 1], ["int", s_]]):
                        case = dict(group, history=h, seed=seed)
                        ctx.begin(case)
                        self._exec(case, ctx, {})
                        ctx.transitions += 1
                        ctx.traces += 1
                        ctx.count("out_of_range_seed_histories")
            # vacuity evidence: do different seeds give different outputs for this entry point?
            if group["kind"] == "seeded":
                hs = {first_out.get(("int", s)) for s in INT_SEEDS}
                label = f"{group['entry']}[{group['config']}]"
                if len(hs) == len(INT_SEEDS):
                    ctx.count("entry_configs_where_all_4_seeds_give_distinct_outputs")
                elif len(hs) == 1:
                    ctx.count("seed_insensitive_entry_config:" + label)
                else:
                    ctx.count("partially_seed_sensitive_entry_config:" + label)
        finally:
            np.random.set_state(saved)

    def run_case(self, case, ctx):
        self.setup_worker()
        saved = np.random.get_state()
        try:
            self._exec(case, ctx, {})
        finally:
            np.random.set_state(saved)

    # ------------------------------------------------------------------------------------------
    def _callables(self, case):
        key = (case["kind"], case.get("entry"), case.get("config"), case.get("family"), case.get("seed", 0))
        c = self._built.get(key)
        if c is None:
            off = int(case.get("seed", 0))
            if case["kind"] == "seeded":
                c = ([self._seeded[(case["entry"], case["config"])]["build"](off)], None)
            else:
                mem = self._families[case["family"]]["members"]
                c = ([b(off) for _, b in mem], [lab for lab, _ in mem])
            self._built.clear()
            self._built[key] = c
        return c

    def _exec(self, case, ctx, first_out):
        """Replay one history on the real code; evaluate the invariants for its LAST operation; return the
        canonical state reached."""
        calls, labels = self._callables(case)
        hist = case["history"]
        seeded = case["kind"] == "seeded"
        where = f"{case['entry']}" if seeded else None
        cfg = case.get("config")
        np.random.seed(BASE_SEED)
        for c_ in calls:
            if hasattr(c_, "reset"):
                c_.reset()  # per-history object state of the "same-object-refit" entries
        seen = {}  # key -> list of (hash, leaves-or-raise-token, global hash at call time, position)
        sink = io.StringIO()
        n = len(hist)
        for pos, op in enumerate(hist):
            last = pos == n - 1
            kind = op[0]
            if kind == "seed":
                np.random.seed(op[1])
                if last:
                    ctx.outcome("perturb:np.random.seed")
                continue
            if kind == "draw":
                if op[1] == 1:
                    np.random.random_sample(1)
                else:
                    np.random.randn(op[1])
                if last:
                    ctx.outcome("perturb:global-draw")
                continue
            # ---- a library call ---------------------------------------------------------------
            g_before = gstate_hash()
            if kind == "int":
                arg, fn, key = (int(op[1]),), calls[0], ("int", op[1])
            elif kind == "gen":
                arg, fn, key = (np.random.RandomState(int(op[1])),), calls[0], ("gen", op[1])
            elif kind == "none":
                arg, fn, key = (None,), calls[0], ("none", None)
            else:
                arg, fn, key = (), calls[op[1]], ("g", op[1])
            ctx.count("library_calls")
            try:
                with contextlib.redirect_stdout(sink):
                    res = fn(*arg)
                leaves = flatten(res, [])
                hsh = out_hash(leaves)
            except Exception as e:  # library exception: an outcome token, compared like an output
                leaves = "raises " + type(e).__name__
                hsh = "raise:" + type(e).__name__
                if last:
                    ctx.count("guarded_out:call-raises:" + type(e).__name__)
            g_after = gstate_hash()
            prev = seen.setdefault(key, [])
            if last:
                name = where if seeded else labels[op[1]]
                desc = f"{name}[{cfg}]" if seeded else name
                head = f"{desc}: history = [{fmt_history(hist)}] (after np.random.seed({BASE_SEED}); VERIF_SEED={case.get('seed', 0)})"
                if kind in ("int", "gen"):
                    first_out.setdefault((kind, op[1]), hsh)
                if kind == "none":
                    ctx.outcome("none-call:" + ("consumes-global" if g_after != g_before else "global-untouched"))
                else:
                    compared = bool(prev)
                    if compared or kind == "int":
                        ctx.nontriv()
                    bad = [p for p in prev if p[0] != hsh]
                    moved = any(p[2] != g_before for p in prev)
                    if compared:
                        ctx.count("output_comparisons", len(prev))
                        if moved:
                            ctx.count("output_comparisons_across_a_global_rng_change")
                    cls = {"int": "int-seed", "gen": "generator", "g": "seedless"}[kind]
                    if bad:
                        p = bad[0]
                        # input class of the signature: did the global RNG state differ between the two calls?
                        ic = "global-state-differs" if p[2] != g_before else "same-global-state"
                        aspect = {"int": "int-seed-output-differs", "gen": "identically-seeded-generators-differ",
                                  "g": "seedless-output-differs"}[kind]
                        sig = f"{name}/{aspect}/{cfg}/{ic}" if seeded else f"{name}/{aspect}/{ic}"
                        ctx.violation(sig, f"{head}: operation #{pos + 1} and operation #{p[3] + 1} are the same call but their results are not "
                                           f"bit-identical ({describe_diff(p[1], leaves)}); global RNG state hash at the two calls "
                                           f"{p[2]} / {g_before}")
                        ctx.outcome(f"{cls}:repeat-DIFFERS")
                    elif compared:
                        ctx.outcome(f"{cls}:repeat-identical" + ("-across-global-change" if moved else "-same-global-state"))
                    else:
                        ctx.outcome(f"{cls}:first-call" + (":raises" if isinstance(leaves, str) else ""))
                    if kind == "int":
                        ctx.count("global_state_comparisons")
                        if g_after != g_before:
                            ctx.violation(f"{name}/global-rng-state-changed-by-int-seeded-call/{cfg}",
                                          f"{head}: np.random.get_state() changed across operation #{pos + 1} "
                                          f"(hash {g_before} -> {g_after}) although an integer seed was given")
                            ctx.outcome("int-seed:GLOBAL-STATE-CHANGED")
                    elif g_after != g_before:
                        ctx.count(f"{cls}_call_consumed_global_rng(not demanded)")
                if len(ctx.samples) < 2 and n >= 3 and kind in ("int", "gen", "g") and prev:
                    ctx.sample({"entry": desc, "history": fmt_history(hist), "output_hash_last_call": hsh,
                                "earlier_same_call_hashes": [p[0] for p in prev],
                                "global_state_hash_at_calls": [p[2] for p in prev] + [g_before]})
            prev.append((hsh, leaves, g_before, pos))
        outs = tuple(sorted((f"{k[0]}:{k[1]}", tuple(sorted({p[0] for p in v}))) for k, v in seen.items() if k[0] != "none"))
        return (gstate_hash(), outs)

    def extra_coverage(self, merged):
        self.setup_worker()
        return {"entry_point_configurations": len(self._seeded), "seedless_families": len(self._families),
                "seedless_functions": sum(len(f["members"]) for f in self._families.values()),
                "alphabet_seeded": [fmt_history([o]) for o in SEEDED_ALPHABET],
                "tolerance": "none (bitwise)"}


CHECK = C16()
