"""C07 — exact block-coordinate algorithms never increase their objective (per transition), plus a
differential non-initial-state oracle: a boring reference sweep applied to s_k must reproduce s_{k+1}.

Chains s_0 … s_K come from prefix runs of the real algorithms (vmc/itm.py); the objective is recomputed
from scratch at both ends of every transition; transitions whose block problems are ill conditioned
(condition number of a Gram matrix > 1e8, recomputed by the harness) are guarded out and counted.
"""
import numpy as np

from vmc import itm
from vmc.runner import Check

COND_MAX = 1e8


def cp_gram_conds(factors, weights=None):
    fs = [np.asarray(f) for f in factors]
    if weights is not None:
        fs = fs[:-1] + [fs[-1] * np.asarray(weights)[None, :]]
    conds = []
    for m in range(len(fs)):
        V = np.ones((fs[0].shape[1],) * 2)
        for i, f in enumerate(fs):
            if i != m:
                V = V * (f.T @ f)
        s = np.linalg.svd(V, compute_uv=False)
        conds.append(np.inf if s[-1] <= 0 else s[0] / s[-1])
    return max(conds)


def ref_cp_sweep(X, weights, factors, modes=None, l2=0.0):
    """One plain ALS sweep (normal equations, numpy) from the decomposition (weights absorbed into the last factor)."""
    fs = [np.array(f, dtype=float) for f in factors]
    if weights is not None:
        fs[-1] = fs[-1] * np.asarray(weights)[None, :]
    n = len(fs)
    R = fs[0].shape[1]
    for m in (range(n) if modes is None else modes):
        V = np.ones((R, R))
        for i, f in enumerate(fs):
            if i != m:
                V = V * (f.T @ f)
        # MTTKRP by explicit contraction
        letters = "abcdefgh"[:n]
        sub = letters + "," + ",".join(letters[i] + "z" for i in range(n) if i != m) + "->" + letters[m] + "z"
        mt = np.einsum(sub, X, *[fs[i] for i in range(n) if i != m])
        fs[m] = np.linalg.solve((V + l2 * np.eye(R)).T, mt.T).T
    return fs


def ref_hooi_sweep(X, factors, ranks):
    fs = [np.array(f, dtype=float) for f in factors]
    n = len(fs)
    gap_ok = True
    for m in range(n):
        Y = X
        for i in range(n):
            if i != m:
                Y = np.moveaxis(np.tensordot(fs[i].T, Y, axes=(1, i)), 0, i)
        Ym = np.moveaxis(Y, m, 0).reshape(Y.shape[m], -1)
        U, S, _ = np.linalg.svd(Ym, full_matrices=False)
        r = ranks[m]
        if r > len(S) or S[min(r, len(S)) - 1] < 1e-9 * max(S[0], 1e-300):
            gap_ok = False  # requested rank exceeds the rank of the projected unfolding: the extra vectors are arbitrary
        if r < len(S) and S[r - 1] - S[r] < 1e-6 * max(S[0], 1e-300):
            gap_ok = False
        fs[m] = U[:, :r]
    core = X
    for i in range(n):
        core = np.moveaxis(np.tensordot(fs[i].T, core, axes=(1, i)), 0, i)
    return core, fs, gap_ok


def variants(algo, tier):
    q = tier == "quick"
    out = []
    if algo == "parafac":
        out += [("plain-svd", {"init": "svd"}, 5 if q else 10), ("plain-random", {"init": "random"}, 5 if q else 10),
                ("normalize-random", {"init": "random", "normalize_factors": True}, 5 if q else 10),
                ("normalize-svd", {"init": "svd", "normalize_factors": True}, 4 if q else 8),
                ("linesearch", {"init": "random", "linesearch": True}, 10 if q else 14),
                ("linesearch-svd", {"init": "svd", "linesearch": True}, 10 if q else 14),
                ("linesearch-normalize", {"init": "random", "linesearch": True, "normalize_factors": True}, 10 if q else 14),
                ("l2reg", {"init": "random", "l2_reg": 0.5}, 4 if q else 8),
                ("fixed-mode0", {"init": "random", "fixed_modes": [0]}, 4 if q else 8),
                ("mask", {"init": "random", "mask": "MASK"}, 4 if q else 8),
                # the second tensor-algebra implementation is a configuration like any other
                ("einsum-normalize", {"init": "random", "normalize_factors": True, "tenalg": "einsum"}, 5 if q else 8),
                ("einsum-plain-svd", {"init": "svd", "tenalg": "einsum"}, 4 if q else 8),
                ("memory-mttkrp-normalize", {"init": "random", "normalize_factors": True, "mttkrp": "memory"}, 5 if q else 8)]
    elif algo == "non_negative_parafac_hals":
        out += [("svd", {"init": "svd"}, 3 if q else 6), ("random", {"init": "random"}, 3 if q else 6),
                ("normalize", {"init": "random", "normalize_factors": True}, 3 if q else 5),
                ("nn-mode0", {"init": "random", "nn_modes": [0]}, 3 if q else 5),
                # a strict subset of non-negative modes together with normalisation: the unconstrained modes are solved with the weights too
                ("nn-mode0-normalize", {"init": "random", "nn_modes": [0], "normalize_factors": True}, 4 if q else 6),
                ("nn-mode12-normalize", {"init": "svd", "nn_modes": [1, 2], "normalize_factors": True}, 4 if q else 6),
                ("einsum-normalize", {"init": "random", "normalize_factors": True, "tenalg": "einsum"}, 3 if q else 5),
                ("memory-mttkrp-normalize", {"init": "random", "normalize_factors": True, "mttkrp": "memory"}, 3 if q else 5)]
    elif algo == "tucker":
        out += [("svd", {"init": "svd"}, 4 if q else 8), ("random", {"init": "random"}, 4 if q else 8),
                ("einsum-random", {"init": "random", "tenalg": "einsum"}, 4 if q else 6),
                ("randomized_svd-generator", {"init": "random", "svd": "randomized_svd", "random_state": "RS:3"}, 6 if q else 10),
                ("symeig_svd", {"init": "svd", "svd": "symeig_svd"}, 4 if q else 6)]
    elif algo == "parafac2":
        out += [("random", {"init": "random", "linesearch": False}, 4 if q else 7), ("svd", {"init": "svd", "linesearch": False}, 4 if q else 7),
                ("nn-0", {"init": "random", "linesearch": False, "nn_modes": [0]}, 3 if q else 5),
                ("nn-02", {"init": "random", "linesearch": False, "nn_modes": [0, 2]}, 3 if q else 5),
                ("linesearch", {"init": "random", "linesearch": True}, 10 if q else 14),
                ("linesearch-svd", {"init": "svd", "linesearch": True}, 10 if q else 14),
                ("linesearch-normalize", {"init": "random", "linesearch": True, "normalize_factors": True}, 10 if q else 14),
                ("normalize", {"init": "random", "linesearch": False, "normalize_factors": True}, 3 if q else 6),
                ("einsum-normalize", {"init": "random", "linesearch": False, "normalize_factors": True, "tenalg": "einsum"}, 3 if q else 5),
                ("nn-0-normalize", {"init": "random", "linesearch": False, "nn_modes": [0], "normalize_factors": True}, 4 if q else 6),
                ("nn-02-normalize-linesearch", {"init": "random", "linesearch": True, "nn_modes": [0, 2], "normalize_factors": True}, 9 if q else 12)]
    elif algo == "tensor_ring_als":
        out += [("lstsq", {"ls_solve": "lstsq"}, 4 if q else 8), ("normal_eq", {"ls_solve": "normal_eq"}, 4 if q else 8)]
    elif algo == "cmtf":
        out += [("svd", {"init": "svd"}, 4 if q else 8), ("random", {"init": "random"}, 4 if q else 8),
                ("svd-normalize", {"init": "svd", "normalize_factors": True}, 4 if q else 6), ("random-normalize", {"init": "random", "normalize_factors": True}, 4 if q else 6)]
    elif algo in ("CPRegressor", "TuckerRegressor"):
        out += [("reg0.1", {"reg_W": 0.1}, 4 if q else 8), ("reg1", {"reg_W": 1.0}, 4 if q else 8), ("reg10", {"reg_W": 10.0}, 3 if q else 6)]
        if algo == "CPRegressor":  # tensor-valued responses: the output-mode factors have their own update branch
            out += [("tensor-y-reg1", {"reg_W": 1.0, "y_out": [2]}, 4 if q else 8), ("tensor-y-reg100", {"reg_W": 100.0, "y_out": [2]}, 4 if q else 8),
                    ("tensor-y2-reg10", {"reg_W": 10.0, "y_out": [2, 3]}, 5 if q else 12), ("tensor-y2-reg100", {"reg_W": 100.0, "y_out": [2, 3]}, 4 if q else 8)]
    elif algo == "hals_nnls":
        out += [("cold", {"warm": False}, 0), ("warm", {"warm": True}, 0), ("sparsity", {"warm": True, "sparsity_coefficient": 0.3}, 0),
                ("ridge", {"warm": True, "ridge_coefficient": 0.5}, 0),
                ("sparsity+ridge", {"warm": True, "sparsity_coefficient": 0.3, "ridge_coefficient": 0.5}, 0),
                ("sparsity+ridge-cold", {"warm": False, "sparsity_coefficient": 0.1, "ridge_coefficient": 2.0}, 0),
                ("nonzero_rows", {"warm": True, "nonzero_rows": True}, 0), ("nonzero_rows-cold-ridge", {"warm": False, "nonzero_rows": True, "ridge_coefficient": 0.5}, 0),
                ("exact", {"warm": True, "exact": True}, 0)]
    return out


ALGOS = ["parafac", "non_negative_parafac_hals", "tucker", "parafac2", "tensor_ring_als", "cmtf", "CPRegressor", "TuckerRegressor", "hals_nnls"]


def shapes_for(algo, tier):
    q = tier == "quick"
    if algo in ("parafac2", "cmtf"):
        return [(3, 4, 2), (2, 3, 3)] if q else [(3, 4, 2), (2, 3, 3), (4, 2, 3), (3, 3, 4)]
    if algo == "tensor_ring_als":
        return [(3, 4, 2), (2, 3, 2, 2)] if q else [(3, 4, 2), (3, 3, 3), (2, 3, 2, 2)]
    if algo in ("CPRegressor", "TuckerRegressor"):
        return [(6, 3, 2), (6, 2, 2, 2)] if q else [(6, 3, 2), (8, 3, 3), (6, 2, 2, 2), (8, 2, 3, 2)]
    if algo == "hals_nnls":
        return [(3, 2), (4, 3)] if q else [(3, 2), (4, 3), (5, 4), (4, 4)]
    if algo == "tucker":  # (9,4,4) with ranks (2,3,3): a 9 x 9 projected unfolding, larger than rank + oversampling of a randomised sketch
        return [(4, 3), (3, 4, 2), (2, 3, 2, 2), (9, 4, 4)] if q else [(4, 3), (3, 3), (3, 4, 2), (3, 3, 3), (2, 3, 2, 2), (2, 2, 2, 2), (9, 4, 4)]
    return [(4, 3), (3, 4, 2), (2, 3, 2, 2)] if q else [(4, 3), (3, 3), (3, 4, 2), (3, 3, 3), (2, 3, 2, 2), (2, 2, 2, 2)]


def ranks_for(algo, shape, tier):
    n = len(shape)
    if algo == "tensor_ring_als":
        return [[2] * (n + 1), [1] + [2] * (n - 1) + [1]]
    if algo == "tucker":
        if tuple(shape) == (9, 4, 4):
            return [[2, 3, 3], [1, 3, 3]]
        return [[1] * n, [2] * n, [min(2, s) if k % 2 else min(3, s) for k, s in enumerate(shape)]]
    if algo == "TuckerRegressor":
        return [[1] * (n - 1), [2] * (n - 1)]
    if algo == "hals_nnls":
        return [1, 2]
    return [1, 2, 3] if algo == "parafac" else [1, 2]


def families_for(algo):
    if algo == "parafac":
        return ["generic", "lowrank", "integer", "small-norm"]
    if algo == "non_negative_parafac_hals":
        return ["nonneg", "nonneg-lowrank", "generic"]
    if algo == "hals_nnls":
        return ["generic", "nonneg", "integer"]
    return ["generic", "lowrank", "integer"]


class C07(Check):
    pid = "C07"
    level = "model_checking"
    design_ref = "DESIGN.md §4 C07"
    rule = ("state = iterate s_k (k = 0..K) of a fixed (algorithm, option set, data family, shape, rank) configuration, obtained by prefix runs; "
            "transition = one sweep of the real algorithm (hals_nnls: one inner sweep observed through its callback); invariant "
            "f(s_{k+1}) <= f(s_k)(1+1e-9) + 1e-12*scale with f recomputed from scratch; non-trivial iff f(s_k) - f(s_{k+1}) > 1e-12*scale "
            "(the sweep really moved) and the transition is not guarded out")
    assumptions = ["guard: condition number of every block Gram matrix (harness recomputation from s_k and s_{k+1}) <= 1e8, else counted as guarded_out",
                   "objective: ||X - dense(s)||^2 (+ l2_reg sum ||F||^2; masked: on observed entries; regressors: ||y - <X,W>||^2 + reg*sum||factor||^2)",
                   "differential oracle: numpy normal-equation ALS sweep / HOOI sweep applied to s_k reproduces dense(s_{k+1}) to 1e-7 relative (skipped for ties in HOOI)"]

    def groups(self, tier, seed):
        return [{"algo": a, "variant": v[0], "family": f} for a in ALGOS for v in variants(a, tier) for f in families_for(a)]

    def cases(self, group, tier, seed):
        algo = group["algo"]
        var = [v for v in variants(algo, tier) if v[0] == group["variant"]][0]
        for shape in shapes_for(algo, tier):
            for rank in ranks_for(algo, shape, tier):
                yield {"algo": algo, "variant": var[0], "cfg": var[1], "K": var[2], "family": group["family"], "shape": list(shape), "rank": rank, "seed": seed}

    # ------------------------------------------------------------------------------
    def run_case(self, case, ctx):
        algo = case["algo"]
        if algo == "hals_nnls":
            return self.run_hals(case, ctx)
        if algo in ("CPRegressor", "TuckerRegressor"):
            return self.run_regressor(case, ctx)
        shape, rank, seed = tuple(case["shape"]), case["rank"], case["seed"]
        X = itm.data_tensor(case["family"], shape, rank if isinstance(rank, int) else 2, seed)
        cfg = {}
        for k, v in case["cfg"].items():
            cfg[k] = itm.mask_tensor(shape, seed) if v == "MASK" else v
        rs_token = cfg.get("random_state") if isinstance(cfg.get("random_state"), str) else None
        tag = f"{algo}/{case['variant']}"
        extra = {}
        if algo == "cmtf":
            cfg["matrix"] = itm.data_tensor(case["family"], (shape[0], 3), 2, seed + 50)
        slices = [X[i] for i in range(shape[0])] if algo == "parafac2" else None
        scale = float(np.linalg.norm(X) ** 2) + (float(np.linalg.norm(cfg["matrix"]) ** 2) if algo == "cmtf" else 0.0)

        def go(n_iter):
            c = {k: (list(v) if isinstance(v, list) else v) for k, v in cfg.items()}
            if rs_token:  # a fresh, identically seeded generator OBJECT for every prefix run
                c["random_state"] = np.random.RandomState(int(rs_token.split(":")[1]))
            np.random.seed(20260927)
            try:
                return itm.run(algo, X, rank, c, n_iter, None), None
            except Exception as e:
                return None, f"{type(e).__name__}:{str(e)[:50]}"

        def objective(r):
            if algo == "cmtf":
                M, N = r.dense
                return float(np.linalg.norm(X - M) ** 2 + np.linalg.norm(cfg["matrix"] - N) ** 2)
            if algo == "parafac2":
                return float(sum(np.linalg.norm(s - m) ** 2 for s, m in zip(slices, r.dense)))
            M = r.dense
            if cfg.get("mask") is not None:
                return float(np.linalg.norm(cfg["mask"] * (X - M)) ** 2)
            f = float(np.linalg.norm(X - M) ** 2)
            if cfg.get("l2_reg"):
                w, fs = r.decomp[0], r.decomp[1]
                f += cfg["l2_reg"] * sum(float(np.linalg.norm(np.asarray(x)) ** 2) for x in fs)
            return f

        def conditioned(r):
            try:
                if r.kind == "cp":
                    return cp_gram_conds(r.decomp[1], r.decomp[0]) <= COND_MAX
                if r.kind == "parafac2":
                    return cp_gram_conds(r.decomp[1], r.decomp[0]) <= COND_MAX
                if r.kind == "cmtf":
                    return cp_gram_conds(r.decomp[0][1], r.decomp[0][0]) <= COND_MAX
                if r.kind == "tr":
                    cs = [np.asarray(c) for c in r.decomp]
                    for k in range(len(cs)):
                        # subchain design matrix of core k
                        others = cs[k + 1:] + cs[:k]
                        Q = others[0]
                        for c in others[1:]:
                            Q = np.tensordot(Q, c, axes=(-1, 0))
                        Qm = np.moveaxis(Q, 0, -1).reshape(-1, Q.shape[0] * Q.shape[-1]) if Q.ndim > 2 else Q
                        s = np.linalg.svd(Qm.reshape(-1, cs[k].shape[0] * cs[k].shape[2]) if Qm.size % (cs[k].shape[0] * cs[k].shape[2]) == 0 else Qm, compute_uv=False)
                        if s[-1] <= 0 or s[0] / s[-1] > 1e4:  # cond of the Gram = cond^2
                            return False
                    return True
            except Exception:
                return False
            return True

        K = case["K"]
        chain = []
        for k in range(1 if algo == "cmtf" else 0, K + 1):  # cmtf cannot run zero sweeps
            r, exc = go(k)
            if r is None:
                ctx.count(f"guarded_out:raises:{exc}")
                ctx.outcome(f"{algo}:raised")
                return
            chain.append(r)
        ctx.states += len(chain)
        ctx.traces += len(chain)
        fvals = [objective(r) for r in chain]
        K = len(chain) - 1
        for k in range(K):
            ctx.transitions += 1
            a, b = fvals[k], fvals[k + 1]
            if not (np.isfinite(a) and np.isfinite(b)):
                ctx.count("guarded_out:non-finite-objective")
                continue
            if algo == "parafac" and cfg.get("init") == "svd" and k == 0 and len(shape) > 0 and cfg.get("mask") is None and False:
                pass
            well = conditioned(chain[k]) and conditioned(chain[k + 1])
            if not well:
                ctx.count("guarded_out:ill-conditioned")
                ctx.outcome(f"{algo}:guarded")
                continue
            if b <= a * (1 + 1e-9) + 1e-12 * scale:
                ctx.outcome(f"{algo}:{'descent' if a - b > 1e-12 * scale else 'stationary'}")
                if a - b > 1e-12 * scale:
                    ctx.nontriv([case, k])
            else:
                ctx.outcome(f"{algo}:INCREASE")
                ctx.violation(f"{tag}/objective-increased",
                              f"{case}: sweep {k}->{k+1}: objective {a!r} -> {b!r} (increase {b-a:.3e}, relative {((b-a)/max(a,1e-300)):.3e}); chain {fvals}")
                break
        # reported error sequence must be non-increasing too (consequence stated by the property)
        errs = chain[-1].errors
        # (not a consequence where the objective differs from the reported quantity: l2-regularised, masked/imputed runs)
        if errs and algo not in ("tensor_ring_als",) and not cfg.get("l2_reg") and cfg.get("mask") is None and all(conditioned(r) for r in chain):
            seq = errs
            for j in range(len(seq) - 1):
                if seq[j + 1] > seq[j] * (1 + 1e-9) + 1e-6:
                    ctx.violation(f"{tag}/reported-errors-increase", f"{case}: reported errors {seq} increase at index {j}")
                    break
        # ---------------- differential reference sweep (non-initial states)
        if algo == "parafac" and case["variant"] in ("plain-svd", "plain-random", "normalize-random", "normalize-svd", "l2reg", "fixed-mode0", "einsum-normalize", "einsum-plain-svd", "memory-mttkrp-normalize"):
            modes = None if "fixed" not in case["variant"] else [m for m in range(len(shape)) if m != 0]
            for k in range(K):
                if not (conditioned(chain[k]) and conditioned(chain[k + 1])):
                    continue
                if case["variant"] == "l2reg" and chain[k].decomp[0] is not None and not np.all(np.asarray(chain[k].decomp[0]) == 1):
                    continue
                try:
                    fs = ref_cp_sweep(X, chain[k].decomp[0], chain[k].decomp[1], modes, cfg.get("l2_reg", 0.0) or 0.0)
                except np.linalg.LinAlgError:
                    ctx.count("guarded_out:reference-sweep-singular")
                    continue
                Mref = itm.cp_dense(None, fs)
                d = np.linalg.norm(Mref - chain[k + 1].dense)
                ctx.count("reference_sweeps_compared")
                if d > 1e-7 * max(1.0, np.linalg.norm(Mref)) * max(1.0, cp_gram_conds(chain[k].decomp[1], chain[k].decomp[0]) * 1e-6):
                    ctx.violation(f"{tag}/sweep-differs-from-reference-ALS-sweep",
                                  f"{case}: reference ALS sweep from s_{k} gives a tensor at distance {d:.3e} from the library's s_{k+1} (norm {np.linalg.norm(Mref):.3e})")
                    break
        if algo == "tucker":
            ranks = [np.asarray(f).shape[1] for f in chain[0].decomp[1]]
            for k in range(K):
                core, fs, gap_ok = ref_hooi_sweep(X, chain[k].decomp[1], ranks)
                if not gap_ok:
                    ctx.count("guarded_out:hooi-singular-value-tie")
                    continue
                Mref = itm.tucker_dense(core, fs)
                d = np.linalg.norm(Mref - chain[k + 1].dense)
                ctx.count("reference_sweeps_compared")
                if d > 1e-7 * max(1.0, np.linalg.norm(X)):
                    ctx.violation(f"{tag}/sweep-differs-from-reference-HOOI-sweep",
                                  f"{case}: reference HOOI sweep from s_{k} differs from the library's s_{k+1} by {d:.3e}")
                    break
        if not ctx.samples:
            ctx.sample({"case": {k: v for k, v in case.items() if k != "cfg"}, "objective_chain": fvals})

    # ------------------------------------------------------------------------------
    def run_regressor(self, case, ctx):
        import tensorly as tl
        from tensorly.regression import CPRegressor, TuckerRegressor
        from vmc import values as V

        shape, rank, seed = tuple(case["shape"]), case["rank"], case["seed"]
        X = V.generic(shape, seed + 3) * 4
        Wtrue = V.ints(shape[1:], seed + 5, 2)
        y_out = tuple(case["cfg"].get("y_out", ()))
        if y_out:
            Wtrue = V.ints(shape[1:] + y_out, seed + 5, 2)
        y = np.tensordot(X, Wtrue, axes=len(shape) - 1) + 0.1 * V.generic((shape[0],) + y_out, seed + 9)
        reg = case["cfg"]["reg_W"]
        tag = f"{case['algo']}/{case['variant']}"
        chain = []
        for k in range(1, case["K"] + 1):
            np.random.seed(20260927)
            try:
                if case["algo"] == "CPRegressor":
                    est = CPRegressor(weight_rank=rank, tol=0, n_iter_max=k, reg_W=reg, verbose=0, random_state=seed)
                else:
                    est = TuckerRegressor(weight_ranks=list(rank), tol=0, n_iter_max=k, reg_W=reg, verbose=0, random_state=seed)
                est.fit(tl.tensor(X), tl.tensor(y))
            except Exception as e:
                ctx.count(f"guarded_out:raises:{type(e).__name__}")
                return
            if case["algo"] == "CPRegressor":
                w, fs = est.cp_weight_
                W = itm.cp_dense(w, fs)
                pen = sum(float(np.linalg.norm(np.asarray(f)) ** 2) for f in fs)
            else:
                G, fs = est.tucker_weight_
                W = itm.tucker_dense(G, fs)
                pen = sum(float(np.linalg.norm(np.asarray(f)) ** 2) for f in fs) + float(np.linalg.norm(np.asarray(G)) ** 2)
            res = (y - np.tensordot(X, W, axes=len(shape) - 1)).ravel()
            chain.append(float(res @ res) + reg * pen)
        ctx.states += len(chain)
        ctx.traces += len(chain)
        scale = float(y.ravel() @ y.ravel())
        for k in range(len(chain) - 1):
            ctx.transitions += 1
            a, b = chain[k], chain[k + 1]
            if b <= a * (1 + 1e-9) + 1e-12 * scale:
                ctx.outcome(f"{case['algo']}:{'descent' if a - b > 1e-12 * scale else 'stationary'}")
                if a - b > 1e-12 * scale:
                    ctx.nontriv([case, k])
            else:
                ctx.outcome(f"{case['algo']}:INCREASE")
                ctx.violation(f"{tag}/objective-increased", f"{case}: sweep {k+1}->{k+2}: ridge objective {a!r} -> {b!r}; chain {chain}")
                break

    # ------------------------------------------------------------------------------
    def run_hals(self, case, ctx):
        import tensorly as tl
        from tensorly.solvers.nnls import hals_nnls
        from vmc import values as V

        (m, n), r, seed = tuple(case["shape"]), case["rank"], case["seed"]
        fam = case["family"]
        U = V.generic((m, n), seed + 1) if fam == "generic" else (V.generic((m, n), seed + 1, signed=False) if fam == "nonneg" else V.ints((m, n), seed + 1, 2))
        M = V.generic((m, r), seed + 2) * 2
        UtU, UtM = U.T @ U, U.T @ M
        s = np.linalg.svd(UtU, compute_uv=False)
        if s[-1] <= 0 or s[0] / s[-1] > 1e6:
            ctx.count("guarded_out:ill-conditioned")
            return
        cfg = dict(case["cfg"])
        warm = cfg.pop("warm")
        sp = cfg.get("sparsity_coefficient") or 0.0
        rd = cfg.get("ridge_coefficient") or 0.0
        V0 = (np.abs(V.generic((n, r), seed + 4)) + 0.1) if warm else None
        seen = []

        def cb(Vk, err):
            seen.append(np.array(Vk, copy=True))

        try:
            hals_nnls(tl.tensor(UtM), tl.tensor(UtU), V=None if V0 is None else tl.tensor(V0.copy()), n_iter_max=30, tol=1e-12, callback=cb, **cfg)
        except Exception as e:
            ctx.count(f"guarded_out:raises:{type(e).__name__}")
            return

        def f(x):
            return float(0.5 * np.sum(x * (UtU @ x)) - np.sum(UtM * x) + sp * np.sum(np.abs(x)) + rd * np.sum(x * x))

        vals = [f(x) for x in seen]
        if not all(np.isfinite(vals)):
            ctx.count("guarded_out:non-finite-iterate")
            ctx.outcome("hals_nnls:non-finite")
            return
        ctx.states += len(vals)
        ctx.traces += 1
        scale = float(np.sum(M * M))
        for k in range(len(vals) - 1):
            ctx.transitions += 1
            a, b = vals[k], vals[k + 1]
            if b <= a + 1e-9 * abs(a) + 1e-12 * scale:
                ctx.outcome("hals_nnls:" + ("descent" if a - b > 1e-12 * scale else "stationary"))
                if a - b > 1e-12 * scale:
                    ctx.nontriv([case, k])
            else:
                ctx.outcome("hals_nnls:INCREASE")
                ctx.violation(f"hals_nnls/{case['variant']}/objective-increased", f"{case}: inner sweep {k}->{k+1}: {a!r} -> {b!r}; chain {vals}")
                break


CHECK = C07()
