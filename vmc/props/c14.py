"""C14 — warm starts begin at the supplied decomposition; fixed modes stay fixed.

Iteration machines started from USER initialisations: for every configuration the chains s_0..s_K are
produced by prefix runs (n_iter_max = k).  Monitors:
  * zero budget: dense(s_0) == dense(init)                                  (1e-12 relative)
  * bisimulation: the chain started from `init` (weights w) and the chain started from `init'` (same tensor,
    weights absorbed into one factor) have equal dense iterates for every k
  * factors of modes declared fixed are bit-identical to the supplied ones in every s_k; fixing every mode
    returns the initialisation (same tensor; same bits when the weights are trivial)
"""
import itertools

import numpy as np

from vmc import itm
from vmc.runner import Check

ALGOS = ["parafac", "non_negative_parafac", "non_negative_parafac_hals", "constrained_parafac", "tucker", "non_negative_tucker_hals", "parafac2"]
NN = {"non_negative_parafac", "non_negative_parafac_hals", "non_negative_tucker_hals", "constrained_parafac"}
WEIGHTS = ["none", "ones", "positive", "negative", "mixed", "partly-one", "partly-one-first"]


def subsets(n):
    """every subset of modes; subsets of size >= 2 also in descending (unsorted) order, as a caller may list them"""
    out = []
    for k in range(0, n + 1):
        for c in itertools.combinations(range(n), k):
            out.append(list(c))
            if k >= 2:
                out.append(list(reversed(c)))
    return out


def shapes_for(algo, tier):
    q = tier == "quick"
    if algo == "parafac2":
        return [(3, 4, 2)] if q else [(3, 4, 2), (2, 3, 3)]
    if algo in ("constrained_parafac",):
        return [(3, 4, 2)] if q else [(3, 4, 2), (2, 3, 2, 2)]
    return [(3, 4, 2), (2, 3, 2, 2)] if q else [(3, 4, 2), (3, 3, 3), (2, 3, 2, 2)]


class C14(Check):
    pid = "C14"
    level = "model_checking"
    design_ref = "DESIGN.md §4 C14"
    rule = ("state = iterate s_k (k=0..K) of a fixed (algorithm, data, shape, rank, initial weights class, container kind, set of fixed modes) "
            "configuration started from a user initialisation; a configuration is non-trivial iff the init has non-unit weights or a non-empty set of fixed modes")
    assumptions = ["bisimulation tolerance 1e-8*||X|| for exact-block algorithms (parafac, tucker, parafac2), 1e-5*||X|| for MU / HALS / ADMM inner solvers",
                   "fixing the last mode of parafac / non_negative_parafac / constrained_parafac / non_negative_tucker_hals is documented (warning) as unsupported and not demanded",
                   "bisimulation is not demanded of constrained_parafac: its ADMM inner solver is inexact and start-dependent for any finite inner budget",
                   "non-negative algorithms are given non-negative initialisations and non-negative weights",
                   "bisimulation guarded (counted) when a block Gram matrix of an iterate has condition number > 1e8 (solution of the block not unique)"]

    def groups(self, tier, seed):
        gs = []
        for a in ALGOS:
            for sh in shapes_for(a, tier):
                for fam in (["generic", "lowrank"] if a not in NN else ["nonneg", "nonneg-lowrank"]):
                    gs.append({"algo": a, "shape": list(sh), "family": fam})
        return gs

    def cases(self, group, tier, seed):
        algo, shape = group["algo"], tuple(group["shape"])
        n = len(shape)
        K = 2 if tier == "quick" else 4
        ranks = [1, 2] if tier == "quick" else [1, 2, 3]
        if algo in ("tucker", "non_negative_tucker_hals"):
            for rank in ([[1] * n, [2] * n] if tier == "quick" else [[1] * n, [2] * n, [min(3, s) for s in shape]]):
                for fixed in subsets(n):
                    for container in ("tuple", "object"):
                        yield {"algo": algo, "shape": list(shape), "family": group["family"], "rank": rank, "weights": "none", "fixed": fixed,
                               "container": container, "K": K, "seed": seed}
                for fixed in ([], [0], [1]):
                    yield {"algo": algo, "shape": list(shape), "family": group["family"], "rank": rank, "weights": "none", "fixed": fixed,
                           "container": "tuple", "K": K, "seed": seed, "tenalg": "einsum"}
                if algo == "tucker":
                    for fixed in ([], [0], [0, 1], [1, 0]):
                        yield {"algo": algo, "shape": list(shape), "family": group["family"], "rank": rank, "weights": "none", "fixed": fixed,
                               "container": "tuple", "K": K, "seed": seed, "api": "class"}
                    # masked data that the supplied decomposition fits exactly on the observed entries: the first sweep must impute the
                    # hidden entries from the SUPPLIED tensor, which makes it a fixed point, whatever the caller left in the hidden entries
                    if group["family"] == "generic" and all(r <= s_ for r, s_ in zip(rank, shape)):
                        for container in ("tuple", "object"):
                            for garbage in (0.0, 7.0, -1e3):
                                yield {"algo": algo, "shape": list(shape), "family": group["family"], "rank": rank, "weights": "none", "fixed": [],
                                       "container": container, "K": K, "seed": seed, "maskfix": garbage}
            return
        if algo == "parafac":
            # long runs with line search (it starts at sweep 7): fixed factors must stay bit-identical through accepted jumps too
            for rank in ranks:
                for w in ("none", "positive"):
                    for fixed in ([0], [1], [0, 1], [1, 0]):
                        yield {"algo": algo, "shape": list(shape), "family": group["family"], "rank": rank, "weights": w, "fixed": fixed,
                               "container": "tuple", "K": 9 if tier == "quick" else 12, "seed": seed, "opts": {"linesearch": True}}
        if algo == "constrained_parafac":
            # constraints whose proximal operator is NOT the identity on the supplied (feasible-for-nothing) initialisation: the warm start
            # must still begin at the supplied tensor, and fixed factors must come back bit-identical
            for rank in ranks:
                for cons in ({"l1_reg": 0.1}, {"l2_reg": 0.2}, {"normalize": True}, {"simplex": 1.0}, {"soft_sparsity": 0.5}):
                    for (w, fixed) in (("none", []), ("positive", []), ("none", [0]), ("positive", [0, 1])):
                        yield {"algo": algo, "shape": list(shape), "family": group["family"], "rank": rank, "weights": w, "fixed": fixed,
                               "container": "tuple", "K": K, "seed": seed, "cons": cons}
        if algo in ("parafac", "non_negative_parafac", "non_negative_parafac_hals", "constrained_parafac"):
            eq = [(i, j) for i in range(n) for j in range(i + 1, n) if shape[i] == shape[j]]
            for rank in ranks:
                for (i, j) in eq[:2]:
                    for (w, fixed) in (("none", []), ("positive", []), ("none", [i])):
                        yield {"algo": algo, "shape": list(shape), "family": group["family"], "rank": rank, "weights": w, "fixed": fixed,
                               "container": "tuple", "K": K, "seed": seed, "alias": [i, j]}
        if algo in ("parafac", "non_negative_parafac", "non_negative_parafac_hals"):
            for rank in ranks:
                for (w, fixed) in (("positive", []), ("partly-one", [0]), ("none", [0, 1]), ("none", [1, 0])):
                    yield {"algo": algo, "shape": list(shape), "family": group["family"], "rank": rank, "weights": w, "fixed": fixed,
                           "container": "tuple", "K": K, "seed": seed, "api": "class"}
        for rank in ranks:
            for (w, fixed) in (("positive", []), ("positive", [0]), ("none", [1])):
                if algo == "parafac2" and fixed:
                    continue
                yield {"algo": algo, "shape": list(shape), "family": group["family"], "rank": rank, "weights": w, "fixed": fixed,
                       "container": "tuple", "K": K, "seed": seed, "tenalg": "einsum"}
        for rank in ranks:
            wlist = [w for w in WEIGHTS if not (algo in NN and w in ("negative", "mixed"))]
            for w in wlist:
                for container in ("tuple", "list", "object"):
                    fixsets = subsets(n) if (w in ("none", "positive") and container == "tuple") else [[], [0]]
                    if algo == "parafac2":
                        fixsets = [[]]
                    for fixed in fixsets:
                        yield {"algo": algo, "shape": list(shape), "family": group["family"], "rank": rank, "weights": w, "fixed": fixed,
                               "container": container, "K": K, "seed": seed}

    # ------------------------------------------------------------------------------
    def _run_maskfix(self, case, ctx):
        import tensorly as tl
        import tensorly.decomposition as D
        from tensorly.tucker_tensor import TuckerTensor
        from vmc import values as V

        shape, rank, seed = tuple(case["shape"]), list(case["rank"]), case["seed"]
        facs = [np.ascontiguousarray(np.linalg.qr(V.generic((s, rank[k]), seed + 61 + k))[0]) for k, s in enumerate(shape)]
        core = V.generic(tuple(rank), seed + 71)
        target = itm.tucker_dense(core, facs)
        mask = itm.mask_tensor(shape, seed)
        if mask.all():
            ctx.count("guarded_out:maskfix-mask-hides-nothing")
            return
        X = target * mask + case["maskfix"] * (1 - mask)
        tol = 1e-8 * max(1.0, float(np.linalg.norm(target)))
        for k in range(0, case["K"] + 1):
            ctx.evaluations += 1
            c, fs = core.copy(), [f.copy() for f in facs]
            init = TuckerTensor((c, fs)) if case["container"] == "object" else (c, fs)
            label = (f"tucker(X, rank={rank}, init=<exact fit of the observed entries>, mask, n_iter_max={k}, tol=0); shape {shape}, hidden entries of X "
                     f"hold {case['maskfix']}, container {case['container']}")
            try:
                with np.errstate(all="ignore"):
                    r = D.tucker(tl.tensor(X.copy()), rank, n_iter_max=k, init=init, tol=0, mask=tl.tensor(mask.copy()))
                got = itm.tucker_dense(r[0], r[1])
            except Exception as e:
                ctx.violation("tucker/masked-warm-start/raises", f"{label}: {type(e).__name__}: {e}")
                return
            d = float(np.linalg.norm(got - target))
            ctx.nontriv([case, k])
            ctx.outcome("maskfix:" + ("fixed-point-kept" if d <= tol else "moved"))
            if not d <= tol:
                ctx.violation("tucker/masked-warm-start/" + ("zero-budget-result-differs" if k == 0 else "exact-initialisation-is-not-a-fixed-point"),
                              f"{label}: the result differs from the supplied tensor by {d:.3g} (the supplied decomposition fits every observed entry exactly, "
                              f"so iteration that starts from it - hidden entries imputed from it - stays there)")
                return

    def run_case(self, case, ctx):
        if case.get("maskfix") is not None:
            return self._run_maskfix(case, ctx)
        import tensorly as tl
        from tensorly import decomposition as D
        from tensorly.cp_tensor import CPTensor
        from tensorly.tucker_tensor import TuckerTensor
        from tensorly.parafac2_tensor import Parafac2Tensor

        algo, shape, rank, seed = case["algo"], tuple(case["shape"]), case["rank"], case["seed"]
        n = len(shape)
        fixed = list(case["fixed"])
        X = itm.data_tensor(case["family"], shape, 2, seed)
        nX = float(np.linalg.norm(X))
        nn = algo in NN
        exact = algo in ("parafac", "tucker", "parafac2")
        btol = (1e-8 if exact else 1e-5) * max(nX, 1.0)
        tag = algo
        # these algorithms document (and warn) that the last mode cannot be fixed; only parafac special-cases "every mode fixed"
        last_unsupported = algo in ("parafac", "non_negative_parafac", "constrained_parafac", "non_negative_tucker_hals")
        all_fixed = sorted(fixed) == list(range(n))
        eff_fixed, all_fixed_eff = list(fixed), all_fixed
        if last_unsupported and (n - 1) in fixed and not (all_fixed and algo == "parafac"):
            # documented (warning): the last mode is not fixed - every OTHER listed mode still is
            ctx.count("last-mode-listed-but-documented-as-not-fixable:other-listed-modes-still-demanded")
            eff_fixed, all_fixed_eff = [m for m in fixed if m != n - 1], False
            if case["weights"] not in ("none", "ones"):
                return  # (the weights are absorbed into the last factor; covered by the other weight classes)

        # ---------------- build the initialisation
        if algo in ("tucker", "non_negative_tucker_hals"):
            from vmc import values as V

            facs = []
            for k, s in enumerate(shape):
                f = V.generic((s, rank[k]), seed + 61 + k, signed=not nn) + (0.1 if nn else 0.0)
                if not nn:
                    f, _ = np.linalg.qr(f) if s >= rank[k] else (f, None)
                facs.append(np.ascontiguousarray(f))
            core = V.generic(tuple(np.asarray(f).shape[1] for f in facs), seed + 71, signed=not nn) + (0.1 if nn else 0.0)
            init_dense = itm.tucker_dense(core, facs)

            def make_init(variant=0):
                c, fs = core.copy(), [f.copy() for f in facs]
                return TuckerTensor((c, fs)) if case["container"] == "object" else (c, fs)
            supplied = facs
        else:
            w, facs = itm.cp_init(shape, rank, seed, case["weights"], nonneg=nn)
            if case.get("alias"):
                ai, aj = case["alias"]
                facs = list(facs)
                facs[aj] = facs[ai].copy()  # two modes with equal factors (a symmetric model); variant 3 passes them as ONE array object
            if algo == "parafac2":
                from vmc import values as V
                # orthonormal projections: signed column selections of the identity (exact)
                projs = []
                for i in range(shape[0]):
                    P = np.zeros((shape[1], rank))
                    for r in range(rank):
                        P[(r + i) % shape[1], r] = 1.0 if (i + r) % 2 == 0 else -1.0
                    projs.append(P)
                facs = [facs[0], V.generic((rank, rank), seed + 33) + np.eye(rank), facs[2]]
                sl = itm.parafac2_slices(w, facs, projs)
                init_dense = np.stack(sl)
            else:
                init_dense = itm.cp_dense(w, facs)

            def make_init(variant=0):
                """variant 0: as specified; 1: weights absorbed into factor 0; 2: into the last factor (same tensor)."""
                ww = None if w is None else w.copy()
                fs = [f.copy() for f in facs]
                if variant in (1, 2) and ww is not None:
                    j = 0 if variant == 1 else len(fs) - 1
                    if algo == "parafac2" and variant == 1:
                        j = 0
                    fs[j] = fs[j] * ww[None, :]
                    ww = None
                if variant == 3:
                    fs[case["alias"][1]] = fs[case["alias"][0]]  # the same array object for both modes
                if algo == "parafac2":
                    return (ww, fs, [p.copy() for p in projs])
                if case["container"] == "object":
                    return CPTensor((ww, fs))
                if case["container"] == "list":
                    return [ww, fs]
                return (ww, fs)
            supplied = facs

        # ---------------- runner
        def go(k, variant=0):
            if case.get("tenalg"):  # configuration axis: the second tensor-algebra implementation
                with tl.tenalg.backend_context(case["tenalg"], local_threadsafe=True):
                    return _go(k, variant)
            return _go(k, variant)

        def _go(k, variant=0):
            init = make_init(variant)
            np.random.seed(20260927)
            try:
                if case.get("api") == "class":  # the estimator classes are entry points of the same algorithms
                    if algo == "parafac":
                        return ("cp", D.CP(rank, n_iter_max=k, init=init, tol=0, fixed_modes=list(fixed) if fixed else None).fit_transform(tl.tensor(X))), init
                    if algo == "non_negative_parafac":
                        return ("cp", D.CP_NN(rank, n_iter_max=k, init=init, tol=itm.TINY, fixed_modes=list(fixed) if fixed else None).fit_transform(tl.tensor(X))), init
                    if algo == "non_negative_parafac_hals":
                        return ("cp", D.CP_NN_HALS(rank, n_iter_max=k, init=init, tol=itm.TINY, fixed_modes=list(fixed), exact=False).fit_transform(tl.tensor(X))), init
                    if algo == "tucker":
                        return ("tucker", D.Tucker(rank, n_iter_max=k, init=init, tol=0, fixed_factors=list(fixed) if fixed else None).fit_transform(tl.tensor(X))), init
                    raise ValueError(algo)
                if algo == "parafac":
                    r = D.parafac(tl.tensor(X), rank, n_iter_max=k, init=init, tol=0, fixed_modes=list(fixed) if fixed else None,
                                  return_errors=True, **case.get("opts", {}))
                    if isinstance(r, tuple) and len(r) == 2 and isinstance(r[1], list) and not hasattr(r, "weights"):
                        r = r[0]  # (cp, errors)
                    else:  # return_errors=True was asked for: a bare decomposition breaks every caller that unpacks the pair
                        ctx.violation("parafac/return_errors-pair-not-returned/" + ("all-modes-fixed" if all_fixed else "some-modes-free"),
                                      f"{case}: parafac(..., return_errors=True, fixed_modes={fixed}) returned {type(r).__name__} instead of (decomposition, errors)")
                    return ("cp", r), init
                if algo == "non_negative_parafac":
                    r = D.non_negative_parafac(tl.tensor(X), rank, n_iter_max=k, init=init, tol=itm.TINY, fixed_modes=list(fixed) if fixed else None)
                    return ("cp", r), init
                if algo == "non_negative_parafac_hals":
                    r = D.non_negative_parafac_hals(tl.tensor(X), rank, n_iter_max=k, init=init, tol=itm.TINY, fixed_modes=list(fixed), exact=False)
                    return ("cp", r), init
                if algo == "constrained_parafac":
                    r = D.constrained_parafac(tl.tensor(X), rank, n_iter_max=k, init=init, tol_outer=0, fixed_modes=list(fixed) if fixed else None,
                                              n_iter_max_inner=30, tol_inner=1e-14, **(case.get("cons") or {"non_negative": True}))
                    return ("cp", r), init
                if algo == "tucker":
                    r = D.tucker(tl.tensor(X), rank, n_iter_max=k, init=init, tol=0, fixed_factors=list(fixed) if fixed else None)
                    return ("tucker", r), init
                if algo == "non_negative_tucker_hals":
                    r = D.non_negative_tucker_hals(tl.tensor(X), rank, n_iter_max=k, init=init, tol=0, fixed_modes=list(fixed))
                    return ("tucker", r), init
                if algo == "parafac2":
                    r = D.parafac2(tl.tensor(X), rank, n_iter_max=k, init=init, tol=itm.TINY, linesearch=False)
                    return ("parafac2", r), init
            except Exception as e:
                return ("raised", f"{type(e).__name__}:{str(e)[:60]}"), init
            raise ValueError(algo)

        def dense_of(kind, r):
            if kind == "cp":
                return itm.cp_dense(r[0], r[1])
            if kind == "tucker":
                return itm.tucker_dense(r[0], r[1])
            return np.stack(itm.parafac2_slices(r[0], r[1], r[2]))

        K = case["K"]
        nontrivial = bool(fixed) or case["weights"] not in ("none", "ones")
        chains = {}
        # bisimulation only where a block update is scale-equivariant after finitely many steps (exact solves, multiplicative
        # and HALS updates); ADMM inner iterations of constrained_parafac only agree in the limit (measured: 3e4 inner steps)
        for variant in ((0, 3) if case.get("alias") else (0, 1, 2) if (case["weights"] not in ("none",) and algo not in ("tucker", "non_negative_tucker_hals", "constrained_parafac")) else (0,)):
            if variant and fixed and ((variant == 1 and 0 in fixed) or (variant == 2 and (n - 1) in fixed)):
                continue  # do not re-express a factor that is declared fixed
            ch = []
            for k in range(K + 1):
                (kind, r), init = go(k, variant)
                if kind == "raised":
                    if all_fixed and variant == 0:
                        ctx.violation(f"{tag}/all-modes-fixed-raises", f"{case}: n_iter_max={k}: every mode fixed must return the initialisation, but the call raised {r}")
                    else:
                        ctx.count(f"guarded_out:raises:{algo}:{r}")
                    ctx.outcome(f"{algo}:raised")
                    ch = None
                    break
                ch.append((kind, r, init))
            if ch is None:
                if variant == 0:
                    return
                continue
            chains[variant] = ch
        ctx.states += sum(len(c) for c in chains.values())
        ctx.traces += sum(len(c) for c in chains.values())
        ctx.transitions += sum(len(c) - 1 for c in chains.values())
        if nontrivial:
            ctx.nontriv()
        wclass = case["weights"]
        # ---- zero budget
        kind, r0, _ = chains[0][0]
        d0 = dense_of(kind, r0)
        scale = max(1.0, float(np.abs(init_dense).max()))
        if not np.all(np.isfinite(d0)) or np.abs(d0 - init_dense).max() > 1e-12 * scale * 10:
            ctx.violation(f"{tag}/zero-budget-result-differs-from-init/weights-{wclass}",
                          f"{case}: n_iter_max=0 returns a tensor at max distance {np.abs(d0 - init_dense).max() if np.all(np.isfinite(d0)) else 'nan'} from the supplied initialisation")
            ctx.outcome(f"{algo}:zero-budget:DIFF")
        else:
            ctx.outcome(f"{algo}:zero-budget:ok")
        # ---- bisimulation
        def well_posed(kind, r):
            # "same iterates" presupposes that each block problem has a unique solution
            from vmc.props.c07 import cp_gram_conds
            try:
                if kind in ("cp", "parafac2"):
                    return cp_gram_conds(r[1], r[0]) <= 1e8
            except Exception:
                return False
            return True

        if algo == "parafac2":
            # the projection step takes the polar factor of B diag(a_i) C^T X_i^T, which is unique only if that R x J matrix has rank R
            sv = [np.linalg.svd(X[i], compute_uv=False) for i in range(shape[0])]
            if any(len(v) < rank or v[rank - 1] < 1e-6 * v[0] for v in sv):
                ctx.count("guarded_out:bisimulation-parafac2-slice-rank-below-model-rank")
                chains = {0: chains[0]}
        for variant, ch in chains.items():
            if variant == 0:
                continue
            if not all(well_posed(c[0], c[1]) for c in chains[0]) or not all(well_posed(c[0], c[1]) for c in ch):
                ctx.count("guarded_out:bisimulation-ill-conditioned-block-problem")
                continue
            for k in range(K + 1):
                a = dense_of(chains[0][k][0], chains[0][k][1])
                b = dense_of(ch[k][0], ch[k][1])
                if not (np.all(np.isfinite(a)) and np.all(np.isfinite(b))) or np.linalg.norm(a - b) > btol:
                    if variant == 3:
                        ctx.violation(f"{tag}/iterates-differ-when-two-modes-share-one-factor-array/step-{'0' if k == 0 else 'k'}",
                                      f"{case}: iterate {k} differs by {np.linalg.norm(a - b)} between init factors given as two equal arrays and as one array object used for both modes")
                        break
                    where = "factor0" if variant == 1 else "last-factor"
                    ctx.violation(f"{tag}/iterates-differ-when-weights-absorbed/weights-{wclass}/step-{'0' if k == 0 else 'k'}",
                                  f"{case}: iterate {k} from init (weights {wclass}) and from the same tensor with weights absorbed into the {where} differ by "
                                  f"{np.linalg.norm(a - b) if np.all(np.isfinite(a)) and np.all(np.isfinite(b)) else 'nan'} (tol {btol:.1e})")
                    ctx.outcome(f"{algo}:bisim:DIFF")
                    break
            else:
                ctx.outcome(f"{algo}:bisim:ok")
        # ---- the same initialisation OBJECT used for two consecutive warm starts: the second run must start where the first did
        if not fixed and case["weights"] != "none" or (not fixed and case["container"] == "object"):
            shared = make_init(0)
            outs = []
            for _ in range(2):
                np.random.seed(20260927)
                try:
                    if algo == "parafac":
                        r = D.parafac(tl.tensor(X), rank, n_iter_max=1, init=shared, tol=0)
                    elif algo == "non_negative_parafac":
                        r = D.non_negative_parafac(tl.tensor(X), rank, n_iter_max=1, init=shared, tol=itm.TINY)
                    elif algo == "non_negative_parafac_hals":
                        r = D.non_negative_parafac_hals(tl.tensor(X), rank, n_iter_max=1, init=shared, tol=itm.TINY)
                    elif algo == "constrained_parafac":
                        r = D.constrained_parafac(tl.tensor(X), rank, n_iter_max=1, init=shared, tol_outer=0, non_negative=True, n_iter_max_inner=5)
                    elif algo == "parafac2":
                        r = D.parafac2(tl.tensor(X), rank, n_iter_max=1, init=shared, tol=itm.TINY, linesearch=False)
                    elif algo == "tucker":
                        r = D.tucker(tl.tensor(X), rank, n_iter_max=1, init=shared, tol=0)
                    else:
                        r = D.non_negative_tucker_hals(tl.tensor(X), rank, n_iter_max=1, init=shared, tol=0)
                    outs.append(dense_of("cp" if algo in ("parafac", "non_negative_parafac", "non_negative_parafac_hals", "constrained_parafac") else
                                         ("parafac2" if algo == "parafac2" else "tucker"), r))
                except Exception as e:
                    ctx.count(f"guarded_out:raises:{algo}:{type(e).__name__}")
                    outs = []
                    break
            ctx.states += len(outs)
            if len(outs) == 2 and (outs[0].shape != outs[1].shape or np.abs(outs[0] - outs[1]).max() > 1e-12 * scale * 10):
                ctx.violation(f"{tag}/second-warm-start-from-the-same-init-object-differs/weights-{wclass}",
                              f"{case}: two consecutive one-sweep runs given the very same init object differ by {np.abs(outs[0] - outs[1]).max() if outs[0].shape == outs[1].shape else 'shape'}")
        # ---- fixed modes
        if eff_fixed:
            for k, (kind, r, init) in enumerate(chains[0]):
                facs_out = r[1]
                if all_fixed_eff:
                    d = dense_of(kind, r)
                    if np.abs(d - init_dense).max() > 1e-12 * scale * 10:
                        ctx.violation(f"{tag}/all-modes-fixed-result-differs-from-init", f"{case}: n_iter_max={k}: all modes fixed but the tensor changed")
                        break
                    if wclass in ("none", "ones"):
                        for m in range(n):
                            if np.asarray(facs_out[m]).tobytes() != np.asarray(supplied[m]).tobytes():
                                ctx.violation(f"{tag}/all-modes-fixed-factor-not-bit-identical", f"{case}: n_iter_max={k}: factor {m} changed although every mode is fixed")
                                break
                    continue
                for m in eff_fixed:
                    if m == 1 and algo == "parafac2":
                        continue
                    a, b = np.asarray(facs_out[m]), np.asarray(supplied[m])
                    if a.shape != b.shape or a.tobytes() != b.tobytes():
                        ctx.violation(f"{tag}/fixed-mode-factor-changed/{'last-mode' if m == n - 1 else 'inner-mode'}/weights-{wclass}",
                                      f"{case}: n_iter_max={k}: factor of fixed mode {m} differs from the supplied one (max diff "
                                      f"{np.abs(a - b).max() if a.shape == b.shape else 'shape'})")
                        ctx.outcome(f"{algo}:fixed:CHANGED")
                        break
                else:
                    continue
                break
            else:
                ctx.outcome(f"{algo}:fixed:ok")
        if not ctx.samples:
            ctx.sample({"case": case, "chains": {v: len(c) for v, c in chains.items()}})


CHECK = C14()
