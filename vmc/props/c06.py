"""C06 — reported reconstruction errors are finite and equal the true error of the iterate they belong to.

Iteration machines (vmc/itm.py): for every configuration of the lattice, the chain s_1 … s_K of the
real algorithm is produced by prefix runs (n_iter_max = k, "tolerance off"), plus one run with a loose
tolerance so that the convergence exit is taken.  Monitors, on every state:
  * every reported value is finite;
  * the LAST reported value equals the error of the returned decomposition, recomputed from scratch
    with an independent dense reconstruction;
  * the error list of the K-run restricted to the first len(k-run) entries is bit-identical to the
    k-run's list (so every entry of the long list is tied to the iterate it was validated against);
  * every (decomposition, error) pair handed to a callback is consistent.
"""
import itertools

import numpy as np

from vmc import itm
from vmc.runner import Check

ATOL_SHORTCUT = 1e-6   # ||X||²+||M||²-2<X,M> shortcut: relative error accurate to sqrt(eps)-ish near exact fits
ATOL_EXPLICIT = 1e-9   # residual formed explicitly


def variants(algo, tier):
    """(label, cfg, K, explicit_residual?) for each option set of an algorithm."""
    q = tier == "quick"
    out = []
    if algo == "parafac":
        for init in ("svd", "random"):
            out.append((f"plain-{init}", {"init": init}, 4 if q else 8, False))
            out.append((f"normalize-{init}", {"init": init, "normalize_factors": True}, 4 if q else 8, False))
        out.append(("linesearch", {"init": "random", "linesearch": True}, 9 if q else 13, False))
        out.append(("linesearch-normalize", {"init": "svd", "linesearch": True, "normalize_factors": True}, 9 if q else 13, False))
        out.append(("sparsity-float", {"init": "svd", "sparsity": 0.25}, 3 if q else 6, True))
        out.append(("sparsity-int", {"init": "random", "sparsity": 2}, 3 if q else 6, True))
        out.append(("mask", {"init": "random", "mask": "MASK"}, 3 if q else 6, True))
        out.append(("mask-svd", {"init": "svd", "mask": "MASK"}, 3 if q else 6, True))
        # accepted line-search jumps re-impute the missing entries: the norm the error is relative to changes with them
        out.append(("mask-linesearch", {"init": "random", "mask": "MASK", "linesearch": True}, 9 if q else 13, True))
        out.append(("mask-linesearch-svd", {"init": "svd", "mask": "MASK", "linesearch": True}, 9 if q else 13, True))
        out.append(("l2reg", {"init": "svd", "l2_reg": 0.1}, 3 if q else 6, False))
        out.append(("orthogonalise", {"init": "svd", "orthogonalise": 2}, 3 if q else 6, False))
        out.append(("fixed-mode0", {"init": "random", "fixed_modes": [0]}, 3 if q else 6, False))
        out.append(("fixed-last-and-0-unsorted", {"init": "random", "fixed_modes": "LAST,0"}, 3 if q else 6, False))
        out.append(("fixed-0-and-last", {"init": "svd", "fixed_modes": "0,LAST"}, 2 if q else 5, False))
        out.append(("fixed-mode0-normalize", {"init": "random", "fixed_modes": [0], "normalize_factors": True}, 3 if q else 6, False))
        out.append(("rec_error-criterion", {"init": "svd", "cvg_criterion": "rec_error"}, 3 if q else 6, False))
        out.append(("callback-stops-run", {"init": "random", "_cb_stop": 3}, 5 if q else 7, False))
        out.append(("callback-stops-run-normalize", {"init": "svd", "normalize_factors": True, "_cb_stop": 2}, 4 if q else 6, False))
        out.append(("mask-sparsity", {"init": "random", "mask": "MASK", "sparsity": 0.25}, 3 if q else 5, True))
        out.append(("mask-sparsity-int", {"init": "svd", "mask": "MASK", "sparsity": 3}, 3 if q else 5, True))
        out.append(("fixed-negative-index", {"init": "random", "fixed_modes": [-1]}, 3 if q else 5, False))
        out.append(("fixed-negative-index-2", {"init": "svd", "fixed_modes": [-2]}, 3 if q else 5, False))
        # second tensor-algebra implementation (tl.tenalg backend 'einsum'): a configuration like any other
        out.append(("einsum-normalize", {"init": "random", "normalize_factors": True, "tenalg": "einsum"}, 3 if q else 6, False))
        out.append(("einsum-mask", {"init": "svd", "mask": "MASK", "tenalg": "einsum"}, 3 if q else 5, True))
        out.append(("verbose-linesearch", {"init": "random", "linesearch": True, "verbose": 2}, 9 if q else 11, False))
        out.append(("class-normalize", {"init": "svd", "normalize_factors": True, "api": "class"}, 3 if q else 5, False))
    elif algo == "non_negative_parafac":
        for init in ("svd", "random"):
            out.append((f"plain-{init}", {"init": init}, 3 if q else 6, False))
        out.append(("normalize", {"init": "random", "normalize_factors": True}, 3 if q else 6, False))
        out.append(("mask", {"init": "random", "mask": "MASK"}, 3 if q else 5, True))
    elif algo == "non_negative_parafac_hals":
        out.append(("plain-svd", {"init": "svd"}, 3 if q else 5, False))
        out.append(("plain-random", {"init": "random"}, 3 if q else 5, False))
        out.append(("normalize", {"init": "random", "normalize_factors": True}, 2 if q else 5, False))
        out.append(("einsum-normalize", {"init": "random", "normalize_factors": True, "tenalg": "einsum"}, 2 if q else 4, False))
        out.append(("verbose-class", {"init": "random", "verbose": True, "api": "class"}, 2 if q else 4, False))
        out.append(("sparsity", {"init": "svd", "sparsity_coefficients": "PERMODE:0.1"}, 2 if q else 5, False))
        out.append(("fixed-last", {"init": "random", "fixed_modes": "LAST"}, 2 if q else 4, False))
        out.append(("fixed-last-normalize", {"init": "random", "fixed_modes": "LAST", "normalize_factors": True}, 2 if q else 4, False))
        out.append(("fixed-0-last-normalize", {"init": "svd", "fixed_modes": "0,LAST", "normalize_factors": True}, 2 if q else 4, False))
        out.append(("fixed-0-sparsity", {"init": "random", "fixed_modes": [0], "sparsity_coefficients": "PERMODE:0.1"}, 2 if q else 4, False))
        if not q:
            out.append(("exact", {"init": "svd", "exact": True}, 3, False))
            out.append(("nn-mode0-only", {"init": "random", "nn_modes": [0]}, 4, False))
    elif algo == "constrained_parafac":
        out.append(("non_negative", {"init": "svd", "non_negative": True}, 3 if q else 5, False))
        out.append(("l1", {"init": "random", "l1_reg": 0.05}, 2 if q else 5, False))
        out.append(("unimodal-mode0", {"init": "svd", "unimodality": {0: True}}, 2 if q else 4, False))
        out.append(("fixed-last", {"init": "svd", "non_negative": True, "fixed_modes": "LAST"}, 2 if q else 4, False))  # documented: the last mode is not fixed (warning)
        out.append(("fixed-0-last", {"init": "random", "l2_reg": 0.1, "fixed_modes": "0,LAST"}, 2 if q else 4, False))
        if not q:
            out.append(("simplex", {"init": "random", "simplex": 1.0}, 4, False))
            out.append(("l2sq", {"init": "svd", "l2_square_reg": 0.1}, 4, False))
    elif algo == "tucker":
        out.append(("svd", {"init": "svd"}, 4 if q else 8, False))
        out.append(("random", {"init": "random"}, 4 if q else 8, False))
        out.append(("einsum-random", {"init": "random", "tenalg": "einsum"}, 3 if q else 5, False))
        out.append(("verbose", {"init": "svd", "verbose": True}, 3 if q else 5, False))
        # (HOOI reports sqrt(|norm^2 - ||core||^2|) also when masked: the shortcut class, sqrt(eps)-accurate on exact fits)
        out.append(("mask", {"init": "random", "mask": "MASK"}, 3 if q else 5, False))
    elif algo == "non_negative_tucker":
        out.append(("svd", {"init": "svd"}, 3 if q else 6, True))
        out.append(("random-normalize", {"init": "random", "normalize_factors": True}, 3 if q else 6, True))
    elif algo == "non_negative_tucker_hals":
        out.append(("fista", {"init": "svd", "algorithm": "fista"}, 2 if q else 4, True))
        out.append(("active_set", {"init": "random", "algorithm": "active_set"}, 2 if q else 4, True))
        out.append(("fista-sparsity", {"init": "svd", "algorithm": "fista", "sparsity_coefficients": "PERMODE:0.1", "core_sparsity_coefficient": 0.1}, 2 if q else 4, True))
        if not q:
            out.append(("fista-normalize", {"init": "random", "algorithm": "fista", "normalize_factors": True}, 3, True))
    elif algo == "parafac2":
        out.append(("random", {"init": "random", "linesearch": False}, 3 if q else 6, False))
        out.append(("svd", {"init": "svd", "linesearch": False}, 3 if q else 6, False))
        out.append(("normalize", {"init": "random", "linesearch": False, "normalize_factors": True}, 3 if q else 5, False))
        out.append(("nn-mode0", {"init": "random", "linesearch": False, "nn_modes": [0]}, 2 if q else 4, False))
        out.append(("linesearch", {"init": "random", "linesearch": True}, 9 if q else 13, False))
        out.append(("uneven-slices", {"init": "random", "linesearch": False, "slices": "UNEVEN"}, 3 if q else 5, False))
        out.append(("einsum-normalize", {"init": "random", "linesearch": False, "normalize_factors": True, "tenalg": "einsum"}, 3 if q else 4, False))
        out.append(("verbose-linesearch", {"init": "random", "linesearch": True, "verbose": True}, 9 if q else 11, False))
    elif algo == "tensor_ring_als":
        out.append(("lstsq", {"ls_solve": "lstsq"}, 3 if q else 6, True))
        out.append(("normal_eq", {"ls_solve": "normal_eq"}, 3 if q else 6, True))
    elif algo == "randomised_parafac":
        out.append(("random", {"init": "random", "n_samples": 12}, 3 if q else 6, True))
        out.append(("svd", {"init": "svd", "n_samples": 12}, 3 if q else 6, True))
        out.append(("callback-only", {"init": "random", "n_samples": 12, "with_callback": True}, 3 if q else 6, True))
    elif algo == "cmtf":
        out.append(("svd", {"init": "svd"}, 3 if q else 6, True))
        out.append(("random-normalize", {"init": "random", "normalize_factors": True}, 3 if q else 6, True))
    return out


ALGOS = ["parafac", "non_negative_parafac", "non_negative_parafac_hals", "constrained_parafac", "tucker", "non_negative_tucker",
         "non_negative_tucker_hals", "parafac2", "tensor_ring_als", "randomised_parafac", "cmtf"]

NONNEG_ALGOS = {"non_negative_parafac", "non_negative_parafac_hals", "non_negative_tucker", "non_negative_tucker_hals"}


def shapes_for(algo, tier):
    q = tier == "quick"
    if algo in ("parafac2", "cmtf"):
        return [(3, 4, 2), (2, 3, 3)] if q else [(3, 4, 2), (2, 3, 3), (4, 2, 3), (2, 2, 2)]
    if algo == "tensor_ring_als":
        return [(3, 4, 2), (2, 3, 2, 2), (4, 2, 3)] if q else [(3, 4, 2), (3, 3, 3), (2, 3, 2, 2), (4, 3), (4, 2, 3)]
    if q:
        return [(4, 3), (3, 4, 2), (2, 3, 2, 2), (3, 1, 2)]
    return [(4, 3), (2, 2), (3, 4, 2), (3, 3, 3), (2, 3, 2, 2), (2, 2, 2, 2), (3, 1, 2), (1, 4, 3)]


def families_for(algo, tier):
    if algo == "parafac":
        return ["generic", "lowrank", "integer", "small-norm"] if tier == "quick" else ["generic", "lowrank", "integer", "nonneg", "small-norm"]
    if algo in NONNEG_ALGOS:
        return ["nonneg", "nonneg-lowrank", "generic"] if tier == "quick" else ["nonneg", "nonneg-lowrank", "generic", "sparse-nonneg", "integer"]
    return ["generic", "lowrank", "integer"] if tier == "quick" else ["generic", "lowrank", "integer", "nonneg"]


def ranks_for(algo, shape, tier):
    if algo == "tensor_ring_als":
        n = len(shape)
        # the last one is a bottleneck bond next to a bond wider than its mode: the last core's design matrix is rank deficient
        return [[2] * (n + 1), [1] + [2] * (n - 1) + [1], [2, 1] + [2] * (n - 2) + [2], [2, 1] + [3] * (n - 2) + [2]]
    if algo in ("tucker", "non_negative_tucker", "non_negative_tucker_hals"):
        n = len(shape)
        rs = [[1] * n, [2] * n, [min(2, s) if k % 2 else min(3, s) for k, s in enumerate(shape)]]
        return rs
    return [1, 2, 3]


def materialise(cfg, shape, rank, seed):
    """Replace symbolic placeholders of a variant by concrete deterministic objects."""
    out = {}
    for k, v in cfg.items():
        if v == "MASK":
            v = itm.mask_tensor(shape, seed)
        elif isinstance(v, str) and v.startswith("PERMODE:"):
            v = [float(v.split(":")[1])] * len(shape)
        elif v == "LAST":
            v = [len(shape) - 1]
        elif isinstance(v, str) and ("LAST" in v.split(",")):
            v = [len(shape) - 1 if t == "LAST" else int(t) for t in v.split(",")]
        elif v == "UNEVEN":
            continue
        elif isinstance(v, list):
            v = list(v)
        elif isinstance(v, dict):
            v = {int(a): b for a, b in v.items()}
        out[k] = v
    return out


def true_error(algo, X, res, cfg, prevM=None):
    """Relative reconstruction error of the returned decomposition, recomputed from scratch."""
    if algo == "cmtf":
        M, N = res.dense
        Y = res.extra["matrix"]
        return float(np.linalg.norm(X - M) ** 2 + np.linalg.norm(Y - N) ** 2)
    if res.kind == "parafac2":
        slices = cfg["_slices"]
        num = sum(np.linalg.norm(s - m) ** 2 for s, m in zip(slices, res.dense))
        den = sum(np.linalg.norm(s) ** 2 for s in slices)
        return float(np.sqrt(num / den))
    M = res.dense
    if cfg.get("mask") is not None:
        mask = cfg["mask"]
        # CP imputes the missing entries with the current iterate, HOOI with the iterate the sweep started from
        fill = prevM if (algo == "tucker" and prevM is not None) else M
        imputed = X * mask + fill * (1 - mask)
        S = np.asarray(res.extra["sparse"]) if (cfg.get("sparsity") and res.extra.get("sparse") is not None) else 0.0
        return float(np.linalg.norm(imputed - M - S) / np.linalg.norm(imputed))
    if cfg.get("sparsity"):
        S = np.asarray(res.extra["sparse"])
        return float(np.linalg.norm(X - M - S) / np.linalg.norm(X))
    return itm.relerr(X, M)


def tr_slack(X, cores):
    """Forward rounding bound of ANY evaluation of the ring contraction: eps * prod ||G_k||_F / ||X|| (times a small constant).
    Rank-deficient core updates (lstsq keeps a singular value just above its cutoff) produce cores of size 1e11 whose product
    cancels to an O(1) tensor; two correct evaluations of that product then differ by this much, so equality is only demanded up to it."""
    p = 1.0
    for c in cores:
        p *= float(np.linalg.norm(np.asarray(c)))
    return 16 * np.finfo(float).eps * p / float(np.linalg.norm(X))


class C06(Check):
    pid = "C06"
    level = "model_checking"
    design_ref = "DESIGN.md §4 C06"
    rule = ("state = iterate s_k of a fixed (algorithm, option set, data family, shape, rank) configuration, k = 1..K (prefix runs) plus the "
            "state reached by the convergence exit; transition = one sweep of the real algorithm; a state is non-trivial iff its "
            "recomputed error is > 1e-12 (not an exact fit) and the run did not raise")
    assumptions = ["algorithms are deterministic given data, init and seed (checked: K-run error list restricted to the k-run's length is bit-identical)",
                   "independent dense reconstruction by numpy.einsum (vmc/itm.py); tolerance 1e-6 absolute on the relative error where the "
                   "library uses the ||X||^2+||M||^2-2<X,M> shortcut, 1e-9 where it forms the residual",
                   "CMTF: its squared un-normalised two-term value, accepted with or without the documented factor 1/2"]

    def groups(self, tier, seed):
        gs = []
        for algo in ALGOS:
            for (label, cfg, K, explicit) in variants(algo, tier):
                for fam in families_for(algo, tier):
                    gs.append({"algo": algo, "variant": label, "family": fam})
        return gs

    def cases(self, group, tier, seed):
        algo = group["algo"]
        var = [v for v in variants(algo, tier) if v[0] == group["variant"]][0]
        for shape in shapes_for(algo, tier):
            if var[1].get("slices") == "UNEVEN" and len(shape) != 3:
                continue
            for rank in ranks_for(algo, shape, tier):
                yield {"algo": algo, "variant": var[0], "cfg": var[1], "K": var[2], "explicit": var[3], "family": group["family"],
                       "shape": list(shape), "rank": rank, "seed": seed}

    # ------------------------------------------------------------------------------
    def run_case(self, case, ctx):
        algo, shape, rank, seed = case["algo"], tuple(case["shape"]), case["rank"], case["seed"]
        X = itm.data_tensor(case["family"], shape, rank if isinstance(rank, int) else 2, seed)
        cfg = materialise(case["cfg"], shape, rank, seed)
        atol = ATOL_EXPLICIT if case["explicit"] else ATOL_SHORTCUT
        tag = f"{algo}/{case['variant']}"
        extra_cfg = {}
        if algo == "parafac2":
            if case["cfg"].get("slices") == "UNEVEN":
                heights = [shape[1] + (i % 2) for i in range(shape[0])]
                slices = [itm.data_tensor(case["family"], (h, shape[2]), rank, seed + 40 + i) for i, h in enumerate(heights)]
                cfg["slices"] = slices
            else:
                slices = [X[i] for i in range(shape[0])]
            extra_cfg["_slices"] = slices
        if algo == "cmtf":
            cfg["matrix"] = itm.data_tensor(case["family"], (shape[0], 3), rank, seed + 50)
        callbacks = []
        if algo == "parafac":
            def cb(cp, err, _store=callbacks):
                if isinstance(cp, tuple) and len(cp) == 2 and not hasattr(cp, "weights") and isinstance(cp[1], np.ndarray) and cp[1].shape == shape:
                    cp, sp = cp
                else:
                    sp = None
                _store.append((None if cp[0] is None else np.array(cp[0], copy=True), [np.array(f, copy=True) for f in cp[1]],
                               None if sp is None else np.array(sp, copy=True), float(np.real(err))))
                if stop_at is not None and len(_store) >= stop_at:
                    return True  # the documented way for a callback to end the run
            stop_at = cfg.pop("_cb_stop", None)
            cfg["callback"] = cb

        def go(n_iter, tol=None):
            callbacks.clear()
            c = {k: (list(v) if isinstance(v, list) and k in ("fixed_modes", "sparsity_coefficients", "nn_modes") else v) for k, v in cfg.items()}
            np.random.seed(20260927)  # own the global RNG: some entry points draw from it whatever random_state says
            try:
                return itm.run(algo, X, rank, c, n_iter, tol), None
            except Exception as e:  # implementation-only failures (singular systems, unsupported rank): guarded out, counted
                return None, f"{type(e).__name__}:{str(e)[:60]}"

        K = case["K"]
        full, exc = go(K)
        if full is None:
            ctx.count(f"guarded_out:raises:{exc}")
            ctx.outcome(f"{algo}:raised")
            return
        judge_cfg = dict(cfg, **extra_cfg)
        runs = [(K, "cap", full, list(callbacks))]
        for k in range(1, K):
            r, exc = go(k)
            if r is None:
                ctx.count(f"guarded_out:raises:{exc}")
                continue
            runs.append((k, "cap", r, list(callbacks)))
        for tol in (1e-2, 1e-4):
            r, exc = go(40, tol)
            if r is not None:
                runs.append((40, f"tol{tol}", r, list(callbacks)))
        for (k, how, r, cbs) in runs:
            ctx.states += 1
            ctx.traces += 1
            ctx.transitions += (len(r.errors) if r.errors else 0)
            errs = r.errors
            if errs is None or len(errs) == 0:
                ctx.outcome(f"{algo}:no-errors-reported")
                continue
            if not all(np.isfinite(errs)):
                bad = [i for i, e in enumerate(errs) if not np.isfinite(e)]
                ctx.violation(f"{tag}/non-finite-error/{case['family']}",
                              f"{case}: run n_iter_max={k} ({how}) reported errors {errs} (non-finite at {bad})")
                continue
            prevM = None
            if algo == "tucker" and cfg.get("mask") is not None:
                saved = list(callbacks)
                rp, _ = go(len(errs) - 1)
                callbacks[:] = saved
                if rp is None:
                    ctx.count("guarded_out:previous-iterate-unavailable")
                    continue
                prevM = rp.dense
            te = true_error(algo, X, r, judge_cfg, prevM)
            slack = 0.0
            if algo.startswith("tensor_ring"):
                slack = tr_slack(X, list(r.decomp))
                if slack > atol:
                    ctx.count("tr-iterate-with-huge-cancelling-cores:tolerance-widened-to-rounding-bound")
            ok = abs(errs[-1] - te) <= atol * max(1.0, te) + slack  # (relative to the value once it exceeds 1: diverged runs report 1e7)
            if algo == "cmtf" and not ok:
                ok = abs(errs[-1] - 0.5 * te) <= atol * max(1.0, te)
            stopped_early = how != "cap" and len(errs) < 40
            path = "convergence-exit" if stopped_early else "cap-exit"
            ctx.outcome(f"{algo}:{path}:{'ok' if ok else 'MISMATCH'}")
            if te > 1e-12:
                ctx.nontriv([case, k, how])
            if not ok:
                ctx.violation(f"{tag}/last-error-not-error-of-returned-decomposition/{path}",
                              f"{case}: n_iter_max={k} ({how}): reported errors {errs}; last={errs[-1]!r} but recomputed error of the returned decomposition={te!r} (|diff|={abs(errs[-1]-te):.3e} > {atol})")
            if how == "cap" and k < K and full.errors is not None:
                n = len(errs)
                if full.errors[:n] != errs:
                    ctx.count("prefix-run-error-lists-differ")
                    ctx.outcome(f"{algo}:prefix-mismatch")
            if how == "cap" and len(errs) != k + (1 if algo.startswith("tensor_ring") else 0):
                ctx.outcome(f"{algo}:{case['variant']}:error-list-length-differs-from-sweeps")
            # callback pairs
            if algo == "parafac":
                for j, (w, fs, sp, e) in enumerate(cbs):
                    M = itm.cp_dense(w, fs)
                    rr = itm.Result("cp", None, None, M, {"sparse": sp})
                    te_cb = true_error(algo, X, rr, judge_cfg)
                    if not np.isfinite(e) or abs(e - te_cb) > atol * max(1.0, te_cb):
                        ctx.violation(f"{tag}/callback-error-not-error-of-callback-decomposition",
                                      f"{case}: n_iter_max={k} ({how}): callback call #{j} got error {e!r}, recomputed {te_cb!r}")
                        break
            if algo == "randomised_parafac" and r.extra.get("callback_iterates"):
                for j, (e, w_, fs_) in enumerate(r.extra["callback_iterates"]):
                    te_cb = itm.relerr(X, itm.cp_dense(w_, fs_))
                    if not np.isfinite(e) or abs(e - te_cb) > atol * max(1.0, te_cb):
                        ctx.violation(f"{tag}/callback-error-not-error-of-callback-decomposition",
                                      f"{case}: callback call #{j} (after the initial one) got error {e!r}, recomputed {te_cb!r}")
                        break
            if algo.startswith("tensor_ring"):
                for j, (e, cores) in enumerate(r.extra["callback_iterates"]):
                    te_cb = itm.relerr(X, itm.tr_dense(cores))
                    atol_tr = atol + tr_slack(X, cores)
                    if not np.isfinite(e) or abs(e - te_cb) > atol_tr * max(1.0, te_cb):
                        ctx.violation(f"{tag}/callback-error-not-error-of-callback-decomposition",
                                      f"{case}: callback call #{j} got error {e!r}, recomputed {te_cb!r}")
                        break
        ctx.sample({"case": {k: v for k, v in case.items() if k != "cfg"}, "errors_K": full.errors})


CHECK = C06()
