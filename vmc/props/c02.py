"""C02 -- multilinear products equal their textbook index formulas under both tenalg backends.

Lattice (complete, see DESIGN.md section 4 / C02): for every routine of the statement, every operand order / shape
over small dims (incl. size-1 modes, single-operand lists, order-2 tensors) x every mode x every option combination
x {real, complex}; every point is executed under the 'core' AND the 'einsum' tensor-algebra backend, selected
through ``tensorly.tenalg.set_backend`` and called through the dispatching ``tensorly.tenalg.<fn>`` attribute.  The
implementation that really executed is identified by wrappers around the methods of the two backend classes that
are installed inside the harness process only.

Oracle: pure-python index formulas (vmc/ref/core.py, vmc/ref/c02_ref.py) on small integers / Gaussian integers; all
partial sums are far below 2**53, so float64 / complex128 results are exact whatever the summation order and are
compared with ``==`` (exact shape, exact values); where both backends return a value the two must be equal.

Deliberately not demanded: behaviour on arguments the docstrings exclude (n_modes=0, empty operand lists after
skipping, a single 1-D "vector" operand of khatri_rao, mask shapes only one backend accepts, conjugation of
*weights*: weights are real whenever a routine conjugates); whether mode_dot(vector, transpose=True) conjugates the
vector (docstring speaks of matrices only: either is accepted, but both backends must agree); result dtype.
"""
import itertools

import numpy as np

from vmc import values as V
from vmc.ref import c02_ref as R2
from vmc.ref import core as R
from vmc.runner import Check

FUNS = ["mode_dot", "multi_mode_dot", "kronecker", "khatri_rao", "inner", "outer", "batched_outer",
        "higher_order_moment", "unfolding_dot_khatri_rao", "tensordot"]
BACKENDS = ("core", "einsum")
TRACE = []  # (backend class name, method) of every backend-class method entered since the last clear


# ------------------------------------------------------------------------------------------ instrumentation
def install_wrappers():
    """Wrap the registered methods of the two tenalg backend classes (in this process only) so that the oracle can
    see which implementation a dispatched call really entered.  Idempotent."""
    import importlib

    import tensorly.tenalg  # noqa: F401  (loads the default backend)
    from tensorly.tenalg.base_tenalg import TenalgBackend

    for b in BACKENDS:
        if b not in TenalgBackend._available_tenalg_backends:
            importlib.import_module(f"tensorly.tenalg.{b}_tenalg")
    changed = False
    for b in BACKENDS:
        cls = TenalgBackend._available_tenalg_backends[b]
        for name in FUNS:
            raw = cls.__dict__.get(name)
            func = raw.__func__ if isinstance(raw, staticmethod) else raw
            if func is None or getattr(func, "_c02_wrapped", False):
                continue

            def wrapper(*a, _f=func, _tag=(b, name), **k):
                TRACE.append(_tag)
                return _f(*a, **k)

            wrapper._c02_wrapped = True
            wrapper.__name__ = getattr(func, "__name__", name)
            wrapper.__doc__ = getattr(func, "__doc__", None)
            setattr(cls, name, staticmethod(wrapper))
            changed = True
    if changed:
        # public API for "backend methods were (re-)registered": rebuilds the tenalg.<fn> dispatchers, so that the
        # wrappers are seen even by an implementation that would bind functions when the dispatchers are created
        tensorly.tenalg.use_dynamic_dispatch()


# ------------------------------------------------------------------------------------------ values
def val(shape, slot, cplx, seed, nonzero=False):
    """Deterministic small-integer (or Gaussian-integer) array; `slot` separates the operands of one call."""
    shape = tuple(int(s) for s in shape)
    off = seed * 31 + slot * 7 + sum(shape) + len(shape)
    # the memory layout of every operand rotates with (shape, slot, seed): C / Fortran / negative strides / strided view
    lay = off + len(shape) + (shape[0] if shape else 0)
    if cplx:
        return V.relayout(V.ints(shape, off, 2, nonzero) + 1j * V.ints(shape, off + 17, 2), lay)
    return V.relayout(V.ints(shape, off, 3, nonzero), lay)


def weights_for(rank, seed, cplx=False):
    tab = [2.0, -3.0, 5.0, -2.0, 3.0]
    w = np.array([tab[(r + seed) % len(tab)] for r in range(rank)])
    if cplx:
        w = w + 1j * np.array([tab[(r + seed + 2) % len(tab)] for r in range(rank)])
    return w


def mask_for(shape, seed):
    n = int(np.prod(shape))
    return np.array([float((i + seed) % 2) for i in range(n)]).reshape(shape)


def rt(a):
    return R.RT.from_np(a)


def ref_np(t):
    return t.to_np()


def shapes(orders, dims):
    for n in orders:
        yield from itertools.product(dims, repeat=n)


def ordered_subsets(n, kmin=1):
    for k in range(kmin, n + 1):
        yield from itertools.permutations(range(n), k)


def viol(ctx, sig, detail):
    """ctx.violation with a lazily formatted detail (only the stored examples are formatted)."""
    v = ctx.violations.get(sig)
    if v is not None and len(v["examples"]) >= ctx.MAX_STORED_PER_SIG:
        v["count"] += 1
        return
    ctx.violation(sig, detail())


def brief(a):
    a = np.asarray(a)
    s = np.array2string(a, separator=",", threshold=60).replace("\n", "")
    return f"{a.shape}:{s}"


# ------------------------------------------------------------------------------------------ one oracle step
class Runner:
    """Executes the library calls of one case and applies the oracle."""

    def __init__(self, ctx, case):
        self.ctx = ctx
        self.case = case
        self.calls = 0

    def call(self, fn, impl, thunk, refs, klass, desc, label=None):
        """impl 'core'/'einsum': select the backend, call tenalg.<fn>; other impl: thunk(None) calls the function itself.
        refs: list of acceptable reference arrays.  Returns (result or None, ok)."""
        import tensorly.tenalg as tenalg

        ctx = self.ctx
        site = label or f"tenalg.{impl}.{fn}"
        self.calls += 1
        ctx.count("calls")
        ctx.count(f"calls:{fn}:{impl}")
        del TRACE[:]
        try:
            if impl in BACKENDS:
                tenalg.set_backend(impl)
                res = thunk(getattr(tenalg, fn))
            else:
                res = thunk(None)
        except Exception as e:  # the statement says the call returns the textbook tensor: an exception is a breach
            viol(ctx, f"{site}/raises-{type(e).__name__}/{klass}",
                 lambda: f"{desc()}: {type(e).__name__}: {str(e)[:300]}")
            ctx.outcome(f"{fn}:raised")
            return None, False
        if impl in BACKENDS:
            if not TRACE or TRACE[0] != (impl, fn):
                viol(ctx, f"tenalg.dispatch/{fn}/selected-{impl}" + ("" if TRACE else ",unidentified-implementation"),
                     lambda: f"{desc()}: after tenalg.set_backend({impl!r}) tenalg.{fn} entered {TRACE[:1]}")
        try:
            arr = np.asarray(res)
        except Exception as e:
            viol(ctx, f"{site}/result-not-array/{klass}",
                 lambda: f"{desc()}: {type(e).__name__}: {e}")
            return None, False
        if arr.dtype.kind not in "biufc":
            viol(ctx, f"{site}/result-not-array/{klass}",
                 lambda: f"{desc()}: dtype {arr.dtype}")
            return None, False
        exp = refs[0]
        if tuple(arr.shape) != tuple(exp.shape):
            viol(ctx, f"{site}/shape/{klass}",
                 lambda: f"{desc()}: got shape {arr.shape}, expected {exp.shape}; got {brief(arr)} expected {brief(exp)}")
            ctx.outcome(f"{fn}:wrong")
            return arr, False
        if not any(np.array_equal(arr, e) for e in refs):
            viol(ctx, f"{site}/value/{klass}",
                 lambda: f"{desc()}: got {brief(arr)} expected {brief(exp)}")
            ctx.outcome(f"{fn}:wrong")
            return arr, False
        ctx.outcome(f"{fn}:equal")
        return arr, True

    def both(self, fn, thunk, refs, klass, desc):
        out = {}
        for impl in BACKENDS:
            out[impl] = self.call(fn, impl, thunk, refs, klass, (lambda impl=impl: f"[{impl}] {desc()}"))
        (a, oka), (b, okb) = out["core"], out["einsum"]
        if oka and okb and not (a.shape == b.shape and np.array_equal(a, b)):
            # only reachable where the oracle accepts several choices
            viol(self.ctx, f"tenalg.{fn}/core-vs-einsum/{klass}",
                 lambda: f"{desc()}: core {brief(a)} einsum {brief(b)}")
        return out


# ------------------------------------------------------------------------------------------ families: enumeration
def outer_items(fam, tier):
    """Coarse items of a family (cheap to list); `inner_cases` expands one item completely."""
    T = tier == "thorough"
    d3, d2, d4 = (1, 2, 3), (1, 2), (1, 2, 3, 4)
    if fam == "mode_dot":
        shp = list(shapes((1, 2, 3, 4), d3)) + [s for s in shapes((1, 2, 3), d4) if 4 in s] + list(shapes((5,), d2))
        if T:
            shp += [s for s in shapes((4,), d4) if 4 in s] + [s for s in shapes((5,), d3) if 3 in s]
        return [[list(s), m] for s in shp for m in range(len(s))]
    if fam == "multi_mode_dot":
        shp = list(shapes((1, 2, 3), d3)) + list(shapes((4,), d2))
        if T:
            shp += [s for s in shapes((2, 3), d4) if 4 in s] + [s for s in shapes((4,), d3) if 3 in s] + list(shapes((5,), d2))
        out = []
        for s in shp:
            out.append([list(s), None])
            out += [[list(s), list(ms)] for ms in ordered_subsets(len(s))]
        # explicit mode lists that name a mode more than once: the operands sharing a mode apply in list order
        # (T x_m A x_m B = T x_m (B A)); matrices only, nothing skipped
        for s in shp:
            if len(s) <= 3:
                for L in (2, 3):
                    out += [[list(s), list(ms)] for ms in itertools.product(range(len(s)), repeat=L) if len(set(ms)) < L]
        return out
    if fam == "kronecker":
        ms = [(1, 1), (1, 2), (2, 1), (2, 2), (2, 3), (3, 2)]
        small = [(1, 2), (2, 1), (2, 2)]
        out = []
        for k in (1, 2, 3, 4):
            out += [[list(map(list, l))] for l in itertools.product(ms, repeat=k)]
        if T:
            out += [[list(map(list, l))] for l in itertools.product(small, repeat=5)]
        return out
    if fam == "khatri_rao":
        out = []
        for k in (1, 2, 3, 4):
            for rows in itertools.product(d3, repeat=k):
                for rank in (1, 2, 3):
                    out.append([list(rows), rank])
        for k in (2, 3, 4):  # 1-D "vector" operands (a single vector is outside the documented domain)
            for rows in itertools.product(d3, repeat=k):
                out.append([list(rows), 0])
        if T:
            for k in (1, 2, 3):
                for rows in itertools.product(d4, repeat=k):
                    for rank in (1, 2, 3, 4):
                        if 4 in rows or rank == 4:
                            out.append([list(rows), rank])
            for rows in itertools.product(d2, repeat=5):
                for rank in (1, 2):
                    out.append([list(rows), rank])
        return out
    if fam == "inner":
        out = []
        for s in shapes((1, 2, 3), d3):
            out.append([list(s), None, list(s)])
            for k in range(1, len(s) + 1):
                common = s[len(s) - k:]
                for nf in range(0, 4 - k):
                    for f in itertools.product(d3, repeat=nf):
                        out.append([list(s), k, list(common + f)])
        for s in shapes((4,), d2):
            out.append([list(s), None, list(s)])
            for k in range(1, 5):
                for nf in range(0, 5 - k):
                    for f in itertools.product(d2, repeat=nf):
                        out.append([list(s), k, list(s[4 - k:] + f)])
        return out
    if fam == "outer":
        s3 = list(shapes((1, 2, 3), d3))
        s3t = list(shapes((1, 2), d3)) + list(shapes((3,), d2))
        out = [[[list(a)]] for a in s3]
        out += [[[list(a), list(b)]] for a in s3 for b in s3]
        out += [[[list(a), list(b), list(c)]] for a in s3t for b in s3t for c in s3t]
        if T:
            s4 = list(shapes((1, 2), d2))
            out += [[[list(a), list(b), list(c), list(e)]] for a in s4 for b in s4 for c in s4 for e in s4]
        return out
    if fam == "batched_outer":
        tr3 = [()] + list(shapes((1, 2), d3))
        tr2 = [()] + list(shapes((1, 2), d2))
        out = []
        for nb in (1, 2, 3):
            out += [[nb, [list(a)]] for a in tr3]
            out += [[nb, [list(a), list(b)]] for a in tr3 for b in tr3]
            out += [[nb, [list(a), list(b), list(c)]] for a in tr3 for b in tr3 for c in tr3]
            if T:
                out += [[nb, [list(a), list(b), list(c), list(e)]] for a in tr2 for b in tr2 for c in tr2 for e in tr2]
        return out
    if fam == "tensordot":
        out = []
        top = (1, 2, 3, 4) if T else (1, 2, 3)
        for n1 in top:
            for n2 in top:
                for k in range(0, min(n1, n2) + 1):
                    for m1 in itertools.permutations(range(n1), k):
                        for m2 in itertools.permutations(range(n2), k):
                            for c in range(0, k + 1):  # first c pairs are contracted, the rest batched
                                out.append([n1, n2, list(m1), list(m2), c])
        return out
    if fam == "histories":
        # two consecutive calls that share their list-typed ARGUMENT OBJECTS (modes / batched_modes / matrix lists), as a caller
        # who builds a specification once and reuses it does; the second call must still equal its definition
        out = []
        specs = [[[-1], [0]], [[-1], [-1]], [[0], [-1]], [[-2], [0]], [[-1, -2], [0, 1]], [[-2, -1], [1, 0]], [[1], [0]], [[0, -1], [-1, 0]]]
        for spec in specs:
            for batched in (False, True):
                for (n1, n2, n1b, n2b) in [(2, 2, 3, 2), (3, 2, 2, 3), (2, 3, 3, 3), (3, 3, 2, 2), (2, 2, 2, 2)]:
                    if max(len(spec[0]), 1) + (1 if batched else 0) > min(n1, n2, n1b, n2b) and batched:
                        continue
                    out.append(["tensordot", spec, batched, n1, n2, n1b, n2b])
        for k in (2, 3):
            for skip1 in [None] + list(range(k)):
                for skip2 in [None] + list(range(k)):
                    for second in ("khatri_rao", "kronecker"):
                        out.append(["matrix-list", k, skip1, skip2, second])
        for n in (2, 3):
            for modes in itertools.permutations(range(n)):
                for skip in [None] + list(range(n)):
                    out.append(["multi_mode_dot", n, list(modes), skip])
        for n in (2, 3):
            for m1 in range(n):
                for m2 in range(n):
                    for w in (False, True):
                        out.append(["mttkrp", n, m1, m2, w])
        return out
    if fam == "mttkrp":
        shp = list(shapes((2, 3), d4)) + list(shapes((4,), d3))
        if T:
            shp += list(shapes((5,), d2))
        return [[list(s), m] for s in shp for m in range(len(s))]
    if fam == "sample_kr":
        out = []
        for k in (1, 2, 3) + ((4,) if T else ()):
            for rows in itertools.product(d3 if k < 4 else d2, repeat=k):
                for rank in (1, 2):
                    for skip in [None] + list(range(k)):
                        if k == 1 and skip is not None:
                            continue
                        out.append([list(rows), rank, skip])
        return out
    if fam == "moment":
        out = []
        for nb in (1, 2, 3, 4):
            for f in shapes((1, 2), d3):
                out.append([nb] + list(f))
        return out
    raise ValueError(fam)


def inner_cases(fam, item, tier, seed):
    T = tier == "thorough"
    base = {"fam": fam, "seed": seed}
    if fam == "mode_dot":
        shape, mode = item
        for kind in ("vec", 1, 2, 3) + ((4,) if T else ()):
            for tr in (False, True):
                for cplx in (False, True):
                    yield dict(base, shape=shape, mode=mode, kind=kind, tr=tr, cplx=cplx)
    elif fam == "multi_mode_dot":
        shape, modes = item
        k = len(shape) if modes is None else len(modes)
        repeated = modes is not None and len(set(modes)) < len(modes)
        for kinds in ([tuple("m" * k)] if repeated else itertools.product("mv", repeat=k)):
            for skip in ([None] if repeated else [None] + list(range(k))):
                for tr in (False, True):
                    for cplx in (False, True):
                        yield dict(base, shape=shape, modes=modes, kinds="".join(kinds), skip=skip, tr=tr, cplx=cplx)
    elif fam == "kronecker":
        (mats,) = item
        k = len(mats)
        for skip in [None] + list(range(k)):
            if k == 1 and skip is not None:
                yield dict(base, guard="kronecker-nothing-remains-after-skip")  # outside the documented domain
                continue
            for rev in (False, True):
                for cplx in (False, True):
                    yield dict(base, mats=mats, skip=skip, rev=rev, cplx=cplx)
    elif fam == "khatri_rao":
        rows, rank = item
        k = len(rows)
        for skip in [None] + list(range(k)):
            rem = k - (skip is not None)
            if rem == 0 or (rank == 0 and rem < 2):  # outside the documented domain (empty list / one 1-D operand)
                yield dict(base, guard="khatri_rao-nothing-remains-after-skip" if rem == 0 else "khatri_rao-single-1D-operand")
                continue
            for w in (False, True):
                for m in (False, True):
                    for cplx in (False, True):
                        yield dict(base, rows=rows, rank=rank, skip=skip, w=w, m=m, cplx=cplx)
                    if m:  # a weighting mask (entries other than 0/1): multiplied in, once
                        yield dict(base, rows=rows, rank=rank, skip=skip, w=w, m=m, cplx=False, wmask=True)
                    if w:  # operands of different kinds: complex weights on real matrices (the weights must not be cast to the factors' dtype)
                        yield dict(base, rows=rows, rank=rank, skip=skip, w=w, m=m, cplx=False, wcplx=True)
    elif fam == "inner":
        s1, k, s2 = item
        for cplx in (False, True):
            yield dict(base, s1=s1, k=k, s2=s2, cplx=cplx, bad=None)
        # one ill-shaped variant per common mode (no textbook value exists; recorded, never a violation)
        nc = len(s1) if k is None else k
        for j in range(nc):
            yield dict(base, s1=s1, k=k, s2=s2, cplx=False, bad=j)
    elif fam == "outer":
        (ops,) = item
        for cplx in (False, True):
            yield dict(base, ops=ops, cplx=cplx)
    elif fam == "batched_outer":
        nb, ops = item
        for cplx in (False, True):
            yield dict(base, nb=nb, ops=ops, cplx=cplx, bad=False)
        if len(ops) >= 2:
            yield dict(base, nb=nb, ops=ops, cplx=False, bad=True)
    elif fam == "tensordot":
        n1, n2, m1, m2, c = item
        d = (1, 2) if max(n1, n2) >= 4 else (1, 2, 3)
        k = len(m1)
        free2 = [j for j in range(n2) if j not in m2]
        forms = ["lists"]
        cm1, cm2, bm1, bm2 = m1[:c], m2[:c], m1[c:], m2[c:]
        if c == 1 or k - c == 1:
            forms.append("ints")
        if cm1 == list(range(n1 - c, n1)) and cm2 == list(range(c)) and (k - c == 0 or (k - c == 1 and bm1 == bm2)):
            forms.append("int")
        if c == 0 or k == c:
            forms.append("empty-tuple")
        for sh1 in itertools.product(d, repeat=n1):
            for f2 in itertools.product(d, repeat=len(free2)):
                sh2 = [None] * n2
                for a, b in zip(m1, m2):
                    sh2[b] = sh1[a]
                for j, v in zip(free2, f2):
                    sh2[j] = v
                for form in forms:
                    for cplx in (False, True):
                        yield dict(base, sh1=list(sh1), sh2=sh2, cm1=cm1, cm2=cm2, bm1=bm1, bm2=bm2, form=form, cplx=cplx)
    elif fam == "histories":
        for cplx in (False, True):
            yield dict(base, item=item, cplx=cplx)
    elif fam == "mttkrp":
        shape, mode = item
        for rank in (1, 2, 3) + ((4,) if T else ()):
            for w in (False, True):
                for cplx in (False, True):
                    yield dict(base, shape=shape, mode=mode, rank=rank, w=w, cplx=cplx)
                yield dict(base, shape=shape, mode=mode, rank=rank, w=w, cplx=False, fcplx=True)  # real data, complex factors
    elif fam == "sample_kr":
        rows, rank, skip = item
        cap = 20000 if T else 1000  # bound on the number of explicit indices_lists per case (all of them are visited)
        for ns in (1, 2, 3):
            rem = [r for i, r in enumerate(rows) if i != skip]
            if ns > 1 and int(np.prod(rem)) ** ns > cap:
                yield dict(base, guard="sample_khatri_rao-indices-lists-beyond-tier-bound")
                continue
            for cplx in (False, True):
                yield dict(base, rows=rows, rank=rank, skip=skip, ns=ns, cplx=cplx)
    elif fam == "moment":
        for order in (1, 2, 3):
            for cplx in (False, True):
                yield dict(base, shape=item, order=order, cplx=cplx)
    else:
        raise ValueError(fam)


# family -> number of groups (cost-balanced by measurement), quick / thorough
PARTS = {
    "mode_dot": (2, 3),
    "multi_mode_dot": (32, 192),
    "kronecker": (4, 2),
    "khatri_rao": (2, 1),
    "inner": (1, 1),
    "outer": (3, 1),
    "batched_outer": (4, 2),
    "tensordot": (16, 13),
    "mttkrp": (2, 1),
    "sample_kr": (3, 6),
    "moment": (1, 1),
    "histories": (2, 2),
}
FAMS = list(PARTS)


# ------------------------------------------------------------------------------------------ families: execution
def run_mode_dot(case, rn):
    shape, mode, kind, tr, cplx, seed = tuple(case["shape"]), case["mode"], case["kind"], case["tr"], case["cplx"], case["seed"]
    I = shape[mode]
    t = val(shape, 0, cplx, seed)
    if kind == "vec":
        m = val((I,), 1, cplx, seed)
        refs = [ref_np(R.mode_dot(rt(t), rt(m), mode))]
        if tr and cplx:  # the docstring only speaks of transposing the *matrix*: accept v and conj(v)
            refs.append(ref_np(R.mode_dot(rt(t), rt(np.conj(m)), mode)))
        klass = "vector" + ("+transpose" if tr else "")
    else:
        J = int(kind)
        m = val((I, J) if tr else (J, I), 1, cplx, seed)
        refs = [ref_np(R.mode_dot(rt(t), rt(m), mode, transpose=tr))]
        klass = "matrix" + ("+transpose" + ("+complex" if cplx else "") if tr else "")
    if len(shape) == 1:
        klass += ",order1"
    desc = lambda: f"mode_dot(T{brief(t)}, M{brief(m)}, mode={mode}, transpose={tr})"
    rn.both("mode_dot", lambda f: f(t, m, mode, transpose=tr), refs, klass, desc)
    return t.size + m.size > 2


def run_multi_mode_dot(case, rn):
    shape, modes, kinds, skip, tr, cplx, seed = (tuple(case["shape"]), case["modes"], case["kinds"], case["skip"], case["tr"],
                                                  case["cplx"], case["seed"])
    n = len(shape)
    eff = list(range(n)) if modes is None else list(modes)
    t = val(shape, 0, cplx, seed)
    ops = []
    cur = list(shape)  # current size of every mode (a mode named twice is contracted with the size the first operand left)
    for li, (mode, kd) in enumerate(zip(eff, kinds)):
        I = cur[mode]
        if kd == "v":
            ops.append(val((I,), 1 + li, cplx, seed))
        else:
            J = (I + mode) % 3 + 1
            ops.append(val((I, J) if tr else (J, I), 1 + li, cplx, seed))
            if li != skip:
                cur[mode] = J
    ref = ref_np(R2.multi_mode_dot(rt(t), [rt(o) for o in ops], eff, skip=skip, transpose=tr))
    applied_vec = any(kd == "v" for li, kd in enumerate(kinds) if li != skip)
    unsorted = eff != sorted(eff)
    order = sorted(range(len(eff)), key=lambda i: eff[i])
    if skip is not None and order[skip] != skip:
        klass = "skip+unsorted-modes"
    elif tr and cplx and applied_vec:
        klass = "transpose+complex-vector"
    elif applied_vec:  # one class per plausible defect, first match wins (keeps one bug = few signatures)
        klass = "vector-operand"
    elif skip is not None:
        klass = "skip"
    elif unsorted:
        klass = "unsorted-modes"
    elif tr:
        klass = "transpose"
    else:
        klass = "plain"
    desc = lambda: (f"multi_mode_dot(T{brief(t)}, [{'; '.join(brief(o) for o in ops)}], modes={modes}, skip={skip}, transpose={tr})")
    rn.both("multi_mode_dot", lambda f: f(t, list(ops), modes=None if modes is None else list(modes), skip=skip, transpose=tr),
            [ref], klass, desc)
    return t.size + sum(o.size for o in ops) > 1 + len(ops)


def run_kronecker(case, rn):
    mats, skip, rev, cplx, seed = case["mats"], case["skip"], case["rev"], case["cplx"], case["seed"]
    ms = [val(s, i, cplx, seed, nonzero=True) for i, s in enumerate(mats)]
    rem = [m for i, m in enumerate(ms) if i != skip]
    seq = rem[::-1] if rev else rem
    ref = ref_np(R.kron([rt(m) for m in seq]))
    klass = "single-matrix" if len(rem) == 1 else ("reverse" if rev else ("skip" if skip is not None else "plain"))
    desc = lambda: f"kronecker([{'; '.join(brief(m) for m in ms)}], skip_matrix={skip}, reverse={rev})"
    rn.both("kronecker", lambda f: f(list(ms), skip_matrix=skip, reverse=rev), [ref], klass, desc)
    return sum(m.size for m in rem) > len(rem)


def run_khatri_rao(case, rn):
    rows, rank, skip, w, m, cplx, seed = case["rows"], case["rank"], case["skip"], case["w"], case["m"], case["cplx"], case["seed"]
    vectors = rank == 0
    Rk = 1 if vectors else rank
    ms = [val((r,) if vectors else (r, Rk), i, cplx, seed, nonzero=True) for i, r in enumerate(rows)]
    rem_rows = [r for i, r in enumerate(rows) if i != skip]
    rem = [mm for i, mm in enumerate(ms) if i != skip]
    weights = weights_for(Rk, seed, cplx or case.get("wcplx", False)) if w else None
    mask = mask_for(tuple(rem_rows), seed) if m else None
    if m and case.get("wmask"):
        mask = (mask * 2.0 - 0.5) * np.array([1.0 + (i % 3) for i in range(mask.size)]).reshape(mask.shape)  # values in {-0.5,-1,-1.5,1.5,3,4.5}: exact in binary
    rmats = [rt(mm.reshape(-1, 1)) if vectors else rt(mm) for mm in rem]
    kr = R.khatri_rao(rmats, weights=None if weights is None else [x.item() for x in weights])
    if mask is not None:
        flat = [x.item() for x in mask.reshape(-1)]
        kr = R.build(kr.shape, lambda idx: kr[idx] * flat[idx[0]])
    ref = ref_np(kr)
    klass = "single-matrix" if len(rem) == 1 else "multi"
    if vectors:
        klass += ",vectors"
    if w:
        klass += ",weights" + ("(complex-on-real-matrices)" if case.get("wcplx") else "")
    if m:
        klass += ",mask" + ("(weighting)" if case.get("wmask") else "")
    if skip is not None and klass == "multi":
        klass += ",skip"
    desc = lambda: (f"khatri_rao([{'; '.join(brief(x) for x in ms)}], weights={None if weights is None else weights.tolist()}, "
            f"skip_matrix={skip}, mask={None if mask is None else brief(mask)})")
    rn.both("khatri_rao", lambda f: f(list(ms), weights=weights, skip_matrix=skip, mask=mask), [ref], klass, desc)
    if skip is not None and not m and not cplx:
        # the same request with the index as a NumPy integer (what np.argmax / np.arange / an index array hands over)
        rn.both("khatri_rao", lambda f: f(list(ms), weights=weights, skip_matrix=np.int64(skip), mask=mask), [ref], klass + ",numpy-int-index",
                lambda: desc() + " [skip_matrix as np.int64]")
    return sum(x.size for x in rem) > len(rem) or w or m


def run_inner(case, rn):
    s1, k, s2, cplx, bad, seed = tuple(case["s1"]), case["k"], list(case["s2"]), case["cplx"], case["bad"], case["seed"]
    ctx = rn.ctx
    if bad is not None:  # ill-shaped: common mode number `bad` of tensor2 is one larger
        s2 = list(s2)
        s2[bad] += 1
        a, b = val(s1, 0, cplx, seed), val(s2, 1, cplx, seed)
        import tensorly.tenalg as tenalg

        for impl in BACKENDS:
            rn.calls += 1
            ctx.count("calls")
            try:
                tenalg.set_backend(impl)
                tenalg.inner(a, b, n_modes=k)
            except Exception as e:
                ctx.outcome(f"inner:rejected-ill-shaped:{type(e).__name__}")
                continue
            ctx.outcome("inner:ill-shaped-accepted")
            ctx.count(f"guarded_out:inner-ill-shaped-accepted:{impl}")  # the statement does not say it must raise
        return True
    a, b = val(s1, 0, cplx, seed), val(tuple(s2), 1, cplx, seed)
    ref = R.inner(rt(a), rt(b), n_modes=k)
    ref = np.asarray(ref) if k is None else ref_np(ref)
    if k is None:
        klass = "n_modes=None"
    elif k == len(s1) and k == len(s2):
        klass = "full-contraction"
    elif k == len(s1) or k == len(s2):
        klass = "one-operand-fully-contracted"
    else:
        klass = "partial"
    desc = lambda: f"inner(A{brief(a)}, B{brief(b)}, n_modes={k})"
    rn.both("inner", lambda f: f(a, b, n_modes=k), [ref], klass, desc)
    return a.size + b.size > 2


def run_outer(case, rn):
    ops, cplx, seed = case["ops"], case["cplx"], case["seed"]
    ts = [val(s, i, cplx, seed, nonzero=True) for i, s in enumerate(ops)]
    ref = ref_np(R.outer([rt(t) for t in ts]))
    klass = "single-operand" if len(ts) == 1 else f"{len(ts)}-operands"
    desc = lambda: f"outer([{'; '.join(brief(t) for t in ts)}])"
    rn.both("outer", lambda f: f(list(ts)), [ref], klass, desc)
    return sum(t.size for t in ts) > len(ts)


def run_batched_outer(case, rn):
    nb, ops, cplx, bad, seed = case["nb"], case["ops"], case["cplx"], case["bad"], case["seed"]
    ctx = rn.ctx
    ts = [val([nb] + list(s), i, cplx, seed, nonzero=True) for i, s in enumerate(ops)]
    if bad:  # last operand has a different batch size: no textbook value exists
        ts[-1] = val([nb + 1] + list(ops[-1]), len(ops), cplx, seed, nonzero=True)
        import tensorly.tenalg as tenalg

        for impl in BACKENDS:
            rn.calls += 1
            ctx.count("calls")
            try:
                tenalg.set_backend(impl)
                tenalg.batched_outer(list(ts))
            except Exception as e:
                ctx.outcome(f"batched_outer:rejected-batch-mismatch:{type(e).__name__}")
                continue
            ctx.outcome("batched_outer:batch-mismatch-accepted")
            ctx.count(f"guarded_out:batched_outer-batch-mismatch-accepted:{impl}")
        return True
    ref = ref_np(R2.batched_outer([rt(t) for t in ts]))
    klass = "single-operand" if len(ts) == 1 else f"{len(ts)}-operands"
    if any(len(s) == 0 for s in ops):
        klass += ",batch-only-operand"
    desc = lambda: f"batched_outer([{'; '.join(brief(t) for t in ts)}])"
    rn.both("batched_outer", lambda f: f(list(ts)), [ref], klass, desc)
    return sum(t.size for t in ts) > len(ts)


def run_tensordot(case, rn):
    sh1, sh2, cm1, cm2, bm1, bm2, form, cplx, seed = (case["sh1"], case["sh2"], case["cm1"], case["cm2"], case["bm1"], case["bm2"],
                                                      case["form"], case["cplx"], case["seed"])
    a, b = val(sh1, 0, cplx, seed), val(sh2, 1, cplx, seed)
    ref = ref_np(R2.tensordot(rt(a), rt(b), cm1, cm2, bm1, bm2))
    c, nbm = len(cm1), len(bm1)
    if form == "lists":
        modes, bmodes = (list(cm1), list(cm2)), (list(bm1), list(bm2))
    elif form == "ints":
        modes = (cm1[0], cm2[0]) if c == 1 else (list(cm1), list(cm2))
        bmodes = (bm1[0], bm2[0]) if nbm == 1 else (list(bm1), list(bm2))
    elif form == "int":
        modes = c
        bmodes = bm1[0] if nbm == 1 else ()
    elif form == "empty-tuple":
        modes = () if c == 0 else (list(cm1), list(cm2))
        bmodes = () if nbm == 0 else (list(bm1), list(bm2))
    else:
        raise ValueError(form)
    parts = []
    if c:
        parts.append("contract" if cm1 == sorted(cm1) and cm2 == sorted(cm2) else "contract-unsorted")
    if nbm:
        parts.append("batch" if bm1 == sorted(bm1) else "batch-unsorted-in-tensor1")
        if bm1 == sorted(bm1) and bm2 != sorted(bm2):
            parts[-1] = "batch-unsorted-in-tensor2"
    if not parts:
        parts.append("outer")
    klass = "+".join(parts) + ("" if form == "lists" else f",{form}-form")
    if bm1 != sorted(bm1):  # one input class whatever else is going on (contraction, argument form)
        klass = "batched-modes-not-increasing-in-tensor1"
    desc = lambda: f"tensordot(A{brief(a)}, B{brief(b)}, modes={modes}, batched_modes={bmodes})"
    rn.both("tensordot", lambda f: f(a, b, modes, batched_modes=bmodes), [ref], klass, desc)
    return a.size + b.size > 2


def run_mttkrp(case, rn):
    shape, mode, rank, w, cplx, seed = tuple(case["shape"]), case["mode"], case["rank"], case["w"], case["cplx"], case["seed"]
    t = val(shape, 0, cplx, seed)
    fc = cplx or case.get("fcplx", False)
    facs = [val((s, rank), 1 + i, fc, seed, nonzero=True) for i, s in enumerate(shape)]
    weights = weights_for(rank, seed) if w else None  # real weights: their conjugation is not demanded
    ref = ref_np(R.mttkrp(rt(t), None if weights is None else [x.item() for x in weights], [R2.conj_rt(rt(f)) for f in facs], mode))
    klass = ("order2" if len(shape) == 2 else "order>=3") + (",weights" if w else "") + (",real-tensor-complex-factors" if case.get("fcplx") else "")
    desc = lambda: (f"unfolding_dot_khatri_rao(T{brief(t)}, (weights={None if weights is None else weights.tolist()}, "
            f"[{'; '.join(brief(f) for f in facs)}]), mode={mode})")
    out = rn.both("unfolding_dot_khatri_rao", lambda f: f(t, (weights, list(facs)), mode), [ref], klass, desc)
    if not cplx:
        rn.both("unfolding_dot_khatri_rao", lambda f: f(t, (weights, list(facs)), np.int64(mode)), [ref], klass + ",numpy-int-index",
                lambda: desc() + " [mode as np.int64]")
    from tensorly.tenalg.core_tenalg.mttkrp import unfolding_dot_khatri_rao_memory as mem

    rn.call("unfolding_dot_khatri_rao_memory", "memory", lambda _: mem(t, (weights, list(facs)), mode), [ref], klass,
            (lambda: "[memory] " + desc()), label="core_tenalg.mttkrp.unfolding_dot_khatri_rao_memory")
    return True


def run_sample_kr(case, rn):
    rows, rank, skip, ns, cplx, seed = case["rows"], case["rank"], case["skip"], case["ns"], case["cplx"], case["seed"]
    from tensorly.decomposition import sample_khatri_rao

    ctx = rn.ctx
    ms = [val((r, rank), i, cplx, seed, nonzero=True) for i, r in enumerate(rows)]
    rem = [m for i, m in enumerate(ms) if i != skip]
    rem_rows = [r for i, r in enumerate(rows) if i != skip]
    full = ref_np(R.khatri_rao([rt(m) for m in rem]))  # reference full product (first matrix slowest)
    site = "decomposition.sample_khatri_rao"
    klass = ("single-matrix" if len(rem) == 1 else "multi") + (",skip" if skip is not None else "")
    # ---- drawn indices (no indices_list): whatever is drawn, the returned rows are the rows of the full product at the returned
    #      indices, every index is in range, and a valid request (one-row matrices included) does not raise
    for rs in (0, 1, 2):
        for nsamp in sorted({ns, 5}):
            for skp in (skip, None if skip is None else np.int64(skip)):
                rn.calls += 1
                ctx.count("calls")
                ctx.count("calls:sample_khatri_rao:drawn")
                d2 = lambda: f"sample_khatri_rao(matrices with rows {rows}, rank {rank}, n_samples={nsamp}, skip_matrix={skp!r}, random_state={rs}, return_sampled_rows=True)"
                try:
                    skr, idxs, rws = sample_khatri_rao(list(ms), nsamp, skip_matrix=skp, random_state=rs, return_sampled_rows=True)
                except Exception as e:
                    viol(ctx, f"{site}/raises-{type(e).__name__}/drawn-indices,{klass}", lambda: f"{d2()}: {type(e).__name__}: {e}")
                    continue
                idxs = [np.asarray(i) for i in idxs]
                if len(idxs) != len(rem) or any(i.shape != (nsamp,) or (i.size and (i.min() < 0 or i.max() >= r)) for i, r in zip(idxs, rem_rows)):
                    viol(ctx, f"{site}/drawn-indices-out-of-range-or-malformed/{klass}", lambda: f"{d2()}: indices {[i.tolist() for i in idxs]}")
                    continue
                exp_rows = [R2.kr_row(rem_rows, [int(i[s_]) for i in idxs]) for s_ in range(nsamp)]
                if np.asarray(rws).tolist() != exp_rows or not np.array_equal(np.asarray(skr), full[exp_rows, :] if nsamp else full[:0]):
                    viol(ctx, f"{site}/value/drawn-indices,{klass}", lambda: f"{d2()}: rows {np.asarray(rws).tolist()} (expected {exp_rows}) / values differ from the full product")
    row_tuples = list(itertools.product(*[range(r) for r in rem_rows]))
    for sample in itertools.product(row_tuples, repeat=ns):  # every explicit indices_list
        idx_list = [np.array([sample[s][k] for s in range(ns)], dtype=int) for k in range(len(rem))]
        exp_rows = [R2.kr_row(rem_rows, sample[s]) for s in range(ns)]
        exp = full[exp_rows, :] if ns else full[:0]
        for rsr in (False, True):
            rn.calls += 1
            ctx.count("calls")
            ctx.count("calls:sample_khatri_rao")
            desc = lambda: (f"sample_khatri_rao([{'; '.join(brief(m) for m in ms)}], n_samples={ns}, skip_matrix={skip}, "
                    f"indices_list={[i.tolist() for i in idx_list]}, return_sampled_rows={rsr})")
            try:
                out = sample_khatri_rao(list(ms), ns, skip_matrix=skip, indices_list=[i.copy() for i in idx_list], return_sampled_rows=rsr)
            except Exception as e:
                viol(ctx, f"{site}/raises-{type(e).__name__}/{klass}",
                     lambda: f"{desc()}: {type(e).__name__}: {e}")
                ctx.outcome("sample_khatri_rao:raised")
                continue
            if len(out) != (3 if rsr else 2):
                viol(ctx, f"{site}/return-arity/{klass}",
                     lambda: f"{desc()}: returned {len(out)} values")
                continue
            skr = np.asarray(out[0])
            ok = True
            if skr.shape != exp.shape:
                viol(ctx, f"{site}/shape/{klass}",
                     lambda: f"{desc()}: got shape {skr.shape} expected {exp.shape}")
                ok = False
            elif not np.array_equal(skr, exp):
                viol(ctx, f"{site}/value/{klass}",
                     lambda: f"{desc()}: got {brief(skr)} expected rows {exp_rows} of the full product = {brief(exp)}")
                ok = False
            ret_idx = out[1]
            if len(ret_idx) != len(idx_list) or not all(np.array_equal(np.asarray(x), y) for x, y in zip(ret_idx, idx_list)):
                viol(ctx, f"{site}/returned-indices-list/{klass}",
                     lambda: f"{desc()}: returned indices {[np.asarray(x).tolist() for x in ret_idx]}")
                ok = False
            if rsr:
                got_rows = np.asarray(out[2])
                if got_rows.shape != (ns,) or got_rows.tolist() != exp_rows:
                    viol(ctx, f"{site}/sampled-row-index/{klass}",
                         lambda: f"{desc()}: indices_kr {got_rows.tolist()} expected {exp_rows}")
                    ok = False
            ctx.outcome("sample_khatri_rao:equal" if ok else "sample_khatri_rao:wrong")
    return len(row_tuples) > 1


def run_moment(case, rn):
    shape, order, cplx, seed = case["shape"], case["order"], case["cplx"], case["seed"]
    x = val(shape, 0, cplx, seed)
    n = shape[0]
    s = ref_np(R2.moment_sum(rt(x), order))
    ref = s / n  # exact sum, one correctly rounded division -- the same two steps as mean(..., axis=0)
    klass = "order1" if order == 1 else "order>=2"
    if order == 1 and n > 1:
        klass += ",n_samples>1"
    desc = lambda: f"higher_order_moment(X{brief(x)}, order={order})"
    ctx = rn.ctx
    import tensorly.tenalg as tenalg

    for impl in BACKENDS:
        # same as Runner.call but with the 1e-12 rung of the ladder when n_samples is not a power of two
        site = f"tenalg.{impl}.higher_order_moment"
        rn.calls += 1
        ctx.count("calls")
        ctx.count(f"calls:higher_order_moment:{impl}")
        del TRACE[:]
        try:
            tenalg.set_backend(impl)
            res = np.asarray(tenalg.higher_order_moment(x, order))
        except Exception as e:
            viol(ctx, f"{site}/raises-{type(e).__name__}/{klass}",
                 lambda: f"[{impl}] {desc()}: {type(e).__name__}: {str(e)[:300]}")
            ctx.outcome("higher_order_moment:raised")
            continue
        if not TRACE or TRACE[0] != (impl, "higher_order_moment"):
            viol(ctx, f"tenalg.dispatch/higher_order_moment/selected-{impl}" + ("" if TRACE else ",unidentified-implementation"),
                 lambda: f"{desc()}: entered {TRACE[:1]}")
        if res.shape != ref.shape:
            viol(ctx, f"{site}/shape/{klass}",
                 lambda: f"[{impl}] {desc()}: got shape {res.shape} expected {ref.shape}")
            ctx.outcome("higher_order_moment:wrong")
            continue
        tol = 0.0 if n in (1, 2, 4) else 1e-12 * max(1.0, float(np.max(np.abs(ref))) if ref.size else 1.0)
        if ref.size and float(np.max(np.abs(res - ref))) > tol:
            viol(ctx, f"{site}/value/{klass}",
                 lambda: f"[{impl}] {desc()}: got {brief(res)} expected {brief(ref)}")
            ctx.outcome("higher_order_moment:wrong")
            continue
        ctx.outcome("higher_order_moment:equal")
    return x.size > 1


def run_histories(case, rn):
    """Sequences of two calls sharing their list-typed argument objects; every call is compared with its definition."""
    import copy

    item, cplx, seed = case["item"], case["cplx"], case["seed"]
    kind = item[0]
    if kind == "tensordot":
        _, spec, batched, n1, n2, n1b, n2b = item
        modes = copy.deepcopy(spec)          # ONE object, handed to both calls
        bm = [[0], [0]] if batched else ()
        pristine_modes, pristine_bm = copy.deepcopy(modes), copy.deepcopy(bm)
        for step, (na, nb_) in enumerate([(n1, n2), (n1b, n2b)]):
            norm = lambda m, n: m % n
            cm1 = [norm(m, na) for m in pristine_modes[0]]
            cm2 = [norm(m, nb_) for m in pristine_modes[1]]
            bm1, bm2 = ([0], [0]) if batched else ([], [])
            if len(set(cm1 + bm1)) != len(cm1 + bm1) or len(set(cm2 + bm2)) != len(cm2 + bm2):
                rn.ctx.count("guarded_out:history-spec-not-applicable-to-operand-order")
                return False
            sh1 = [2] * na
            sh2 = [2] * nb_
            a, b = val(sh1, 2 * step, cplx, seed), val(sh2, 2 * step + 1, cplx, seed)
            ref = ref_np(R2.tensordot(rt(a), rt(b), cm1, cm2, bm1, bm2))
            for impl in BACKENDS:
                rn.call("tensordot", impl, lambda f: f(a, b, modes, batched_modes=bm), [ref],
                        f"history-step{step + 1},shared-modes-object,negative-indices",
                        lambda: f"call {step + 1} of a sequence sharing modes={pristine_modes} batched_modes={pristine_bm} (now {modes}, {bm}): "
                                f"tensordot(A{brief(a)}, B{brief(b)}, modes, batched_modes)")
        return True
    if kind == "matrix-list":
        _, k, skip1, skip2, second = item
        mats = [val((2 + (i % 2), 2), i, cplx, seed) for i in range(k)]
        pristine = [m.copy() for m in mats]
        lst = list(mats)                     # ONE list object for both calls
        w = weights_for(2, seed)
        if not (skip1 is not None and k == 1):
            rem = [m for i, m in enumerate(pristine) if i != skip1]
            ref = ref_np(R.khatri_rao([rt(m) for m in rem], [x.item() for x in w]))
            for impl in BACKENDS:
                rn.call("khatri_rao", impl, lambda f: f(lst, weights=w, skip_matrix=skip1), [ref], "history-step1,shared-matrix-list",
                        lambda: f"call 1: khatri_rao(list of {k} matrices, weights, skip_matrix={skip1})")
        if len(lst) != k or any(x is not y for x, y in zip(lst, mats)):
            pass  # judged by the second call below (and by C15)
        rem = [m for i, m in enumerate(pristine) if i != skip2]
        if not rem:
            return True
        if second == "khatri_rao":
            ref = ref_np(R.khatri_rao([rt(m) for m in rem]))
            for impl in BACKENDS:
                rn.call("khatri_rao", impl, lambda f: f(lst, skip_matrix=skip2), [ref], "history-step2,shared-matrix-list",
                        lambda: f"call 2 with the same list object ({len(lst)} entries now): khatri_rao(list, skip_matrix={skip2})")
        else:
            ref = ref_np(R.kron([rt(m) for m in rem]))
            for impl in BACKENDS:
                rn.call("kronecker", impl, lambda f: f(lst, skip_matrix=skip2), [ref], "history-step2,shared-matrix-list",
                        lambda: f"call 2 with the same list object ({len(lst)} entries now): kronecker(list, skip_matrix={skip2})")
        return True
    if kind == "multi_mode_dot":
        _, n, modes, skip = item
        shape = [2, 3, 2][:n]
        t = val(shape, 0, cplx, seed)
        ops = [val((2, shape[m]), 1 + i, cplx, seed) for i, m in enumerate(modes)]
        lst, mds = list(ops), list(modes)    # shared objects
        for step, sk in enumerate([skip, None]):
            out = rt(t)
            for i, (m, mode) in enumerate(zip(ops, modes)):
                if i != sk:
                    out = R.mode_dot(out, rt(m), mode)
            ref = ref_np(out)
            for impl in BACKENDS:
                rn.call("multi_mode_dot", impl, lambda f: f(t, lst, modes=mds, skip=sk), [ref], f"history-step{step + 1},shared-modes-and-operand-lists",
                        lambda: f"call {step + 1} sharing operand list and modes={modes} (now {mds}): multi_mode_dot(T{brief(t)}, ops, modes, skip={sk})")
        return True
    if kind == "mttkrp":
        from tensorly.tenalg.core_tenalg.mttkrp import unfolding_dot_khatri_rao_memory

        _, n, m1, m2, w = item
        shape = [2, 3, 2][:n]
        t = val(shape, 0, cplx, seed)
        facs = [val((sd, 2), 1 + i, cplx, seed, nonzero=True) for i, sd in enumerate(shape)]
        weights = weights_for(2, seed) if w else None
        pristine = [f.copy() for f in facs]
        pw = None if weights is None else weights.copy()
        cp = (weights, facs)                 # ONE (weights, factors) object for all calls, as inside an ALS loop
        for step, mode in enumerate([m1, m2]):
            ref = ref_np(R.mttkrp(rt(t), None if pw is None else [x.item() for x in pw], [R2.conj_rt(rt(f)) for f in pristine], mode))
            for impl in BACKENDS:
                rn.call("unfolding_dot_khatri_rao", impl, lambda f: f(t, cp, mode), [ref], f"history-step{step + 1},shared-factor-objects",
                        lambda: f"call {step + 1} (mode {mode}) of a sequence sharing the (weights, factors) objects: unfolding_dot_khatri_rao(T{brief(t)}, cp, {mode})")
            rn.call("unfolding_dot_khatri_rao_memory", "memory", lambda f: unfolding_dot_khatri_rao_memory(t, cp, mode), [ref],
                    f"history-step{step + 1},shared-factor-objects", lambda: f"call {step + 1}: unfolding_dot_khatri_rao_memory(T, cp, {mode})",
                    label="unfolding_dot_khatri_rao_memory")
        return True
    raise ValueError(kind)


RUNNERS = {
    "histories": run_histories,
    "mode_dot": run_mode_dot,
    "multi_mode_dot": run_multi_mode_dot,
    "kronecker": run_kronecker,
    "khatri_rao": run_khatri_rao,
    "inner": run_inner,
    "outer": run_outer,
    "batched_outer": run_batched_outer,
    "tensordot": run_tensordot,
    "mttkrp": run_mttkrp,
    "sample_kr": run_sample_kr,
    "moment": run_moment,
}


class C02(Check):
    pid = "C02"
    level = "exploration"
    design_ref = "DESIGN.md §4 C02"
    rule = ("complete product per routine: operand orders/shapes over dims {1,2,3} (order-4/5 operands {1,2}; thorough adds 4 / "
            "{1,2,3}) x every mode x every option combination (vector|matrix operand and J, transpose, modes=None|every ordered "
            "subset, skip=None|every list index, skip_matrix, reverse, weights, mask, n_modes, every contraction/batch pairing in "
            "every list order and argument form, rank, every explicit indices_list, moment order) x {real, complex}; a case is one "
            "such point, executed under BOTH tenalg backends (plus the memory MTTKRP); non-trivial iff some operand has >= 2 "
            "entries (or an option such as weights/mask acts, or the call is an ill-shaped one that must not return silently)")
    assumptions = ["family 'histories': pairs of consecutive calls that share their list-typed argument objects (negative-index modes specs, matrix lists, operand/modes lists)",
                   "reference formulas: explicit index loops on python ints / complex with integer parts (vmc/ref/core.py, vmc/ref/c02_ref.py)",
                   "inputs are integers |x|<=3 (Gaussian integers |re|,|im|<=2): every partial sum < 2**53, so float64 results are exact and compared with == (DESIGN 1.6 rung 1)",
                   "higher_order_moment: exact sum, one division; == when n_samples is a power of two, else 1e-12 relative (rung '1e-12: one division')",
                   "numpy array_equal / shape / asarray are trusted; weights are real wherever a routine conjugates (conjugation of weights not demanded)",
                   "the executing implementation is observed through wrappers installed on CoreTenalgBackend / EinsumTenalgBackend methods inside the harness process"]

    def setup_worker(self):
        install_wrappers()

    def groups(self, tier, seed):
        qi = 0 if tier == "quick" else 1
        gs = [{"fam": fam, "part": k, "of": PARTS[fam][qi]} for fam in FAMS for k in range(PARTS[fam][qi])]
        order = ["multi_mode_dot", "tensordot", "khatri_rao", "mttkrp"] + [f for f in FAMS if f not in ("multi_mode_dot", "tensordot", "khatri_rao", "mttkrp")]
        return sorted(gs, key=lambda g: (g["part"], order.index(g["fam"])))  # families interleaved (evidence samples, load balance)

    def cases(self, group, tier, seed):
        fam, part, of = group["fam"], group["part"], group["of"]
        for i, item in enumerate(outer_items(fam, tier)):
            if i % of == part:
                yield from inner_cases(fam, item, tier, seed)

    def run_case(self, case, ctx):
        import tensorly.tenalg as tenalg

        install_wrappers()
        prev = tenalg.get_backend()
        rn = Runner(ctx, case)
        if "guard" in case:  # lattice point outside the domain the statement / docstrings cover: counted, not executed
            ctx.count("guarded_out:" + case["guard"])
            ctx.outcome("guarded_out")
            return
        try:
            nontrivial = RUNNERS[case["fam"]](case, rn)
        finally:
            tenalg.set_backend(prev)
        if nontrivial:
            ctx.nontriv()
        else:
            ctx.count("trivial_cases")
        ctx.evaluations += max(rn.calls - 1, 0)  # evaluations = library calls
        if nontrivial and not ctx.samples and ctx.evaluations % 7 == 0:
            ctx.sample({"case": case, "library_calls": rn.calls})


CHECK = C02()
