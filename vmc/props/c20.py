"""C20 — factor-similarity metrics are optimal and invariant to CP indeterminacies.

Five complete lattices (kinds), each partitioned into groups:

equiv     base factor set A (table x row-profile x rank x #modes) x EVERY permutation pi in S_R x column scalings
          ({+-1, +-2, 1/2}^R for R <= 3, {+-1}^R above) x how the scaling is spread over the modes (uniform / first mode
          only / compensating s, 1/s) -> B = equivalent copy.  congruence_coefficient (absolute_value on and off, bare matrix
          and list form) must return 1 and the recovering permutation (whenever the product of cosines of the recovering
          matching is +1), and in every case the all-matchings maximum; all four correlation_index methods must return 0.
pair      independent / perturbed pairs (A, B): returned coefficient = max over ALL R! matchings of the mean product of
          (absolute) cosines, returned permutation attains it, value in [0, 1] with absolute values; correlation index in
          [0, 1] and > 0 when every mode is macroscopically non-equivalent.
cpperm    cp_permute_factors(ref, t | [t...]): output represents the same dense tensor as t and the identity matching is an
          optimal matching between ref and the output (aligned components).
errmetric MSE / RMSE / R2_score / correlation / covariance / variance / standard_deviation against loop definitions,
          every axis argument (None, every +-int, every pair) on arrays of order 1-3.
leverage  leverage_score_dist on full-rank / rank-deficient / nearly rank-deficient matrices, float64 and float32:
          entries >= 0, sum == 1 (1e-12).

Tolerance (DESIGN 1.6): 1e-12 absolute on cosine-type quantities (|.| <= 1), 1e-12 * max(1, |expected|) elsewhere.
"""
import functools
import itertools
import math

import numpy as np

from vmc import values as V
from vmc.ref import c20_ref as REF
from vmc.runner import Check

TOL = 1e-12
METHODS = ["stacked", "max_score", "min_score", "avg_score"]


# ------------------------------------------------------------------------------------------ value construction
def profile(rows, n, dims):
    i = dims.index(rows)
    return [dims[(i + k) % len(dims)] for k in range(n)]


def table_matrix(table, shape, off):
    if table == "generic":
        return V.generic(shape, off)
    return V.ints(shape, off, 3, nonzero=True)


@functools.lru_cache(maxsize=256)
def base_set(table, prof, R, off):
    """Factor set A (one matrix per entry of prof), its per-mode self-cosine matrices and whether the columns are pairwise
    non-collinear in at least one mode (=> the recovering permutation of an equivalent copy is unique)."""
    A = [table_matrix(table, (rows, R), off * 7 + k) for k, rows in enumerate(prof)]
    c0 = [REF.cos_matrix(a, a) for a in A]
    pabs = REF.product_matrix(c0, True)
    unique = all(pabs[i][j] < 1 - 1e-9 for i in range(R) for j in range(R) if i != j)
    return A, c0, unique


def scalings(R):
    vals = (1.0, -1.0, 2.0, -2.0, 0.5) if R <= 3 else (1.0, -1.0)
    # plus: every column in a small / large unit (cosines do not depend on the unit; products of R small norms get tiny)
    extra = [tuple([1e-3] * R), tuple([-1e-3 if j % 2 else 1e-3 for j in range(R)]), tuple([1e3] * R), tuple([1e-6] * R)]
    return itertools.chain(itertools.product(vals, repeat=R), extra)


def spread(s, pat, n):
    """Per-mode scaling rows S[k][j] from the column scaling s and the pattern."""
    one = [1.0] * len(s)
    if pat == "uniform":
        return [list(s) for _ in range(n)]
    if pat == "first":
        return [list(s)] + [one[:] for _ in range(n - 1)]
    if pat == "comp":
        assert n >= 2
        return [list(s), [1.0 / x for x in s]] + [one[:] for _ in range(n - 2)]
    raise ValueError(pat)


def scaling_class(S):
    if all(x == 1.0 for row in S for x in row):
        return "permuted-only"
    if all(row == S[0] for row in S):
        return "uniform-scaling"
    # classes are chosen so that one repair clears one class: a sign that differs between the modes of one component
    # (whatever the magnitudes) vs. signs uniform over the modes but magnitudes differing between the modes
    if any([x > 0 for x in row] != [x > 0 for x in S[0]] for row in S):
        return "mode-dependent-sign"
    return "mode-dependent-magnitude"


def is_perm(p, R):
    try:
        q = [int(x) for x in p]
    except Exception:
        return None
    if len(q) != R or sorted(q) != list(range(R)) or any(float(x) != float(y) for x, y in zip(p, q)):
        return None
    return q


# ------------------------------------------------------------------------------------------ the check
class C20(Check):
    pid = "C20"
    level = "exploration"
    design_ref = "DESIGN.md §4 C20"
    rule = ("complete products: [equiv] table{generic,int} x row-profile x rank x #modes(1-3) x every pi in S_R x every column "
            "scaling ({+-1,+-2,1/2}^R for R<=3, {+-1}^R above) x scaling spread {uniform, first-mode, compensating} (quick: rows 2-4, "
            "R 1-5; thorough: rows 1-5, R 1-6 with R=6 on the rows 2-4 profiles); [pair] "
            "table x profile x rank x #modes x family{independent,perturbed} x offset pairs; [cpperm] reference CP x every "
            "(pi, scaling) single tensor and every tuple of list elements (lists of 1-3); [errmetric] every shape of order 1-3 "
            "over dims 1-4 x table x dtype x every axis argument; [leverage] every (m, n, rank) x table x dtype x variant. "
            "A case is one lattice point (all absolute_value settings / methods / call forms are exercised inside it). "
            "Non-trivial: equiv/cpperm - pi != id or scaling != 1 or a generic element; pair - R >= 2 (more than one "
            "matching); errmetric - array has >= 2 entries; leverage - min(m, n) >= 2 or rank-deficient")
    assumptions = [
        "reference cosines / definitions: python-float loops with math.fsum (vmc/ref/c20_ref.py)",
        "all-matchings maximum by numpy fancy indexing over itertools.permutations (self-tested against a python loop in every worker)",
        "for equivalent copies B = A[:, pi] * s the reference cosine matrix is derived exactly from the self-cosines of A: cos(A_i, B_j) = cos(A_i, A_pi(j)) * sign(s_j)",
        "tolerance ladder entry 1e-12 (one division / sqrt): absolute on cosine-type values, relative to max(1, |expected|) on error metrics; leverage sums 1e-12",
        "correlation index on equivalent sets: <= 1e-12 accepted as zero (values in (0, 1e-12] are counted as corrindex_tiny_nonzero)",
        "R2_score: both the uncentred (1 - |p-o|^2/|o|^2) and the centred definition are accepted; covariance/variance/std accept ddof 0 or 1",
        "real float64 inputs (int64 also for error metrics, float32 also for leverage scores); non-zero columns only",
    ]

    def setup_worker(self):
        REF.selftest()

    # ------------------------------------------------------------------ bounds
    @staticmethod
    def bounds(tier):
        if tier == "quick":
            return dict(dims=(2, 3, 4), Rmax=5, offs=1, pair_a=6, pair_b=8, cp_Rmax=4, cp_list3_Rmax=2, lev_max=5, lev_offs=2,
                        em_offs=2)
        return dict(dims=(1, 2, 3, 4, 5), Rmax=6, offs=2, pair_a=12, pair_b=12, cp_Rmax=5, cp_list3_Rmax=3, lev_max=7,
                    lev_offs=3, em_offs=4)

    def groups(self, tier, seed):
        b = self.bounds(tier)
        dims = b["dims"]
        gs = []
        # equiv: big ranks first (largest groups first keeps the pool busy)
        for R in range(b["Rmax"], 2, -1):
            nch = {3: 1, 4: 1, 5: 8, 6: 60}[R]
            rdims = dims if R <= 5 else (2, 3, 4)  # R = 6 (thorough only): the three quick row profiles
            for table in ("generic", "int"):
                for rows in rdims:
                    for n in (3, 2, 1):
                        for ch in range(nch):
                            gs.append({"kind": "equiv", "table": table, "prof": profile(rows, n, rdims), "Rs": [R], "chunk": ch, "nch": nch})
        for table in ("generic", "int"):
            for rows in dims:
                for n in (3, 2, 1):
                    gs.append({"kind": "equiv", "table": table, "prof": profile(rows, n, dims), "Rs": [1, 2], "chunk": 0, "nch": 1})
        # cpperm
        for table in ("generic", "int"):
            for rows in dims:
                for nm in (2, 3):
                    prof = profile(rows, nm, dims)
                    for R in range(b["cp_Rmax"], 0, -1):
                        gs.append({"kind": "cpperm", "form": "single", "table": table, "prof": prof, "R": R})
                    for R in (3, 2):
                        for L in (1, 2, 3):
                            if L == 3 and R > b["cp_list3_Rmax"]:
                                continue
                            gs.append({"kind": "cpperm", "form": "list", "L": L, "table": table, "prof": prof, "R": R})
        # pair
        for table in ("generic", "int"):
            for rows in dims:
                for n in (1, 2, 3):
                    for R in range(1, b["Rmax"] + 1):
                        gs.append({"kind": "pair", "table": table, "prof": profile(rows, n, dims), "R": R})
        # errmetric
        for order in (1, 2, 3):
            for d0 in (1, 2, 3, 4):
                for table in ("generic", "int"):
                    gs.append({"kind": "errmetric", "order": order, "d0": d0, "table": table})
        # leverage
        for m in range(1, b["lev_max"] + 1):
            for n in range(1, b["lev_max"] + 1):
                gs.append({"kind": "leverage", "m": m, "n": n})
        return gs

    # ------------------------------------------------------------------ cases
    def cases(self, group, tier, seed):
        b = self.bounds(tier)
        kind = group["kind"]
        if kind == "equiv":
            n = len(group["prof"])
            pats = ["uniform"] if n == 1 else ["uniform", "first", "comp"]
            for R in group["Rs"]:
                noffs = 1 if R >= 6 else b["offs"]
                for o in range(noffs):
                    off = seed * 5 + o
                    for ip, pi in enumerate(itertools.permutations(range(R))):
                        if ip % group["nch"] != group["chunk"]:
                            continue
                        for s in scalings(R):
                            for pat in pats:
                                yield {"kind": "equiv", "table": group["table"], "prof": group["prof"], "R": R, "off": off,
                                       "pi": list(pi), "s": list(s), "pat": pat}
        elif kind == "pair":
            for fam in ("indep", "perturbed"):
                for oa in range(b["pair_a"]):
                    for ob in range(b["pair_b"]):
                        yield {"kind": "pair", "family": fam, "table": group["table"], "prof": group["prof"], "R": group["R"],
                               "offa": seed * 3 + oa, "offb": seed * 3 + 100 + ob}
                        if fam == "indep" and ob == 0:
                            # sparse / non-negative factor matrices have all-zero ROWS (their columns stay non-zero): a legitimate input
                            yield {"kind": "pair", "family": fam, "table": group["table"], "prof": group["prof"], "R": group["R"],
                                   "offa": seed * 3 + oa, "offb": seed * 3 + 100 + ob, "zero_rows": True}
        elif kind == "cpperm":
            R = group["R"]
            off = seed * 5
            base = {"kind": "cpperm", "table": group["table"], "prof": group["prof"], "R": R, "off": off, "form": group["form"]}
            if group["form"] == "single":
                for pi in itertools.permutations(range(R)):
                    for s in scalings(R):
                        for pat in ("comp", "first"):
                            yield dict(base, elems=[{"t": "equiv", "pi": list(pi), "s": list(s), "pat": pat}])
                for ob in range(4):
                    yield dict(base, elems=[{"t": "generic", "offb": seed * 3 + 50 + ob}])
            else:
                L = group["L"]
                signs_only = not (L == 3 and R == 3)
                elems = []
                for pi in itertools.permutations(range(R)):
                    for s in (itertools.product((1.0, -1.0), repeat=R) if signs_only else [tuple([1.0] * R)]):
                        elems.append({"t": "equiv", "pi": list(pi), "s": list(s), "pat": "comp"})
                for ob in range(2 if signs_only else 1):
                    elems.append({"t": "generic", "offb": seed * 3 + 50 + ob})
                for tup in itertools.product(elems, repeat=L):
                    yield dict(base, elems=[dict(e) for e in tup])
        elif kind == "errmetric":
            order, d0 = group["order"], group["d0"]
            for rest in itertools.product((1, 2, 3, 4), repeat=order - 1):
                shape = [d0] + list(rest)
                for o in range(b["em_offs"]):
                    for dtype in (["float64", "int64"] if group["table"] == "int" else ["float64"]):
                        yield {"kind": "errmetric", "shape": shape, "table": group["table"], "dtype": dtype, "off": seed * 7 + o}
        elif kind == "leverage":
            m, n = group["m"], group["n"]
            yield {"kind": "leverage", "m": m, "n": n, "r": 0, "table": "int", "dtype": "float64", "variant": "zero", "off": 0}
            for r in range(1, min(m, n) + 1):
                for table in ("int", "generic"):
                    for dtype in ("float64", "float32"):
                        for variant in ("exact", "near"):
                            for o in range(b["lev_offs"]):
                                yield {"kind": "leverage", "m": m, "n": n, "r": r, "table": table, "dtype": dtype,
                                       "variant": variant, "off": seed * 3 + o}
        else:
            raise ValueError(kind)

    # ------------------------------------------------------------------ dispatch
    def run_case(self, case, ctx):
        with np.errstate(all="ignore"):
            getattr(self, "_run_" + case["kind"])(case, ctx)

    # ------------------------------------------------------------------ congruence oracle (shared)
    def _check_congruence(self, ctx, A, B, C_by_abs, R, label, equiv=None):
        """C_by_abs[abs] = reference product-of-cosines matrix.  equiv = None or dict(cls=scaling class, unique=bool,
        expected=perm, sigma_pos=bool): the equivalent-copy demands."""
        from tensorly.metrics import congruence_coefficient

        n = len(A)
        lst = "single" if n == 1 else "list"
        # a tuple of matrices is a sequence of matrices like a list (and a 2-tuple must not be mistaken for (weights, factors))
        forms = [("list", A, B)] + ([("bare", A[0], B[0])] if n == 1 else []) + [("tuple", tuple(A), tuple(B))]
        for absv in (True, False):
            C = C_by_abs[absv]
            best, means = REF.all_matchings(C)
            mode = ("abs" if absv else "signed") + "-" + lst
            results = []
            for form, a, bb in forms:
                ctx.count("calls:congruence_coefficient")
                try:
                    val, perm = congruence_coefficient(a, bb, absolute_value=absv)
                except Exception as e:
                    ctx.violation(f"congruence_coefficient/raises/{mode}", f"{label} form={form}: {type(e).__name__}: {e}")
                    continue
                results.append((form, float(val), perm))
                p = is_perm(perm, R)
                if p is None:
                    ctx.violation(f"congruence_coefficient/permutation-invalid/{mode}", f"{label} form={form}: returned permutation {perm!r} is not a permutation of range({R})")
                    continue
                val = float(val)
                if not abs(val - best) <= TOL:
                    ctx.violation(f"congruence_coefficient/value-not-maximum/{mode}",
                                  f"{label} form={form} absolute_value={absv}: returned {val!r}, maximum over all {len(means)} matchings of the mean product of cosines is {best!r} (returned permutation {p})")
                att = REF.matching_mean(C, p)
                if not att >= best - TOL:
                    ctx.violation(f"congruence_coefficient/permutation-not-attaining/{mode}",
                                  f"{label} form={form} absolute_value={absv}: returned permutation {p} has mean {att!r} < maximum {best!r}")
                if absv and not (-TOL <= val <= 1 + TOL):
                    ctx.violation(f"congruence_coefficient/out-of-range/{mode}", f"{label} form={form}: {val!r} not in [0, 1]")
                if equiv is not None and (absv or equiv["sigma_pos"]):
                    cls = equiv["cls"]
                    if not abs(val - 1.0) <= TOL:
                        ctx.violation(f"congruence_coefficient/equivalent-value-not-one/{cls}",
                                      f"{label} form={form} absolute_value={absv}: returned {val!r} for a permuted/rescaled copy, expected 1")
                    rec = all(C[i][p[i]] >= 1 - TOL for i in range(R)) and (not equiv["unique"] or p == equiv["expected"])
                    if not rec:
                        ctx.violation(f"congruence_coefficient/equivalent-permutation-not-recovering/{cls}",
                                      f"{label} form={form} absolute_value={absv}: returned permutation {p}; matrix2[:, perm] is not column-wise collinear with matrix1 (recovering permutation {equiv['expected']}, unique={equiv['unique']})")
            for other in results[1:]:
                if results[0][0] == "list" and (results[0][1] != other[1] or list(results[0][2]) != list(other[2])):
                    ctx.violation(f"congruence_coefficient/{other[0]}-vs-list-differ", f"{label}: {results}")
            if absv:
                out_best, out_means = best, means
        return out_best, out_means

    def _check_corrindex(self, ctx, A, B, label, equiv_cls=None, nonequiv=None):
        """equiv_cls: scaling class if (A, B) are equivalent; nonequiv: dict method -> bool (macroscopically non-equivalent)."""
        from tensorly.metrics import correlation_index

        for method in METHODS:
            ctx.count("calls:correlation_index")
            try:
                sc = correlation_index(list(A), list(B), method=method)
                sc = float(sc)
            except Exception as e:
                ctx.violation(f"correlation_index/{method}/raises", f"{label}: {type(e).__name__}: {e}")
                continue
            try:  # the same factor sets handed over as tuples
                sc_t = float(correlation_index(tuple(A), tuple(B), method=method))
                if sc_t != sc:
                    ctx.violation(f"correlation_index/{method}/tuple-vs-list-differ", f"{label}: list {sc!r} tuple {sc_t!r}")
            except Exception as e:
                ctx.violation(f"correlation_index/{method}/raises-on-tuples", f"{label}: {type(e).__name__}: {e}")
            if not (-TOL <= sc <= 1 + TOL):
                ctx.violation(f"correlation_index/{method}/out-of-range", f"{label}: {sc!r} not in [0, 1]")
            if equiv_cls is not None:
                if not sc <= TOL:
                    ctx.violation(f"correlation_index/{method}/nonzero-on-equivalent/{equiv_cls}",
                                  f"{label}: correlation_index(method={method!r}) = {sc!r} for a column-permuted / column-rescaled copy, expected 0")
                elif sc != 0:
                    ctx.count("corrindex_tiny_nonzero")
            if nonequiv is not None and nonequiv.get(method) and not sc > 0:
                ctx.violation(f"correlation_index/{method}/zero-on-nonequivalent",
                              f"{label}: correlation_index(method={method!r}) = {sc!r} although every mode has a column without collinear partner")

    # ------------------------------------------------------------------ kind: equiv
    def _run_equiv(self, case, ctx):
        R, prof, pi, s = case["R"], tuple(case["prof"]), case["pi"], case["s"]
        n = len(prof)
        A, c0, unique = base_set(case["table"], prof, R, case["off"])
        S = spread(s, case["pat"], n)
        cls = scaling_class(S)
        B = [np.ascontiguousarray(A[k][:, pi] * np.array(S[k])) for k in range(n)]
        expected = [pi.index(i) for i in range(R)]  # B[:, expected[i]] is collinear with A[:, i]
        sigma = [math.prod(1.0 if S[k][j] > 0 else -1.0 for k in range(n)) for j in range(R)]
        sigma_pos = all(x > 0 for x in sigma)
        C_by_abs = {}
        for absv in (True, False):
            C = [[1.0] * R for _ in range(R)]
            for k in range(n):
                for i in range(R):
                    for j in range(R):
                        c = c0[k][i][pi[j]]
                        C[i][j] *= abs(c) if absv else c * (1.0 if S[k][j] > 0 else -1.0)
            C_by_abs[absv] = C
        label = f"A=table({case['table']},rows={list(prof)},R={R},off={case['off']}) B_k=A_k[:, {pi}]*{S}"
        if pi != sorted(pi) or any(x != 1.0 for x in s):
            ctx.nontriv()
        ctx.outcome(f"equiv:{cls}:{'unique' if unique else 'ambiguous'}:{'sign+' if sigma_pos else 'sign-'}")
        if not unique:
            ctx.count("equiv_base_with_collinear_columns")
        self._check_congruence(ctx, A, B, C_by_abs, R, label,
                               equiv={"cls": cls, "unique": unique, "expected": expected, "sigma_pos": sigma_pos})
        self._check_corrindex(ctx, A, B, label, equiv_cls=cls)
        if not ctx.samples and R >= 3 and n >= 2 and pi != sorted(pi) and cls != "permuted-only":
            ctx.sample({"case": case, "A": [a.tolist() for a in A], "B": [x.tolist() for x in B], "expected_perm": expected})

    # ------------------------------------------------------------------ kind: pair
    def _run_pair(self, case, ctx):
        R, prof = case["R"], tuple(case["prof"])
        n = len(prof)
        A, _, _ = base_set(case["table"], prof, R, case["offa"])
        ob = case["offb"]
        if case["family"] == "indep":
            B = [table_matrix(case["table"], (rows, R), ob * 7 + k) for k, rows in enumerate(prof)]
        else:
            perms = list(itertools.permutations(range(R)))
            pb = list(perms[(ob * 5 + 1) % len(perms)])
            sb = np.array([1.0 if (j + ob) % 2 else -1.0 for j in range(R)])
            B = []
            for k, rows in enumerate(prof):
                E = table_matrix(case["table"], (rows, R), ob * 7 + k + 3)
                bk = A[k][:, pb] * sb + 0.25 * E
                # keep columns non-zero (deterministic repair, never triggered for the generic table)
                for j in range(R):
                    if not np.any(bk[:, j]):
                        bk[0, j] = 1.0
                B.append(bk)
        if case.get("zero_rows"):
            A, B = [np.array(a, copy=True) for a in A], [np.array(x, copy=True) for x in B]
            for M, r in [(a, 0) for a in A] + [(x, -1) for x in B]:
                if M.shape[0] >= 2:
                    M[r, :] = 0.0
                    for j in range(M.shape[1]):
                        if not np.any(M[:, j]):
                            M[0 if r == -1 else 1, j] = 1.0
        cos = [REF.cos_matrix(A[k], B[k]) for k in range(n)]
        C_by_abs = {True: REF.product_matrix(cos, True), False: REF.product_matrix(cos, False)}
        label = f"A={[a.tolist() for a in A]} B={[x.tolist() for x in B]}"
        if R >= 2:
            ctx.nontriv()
        best, means = self._check_congruence(ctx, A, B, C_by_abs, R, label)
        nopt = REF.count_optimal(means, best)
        g = REF.greedy_mean(C_by_abs[True])
        ctx.outcome("pair:" + ("single-matching" if R == 1 else "tie-for-optimum" if nopt > 1 else
                               "optimum-beats-greedy" if g < best - 1e-9 else "optimum-is-greedy"))
        # macroscopic non-equivalence per mode / stacked
        def noneq(c):
            r = len(c)
            return (any(max(abs(c[i][j]) for j in range(r)) < 1 - 1e-6 for i in range(r))
                    or any(max(abs(c[i][j]) for i in range(r)) < 1 - 1e-6 for j in range(r)))

        per_mode = [noneq(c) for c in cos]
        # demanded only when EVERY mode is non-equivalent: then every method (min_score included, and 'stacked' however the
        # blocks are weighted, since collinear stacked columns are collinear block by block) must report a positive score
        # ... and when only SOME modes are equivalent: 'min_score' may be 0, but 'max_score', 'avg_score' (a maximum / mean of per-mode
        # scores of which one is positive) and 'stacked' (a stacked column has a collinear partner only if every block has) are positive
        nonequiv = {m: (all(per_mode) if m == "min_score" else any(per_mode)) for m in METHODS}
        if not all(per_mode):
            ctx.count("pair-has-equivalent-mode:min_score-not-demanded")
        self._check_corrindex(ctx, A, B, label, nonequiv=nonequiv)
        if len(ctx.samples) < 2 and R >= 3 and n >= 2:
            ctx.sample({"case": case, "best": best, "n_matchings": len(means), "greedy": g})

    # ------------------------------------------------------------------ kind: cpperm
    def _run_cpperm(self, case, ctx):
        from tensorly.cp_tensor import CPTensor, cp_permute_factors

        R, prof = case["R"], tuple(case["prof"])
        n = len(prof)
        A, c0, unique = base_set(case["table"], prof, R, case["off"])
        w = V.ints((R,), case["off"] + 40, 3, nonzero=True)
        tens, kinds = [], []
        nontriv = False
        for e in case["elems"]:
            if e["t"] == "equiv":
                pi = e["pi"]
                S = spread(e["s"], e["pat"], n)
                fs = [np.ascontiguousarray(A[k][:, pi] * np.array(S[k])) for k in range(n)]
                ws = w[pi].copy()
                kinds.append("equivalent")
                nontriv = nontriv or pi != sorted(pi) or any(x != 1.0 for x in e["s"])
            else:
                fs = [table_matrix(case["table"], (rows, R), e["offb"] * 7 + k) for k, rows in enumerate(prof)]
                ws = V.ints((R,), e["offb"] + 41, 3, nonzero=True)
                kinds.append("generic")
                nontriv = True
            tens.append((ws, fs))
        if nontriv:
            ctx.nontriv()
        form = case["form"]
        L = len(tens)
        ftag = form if form == "single" else "list"
        ref = CPTensor((w.copy(), [a.copy() for a in A]))
        args = [CPTensor((ws.copy(), [f.copy() for f in fs])) for ws, fs in tens]
        label = f"ref=(w={w.tolist()}, table({case['table']},rows={list(prof)},R={R},off={case['off']})) elems={case['elems']}"
        ctx.count("calls:cp_permute_factors")
        try:
            out, perms = cp_permute_factors(ref, args[0] if form == "single" else args)
        except Exception as e:
            ctx.violation(f"cp_permute_factors/raises/{ftag}", f"{label}: {type(e).__name__}: {e}")
            return
        outs = out if isinstance(out, list) else [out]
        if len(outs) != L or len(perms) != L:
            ctx.violation(f"cp_permute_factors/wrong-number-of-results/{ftag}", f"{label}: {len(outs)} tensors, {len(perms)} permutations for {L} inputs")
            return
        ok_all = True
        for i in range(L):
            ws, fs = tens[i]
            p = is_perm(np.asarray(perms[i]).tolist(), R)
            if p is None:
                ctx.violation(f"cp_permute_factors/permutation-invalid/{ftag}", f"{label}: permutation[{i}] = {perms[i]!r}")
                ok_all = False
            try:
                ow, of = outs[i]
                of = [np.asarray(f) for f in of]
                ow = np.asarray(ow)
                shapes_ok = [f.shape for f in of] == [f.shape for f in fs] and ow.shape == (R,)
            except Exception:
                shapes_ok = False
            if not shapes_ok:
                ctx.violation(f"cp_permute_factors/output-malformed/{ftag}", f"{label}: output {i} is not a CP tensor of the input's shape")
                ok_all = False
                continue
            d_in = REF.cp_dense(ws, fs)
            d_out = REF.cp_dense(ow, of)
            scale = max(1.0, max(abs(x) for x in d_in))
            err = max(abs(x - y) for x, y in zip(d_in, d_out))
            if not err <= TOL * scale:
                ctx.violation(f"cp_permute_factors/dense-changed/{ftag}", f"{label}: permuted tensor {i} differs from its input by {err!r} (scale {scale})")
                ok_all = False
            C = REF.product_matrix([REF.cos_matrix(A[k], of[k]) for k in range(n)], True)
            best, means = REF.all_matchings(C)
            diag = REF.matching_mean(C, list(range(R)))
            if not diag >= best - TOL:
                ctx.violation(f"cp_permute_factors/not-aligned/{kinds[i]}-{ftag}",
                              f"{label}: after permutation tensor {i} has mean diagonal congruence {diag!r} with the reference, but the best matching has {best!r} (returned permutation {perms[i]!r})")
                ok_all = False
            elif kinds[i] == "equivalent" and not all(C[j][j] >= 1 - 1e-9 for j in range(R)):
                ctx.violation(f"cp_permute_factors/not-aligned/{kinds[i]}-{ftag}", f"{label}: components of tensor {i} not collinear with the reference after permutation: diag={[C[j][j] for j in range(R)]}")
                ok_all = False
            if p is not None and not all(np.array_equal(of[k], fs[k][:, p]) for k in range(n)):
                ctx.count("cpperm_returned_perm_not_the_applied_one")
        ctx.outcome(f"cpperm:{ftag}{L}:" + "+".join(sorted(set(kinds))) + (":ok" if ok_all else ":violation"))
        if not ctx.samples and R >= 3:
            ctx.sample({"case": case, "returned_permutations": [np.asarray(p).tolist() for p in perms]})

    # ------------------------------------------------------------------ kind: errmetric
    def _run_errmetric(self, case, ctx):
        from tensorly.metrics import regression as RG

        shape = tuple(case["shape"])
        nd = len(shape)
        size = int(np.prod(shape))
        if case["table"] == "generic":
            a = V.generic(shape, case["off"])
            b = a + 0.5 * V.generic(shape, case["off"] + 9)
        else:
            a = V.ints(shape, case["off"], 3)
            b = V.ints(shape, case["off"] + 9, 3)
        if case["dtype"] == "int64":
            a, b = a.astype(np.int64), b.astype(np.int64)
        if size >= 2:
            ctx.nontriv()
        av = {idx: float(a[idx]) for idx in np.ndindex(*shape)}
        bv = {idx: float(b[idx]) for idx in np.ndindex(*shape)}
        label = f"y_true={a.tolist()} y_pred={b.tolist()} dtype={case['dtype']}"

        axes_args = [None] + list(range(nd)) + list(range(-nd, 0))
        if nd >= 2:
            axes_args += [list(t) for t in itertools.combinations(range(nd), 2)]

        def axcls(ax):
            return "axis-none" if ax is None else "axis-tuple" if isinstance(ax, list) else "axis-int" if ax >= 0 else "axis-negative"

        def compare(name, ax, got, exp_list, kshape, alts=None, guard=None):
            got = np.asarray(got)
            if got.shape != tuple(kshape):
                ctx.violation(f"{name}/shape/{axcls(ax)}", f"{label} axis={ax}: result shape {got.shape}, expected {tuple(kshape)}")
                return
            flat = got.reshape(-1)
            for i, e in enumerate(exp_list):
                if guard is not None and not guard[i]:
                    ctx.count(f"guarded_out:{name}-degenerate-variance")
                    continue
                cands = [e] + ([alt[i] for alt in alts] if alts else [])
                g = float(flat[i])
                if not any(abs(g - c) <= TOL * max(1.0, abs(c)) for c in cands):
                    ctx.violation(f"{name}/value/{axcls(ax)}", f"{label} axis={ax}: entry {i} = {g!r}, definition gives {cands}")
                    return
            ctx.count(f"checked:{name}")

        def call(name, fn, *args, **kw):
            ctx.count(f"calls:{name}")
            try:
                return True, fn(*args, **kw)
            except Exception as e:
                return False, e

        for ax in axes_args:
            axes = REF.norm_axes(ax, nd)
            axarg = tuple(ax) if isinstance(ax, list) else ax
            ctx.outcome(f"errmetric:{axcls(ax)}")
            mse, ksh = REF.reduce_axes(shape, axes, lambda cells: REF.mean([(av[c] - bv[c]) ** 2 for c in cells]))
            ok, r = call("MSE", RG.MSE, a, b, axis=axarg)
            if ok:
                compare("MSE", ax, r, mse, ksh)
            else:
                ctx.violation(f"MSE/raises/{axcls(ax)}", f"{label} axis={ax}: {type(r).__name__}: {r}")
            ok, r = call("RMSE", RG.RMSE, a, b, axis=axarg)
            if ok:
                compare("RMSE", ax, r, [math.sqrt(x) for x in mse], ksh)
            else:
                ctx.violation(f"RMSE/raises/{axcls(ax)}", f"{label} axis={ax}: {type(r).__name__}: {r}")

            def stats(cells):
                ma, mb = REF.mean([av[c] for c in cells]), REF.mean([bv[c] for c in cells])
                m = len(cells)
                sab = math.fsum((av[c] - ma) * (bv[c] - mb) for c in cells)
                saa = math.fsum((av[c] - ma) ** 2 for c in cells)
                sbb = math.fsum((bv[c] - mb) ** 2 for c in cells)
                return (m, sab, saa, sbb)

            st, ksh = REF.reduce_axes(shape, axes, stats)
            scale2 = max(1.0, max(abs(x) for x in av.values()) ** 2)
            for name, fn, args, pick in (("covariance", RG.covariance, (a, b), 1), ("variance", RG.variance, (a,), 2),
                                         ("standard_deviation", RG.standard_deviation, (a,), 2)):
                ok, r = call(name, fn, *args, axis=axarg)
                if not ok:
                    if isinstance(ax, list):
                        ctx.count(f"guarded_out:{name}-tuple-axis-unsupported")
                    else:
                        ctx.violation(f"{name}/raises/{axcls(ax)}", f"{label} axis={ax}: {type(r).__name__}: {r}")
                    continue
                f = math.sqrt if name == "standard_deviation" else (lambda x: x)
                e0 = [f(t[pick] / t[0]) for t in st]
                e1 = [f(t[pick] / (t[0] - 1)) if t[0] >= 2 else float("nan") for t in st]
                compare(name, ax, r, e0, ksh, alts=[e1])
            ok, r = call("correlation", RG.correlation, a, b, axis=axarg)
            if not ok:
                if isinstance(ax, list):
                    ctx.count("guarded_out:correlation-tuple-axis-unsupported")
                else:
                    ctx.violation(f"correlation/raises/{axcls(ax)}", f"{label} axis={ax}: {type(r).__name__}: {r}")
            else:
                guard = [t[2] > 1e-6 * scale2 * t[0] and t[3] > 1e-6 * scale2 * t[0] for t in st]
                exp = [t[1] / math.sqrt(t[2] * t[3]) if g else float("nan") for t, g in zip(st, guard)]
                compare("correlation", ax, r, exp, ksh, guard=guard)
        # R2 (no axis argument)
        ss_res = math.fsum((bv[c] - av[c]) ** 2 for c in av)
        ss_unc = math.fsum(av[c] ** 2 for c in av)
        ma = REF.mean(list(av.values()))
        ss_cen = math.fsum((av[c] - ma) ** 2 for c in av)
        ok, r = call("R2_score", RG.R2_score, a, b)
        if ss_unc <= 1e-9:
            ctx.count("guarded_out:R2-zero-original")
        elif not ok:
            ctx.violation("R2_score/raises", f"{label}: {type(r).__name__}: {r}")
        else:
            cands = [1 - ss_res / ss_unc] + ([1 - ss_res / ss_cen] if ss_cen > 1e-9 else [])
            g = float(r)
            if not any(abs(g - c) <= TOL * max(1.0, abs(c)) for c in cands):
                ctx.violation("R2_score/value", f"{label}: R2_score = {g!r}, definitions give {cands}")
            else:
                ctx.count("checked:R2_score")
        if not ctx.samples and size >= 4:
            ctx.sample({"case": case, "MSE_axis_none": REF.mean([(av[c] - bv[c]) ** 2 for c in av])})

    # ------------------------------------------------------------------ kind: leverage
    def _run_leverage(self, case, ctx):
        from tensorly.metrics import leverage_score_dist

        m, n, r = case["m"], case["n"], case["r"]
        if case["variant"] == "zero":
            M = np.zeros((m, n))
        else:
            Lf = table_matrix(case["table"], (m, r), case["off"] * 7)
            Rf = table_matrix(case["table"], (r, n), case["off"] * 7 + 3)
            M = Lf @ Rf
            if case["variant"] == "near":
                M = M + 1e-13 * V.generic((m, n), case["off"] + 5)
        M = M.astype(case["dtype"])
        true_rank = int(np.linalg.matrix_rank(M.astype(np.float64), tol=1e-9)) if case["variant"] != "zero" else 0
        rcls = "zero" if true_rank == 0 else "full-rank" if true_rank == min(m, n) else "rank-deficient"
        if case["variant"] == "near" and rcls != "full-rank":
            rcls = "nearly-rank-deficient"
        cls = f"{rcls}-{case['dtype']}"
        label = f"matrix={M.tolist()} dtype={case['dtype']}"
        ctx.count("calls:leverage_score_dist")
        try:
            p = np.asarray(leverage_score_dist(M))
        except Exception as e:
            if rcls == "zero":
                ctx.count("guarded_out:leverage-zero-matrix-raises")
                ctx.outcome("leverage:zero-matrix-rejected")
            else:
                ctx.violation(f"leverage_score_dist/raises/{cls}", f"{label}: {type(e).__name__}: {e}")
            return
        if rcls == "zero":
            ctx.count("guarded_out:leverage-zero-matrix")
            ctx.outcome("leverage:zero-matrix-returned")
            return
        if min(m, n) >= 2 or rcls != "full-rank":
            ctx.nontriv()
        ctx.outcome(f"leverage:{cls}")
        if p.shape != (m,):
            ctx.violation(f"leverage_score_dist/shape/{cls}", f"{label}: result shape {p.shape}, expected ({m},)")
            return
        if not np.all(np.isfinite(p)) or not np.all(p >= 0):
            ctx.violation(f"leverage_score_dist/negative-or-nonfinite/{cls}", f"{label}: {p.tolist()}")
            return
        tot = math.fsum(float(x) for x in p)
        if not abs(tot - 1.0) <= TOL:
            ctx.violation(f"leverage_score_dist/sum-not-one/{cls}", f"{label}: scores {p.tolist()} sum to {tot!r}")
        if len(ctx.samples) < 1 and m >= 3 and rcls == "rank-deficient":
            ctx.sample({"case": case, "scores": p.tolist(), "sum": tot})


CHECK = C20()
