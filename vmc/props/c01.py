"""C01 — unfold / fold / partial_* / vectorise / matricize are exact index bijections.

Lattice (complete): shapes x operation parameters x dtypes x memory layouts.
Oracle: reference *permutation* computed with pure index arithmetic (python loops over
index tuples, no reshape/moveaxis), applied to the injective input values; bit-for-bit
comparison (bytes, dtype, shape), round trips, multiset preservation.
"""
import itertools

import numpy as np

from vmc.runner import Check

DTYPES = ["bool", "int8", "int32", "int64", "float32", "float64", "complex64", "complex128"]
LAYOUTS = ["C", "F", "rev", "slice"]


# "for all tensor orders": orders 6-10 with a reduced parameter menu (prefix / suffix / single / reversed row-mode lists); order >= 9
# is where containers that happen to iterate small integers in increasing order (sets of ints < 8) stop doing so
HIGH_ORDER = [(2,) * 6, (2, 1, 2, 3, 1, 2, 2), (2,) * 8, (2,) * 9, (1, 2, 2, 1, 2, 2, 2, 2, 2), (2,) * 10, (2, 1, 2, 2, 1, 2, 2, 2, 1, 2)]


def shapes_for(tier):
    out = []
    if tier == "quick":
        for n in range(1, 5):
            out += list(itertools.product((1, 2, 3), repeat=n))
        out += list(itertools.product((1, 2), repeat=5))
        out += HIGH_ORDER
    else:
        for n in range(1, 5):
            out += list(itertools.product((1, 2, 3, 4), repeat=n))
        out += list(itertools.product((1, 2, 3), repeat=5))
        out += HIGH_ORDER + [(2,) * 11, (1, 2, 2, 1, 2, 2, 2, 1, 2, 2, 2, 2)]
    return out


def lin_index(idx, shape):
    """C-order linear index of an index tuple (pure arithmetic)."""
    l = 0
    for i, s in zip(idx, shape):
        l = l * s + i
    return l


def all_indices(shape):
    """All index tuples of `shape` in C order (explicit odometer)."""
    if any(s == 0 for s in shape):
        return
    idx = [0] * len(shape)
    while True:
        yield tuple(idx)
        k = len(shape) - 1
        while k >= 0:
            idx[k] += 1
            if idx[k] < shape[k]:
                break
            idx[k] = 0
            k -= 1
        if k < 0:
            return


def ref_axes_perm(shape, groups):
    """Reference layout: output has one axis per entry of `groups`; an entry is a list of input
    modes that are merged (C order inside the group, in the listed order).  Returns
    (out_shape, perm) with perm[out_linear] = in_linear."""
    out_shape = []
    for g in groups:
        p = 1
        for m in g:
            p *= shape[m]
        out_shape.append(p)
    order = [m for g in groups for m in g]
    assert sorted(order) == list(range(len(shape)))
    perm = []
    sub_shape = [shape[m] for m in order]
    for sub in all_indices(sub_shape):  # C order over the concatenated (grouped) modes == C order of the output
        idx = [0] * len(shape)
        for m, i in zip(order, sub):
            idx[m] = i
        perm.append(lin_index(idx, shape))
    return tuple(out_shape), perm


def make_values(n, dtype, seed):
    lin = (np.arange(n) + seed) % max(n, 1)
    if dtype == "bool":
        return (((lin + 1) * 2654435761 >> 7) & 1).astype(bool)
    if dtype == "int8":
        return (lin - (128 if n > 127 else 0)).astype(np.int8) if n <= 256 else None
    if dtype in ("int32", "int64"):
        return (lin + 1).astype(dtype)
    if dtype in ("float32", "float64"):
        return (lin + 0.5).astype(dtype)
    return ((lin + 1) + 1j * (n - lin)).astype(dtype)


def make_layout(vals, shape, layout):
    """Array with logical content vals.reshape(shape) but the requested memory layout."""
    base = vals.reshape(shape)
    if layout == "C":
        return np.ascontiguousarray(base)
    if layout == "F":
        return np.asfortranarray(base)
    if layout == "rev":  # negative strides on every axis
        rev = np.ascontiguousarray(base[tuple(slice(None, None, -1) for _ in shape)])
        return rev[tuple(slice(None, None, -1) for _ in shape)]
    if layout == "slice":  # strided view into a larger buffer
        big = np.zeros(tuple(2 * s + 1 for s in shape), dtype=vals.dtype)
        sl = tuple(slice(1, 2 * s + 1, 2) for s in shape)
        big[sl] = base
        return big[sl]
    raise ValueError(layout)


def same_bits(a, b):
    a = np.asarray(a)
    b = np.asarray(b)
    return a.dtype == b.dtype and a.shape == b.shape and np.ascontiguousarray(a).tobytes() == np.ascontiguousarray(b).tobytes()


def ordered_subsets(n, kmin=1):
    for k in range(kmin, n + 1):
        yield from itertools.permutations(range(n), k)


class C01(Check):
    pid = "C01"
    level = "exploration"
    design_ref = "DESIGN.md §4 C01"
    rule = ("complete product: shape (order 1-5, small dims incl. size-1 modes; orders 6-10 [12 thorough] with a reduced menu of mode lists) x operation parameters (every mode; every "
            "skip_begin/skip_end/ravel; every ordered row_modes x {None, every ordering of the complement}; ill-formed mode "
            "sets) x 8 dtypes x 4 memory layouts; a case is (shape, op, params, dtype, layout); non-trivial iff the tensor has "
            ">=2 entries and the reference permutation is not the identity (or the call must raise)")
    assumptions = ["reference permutation computed by explicit index arithmetic (vmc/props/c01.py: ref_axes_perm)",
                   "numpy ndarray.tobytes() and dtype/shape attributes are trusted"]

    def groups(self, tier, seed):
        return [{"shape": list(s)} for s in shapes_for(tier)]

    def cases(self, group, tier, seed):
        shape = tuple(group["shape"])
        n = len(shape)
        for mode in range(-n, n):
            yield {"op": "unfold", "shape": shape, "mode": mode, "seed": seed}
        yield {"op": "vec", "shape": shape, "seed": seed}
        if n >= 6:
            for sb, se in ((0, 0), (1, 0), (0, 1), (1, 1), (2, 0), (n - 2, 1), (3, n - 4)):
                mid = n - sb - se
                if mid < 1:
                    continue
                for mode in range(mid):
                    yield {"op": "partial_unfold", "shape": shape, "mode": mode, "sb": sb, "se": se, "ravel": bool(mode % 2), "seed": seed}
                yield {"op": "partial_vec", "shape": shape, "sb": sb, "se": se, "seed": seed}
            row_lists = [list(range(k)) for k in range(1, n + 1)] + [list(range(k, n)) for k in range(1, n)] + [[m] for m in range(n)]
            row_lists += [list(reversed(range(k))) for k in range(2, n)] + [[0, n - 1], [n - 1, 0], [1, 3, 5], [n - 2, 2]]
            for rows in row_lists:
                yield {"op": "matricize", "shape": shape, "rows": rows, "cols": None, "seed": seed}
                rest = [m for m in range(n) if m not in rows]
                if rest:
                    yield {"op": "matricize", "shape": shape, "rows": rows, "cols": list(reversed(rest)), "seed": seed}
            for m in range(n):
                yield {"op": "matricize", "shape": shape, "rows": m, "cols": None, "seed": seed}
            return
        for sb in range(0, n):
            for se in range(0, n - sb):
                mid = n - sb - se
                if mid < 1:
                    continue
                for mode in range(mid):
                    for ravel in (False, True):
                        yield {"op": "partial_unfold", "shape": shape, "mode": mode, "sb": sb, "se": se, "ravel": ravel, "seed": seed}
                yield {"op": "partial_vec", "shape": shape, "sb": sb, "se": se, "seed": seed}
        full_cols = n <= 4 or tier == "thorough"
        for rows in ordered_subsets(n):
            yield {"op": "matricize", "shape": shape, "rows": list(rows), "cols": None, "seed": seed}
            rest = [m for m in range(n) if m not in rows]
            if full_cols or len(rows) <= 2:
                for cols in itertools.permutations(rest):
                    yield {"op": "matricize", "shape": shape, "rows": list(rows), "cols": list(cols), "seed": seed}
        for m in range(n):
            yield {"op": "matricize", "shape": shape, "rows": m, "cols": None, "seed": seed}
        if n <= 3:
            for rows in ordered_subsets(n):
                for cols in ordered_subsets(n, 0):
                    if sorted(list(rows) + list(cols)) != list(range(n)):
                        yield {"op": "matricize_bad", "shape": shape, "rows": list(rows), "cols": list(cols), "seed": seed}

    # ------------------------------------------------------------------------------
    def run_case(self, case, ctx):
        import tensorly as tl
        from tensorly import base as B

        shape = tuple(case["shape"])
        n = len(shape)
        size = int(np.prod(shape))
        op = case["op"]
        seed = case.get("seed", 0)

        if op == "unfold":
            m = case["mode"] % n  # negative modes count from the end (Python / NumPy axis convention, honoured by unfold and fold)
            groups = [[m], [k for k in range(n) if k != m]]
        elif op == "vec":
            groups = [list(range(n))]
        elif op in ("partial_unfold", "partial_vec"):
            sb, se = case["sb"], case["se"]
            mode = case.get("mode", 0)
            ravel = case.get("ravel", True)
            mid = list(range(sb, n - se))
            mm = sb + mode
            rest = [k for k in mid if k != mm]
            groups = [[k] for k in range(sb)]
            groups += [[mm] + rest] if ravel else [[mm], rest]
            groups += [[k] for k in range(n - se, n)]
        elif op == "matricize":
            rows = case["rows"]
            rl = [rows] if isinstance(rows, int) else list(rows)
            cols = case["cols"]
            cl = [k for k in range(n) if k not in rl] if cols is None else list(cols)
            groups = [rl, cl]
        elif op == "matricize_bad":
            groups = None
        else:
            raise ValueError(op)

        if groups is not None:
            out_shape, perm = ref_axes_perm(shape, groups)
            identity = perm == list(range(size))
        else:
            out_shape, perm, identity = None, None, False

        ctx.outcome(op + (":identity" if identity else ":permuting") if groups is not None else op)
        # the `shape` argument of the fold functions is handed over as ONE caller-owned list object, reused by every call of this
        # case (a fold that edits it in place corrupts the following calls); tuples are used for odd seeds
        shape_arg = list(shape) if seed % 2 == 0 else tuple(shape)

        for dtype in DTYPES:
            vals = make_values(size, dtype, seed)
            if vals is None:
                ctx.count("skipped_int8_too_large")
                continue
            for layout in LAYOUTS:
                x = make_layout(vals, shape, layout)
                before = np.ascontiguousarray(x).tobytes()
                key = [op, list(shape), {k: v for k, v in case.items() if k not in ("shape", "op", "seed")}, dtype, layout]
                ctx.count("calls")
                ctx.evaluations += 1
                tag = f"{dtype}/{layout}"
                if op == "matricize_bad":
                    try:
                        B.matricize(x, case["rows"], case["cols"])
                    except ValueError:
                        ctx.nontriv(key)
                        continue
                    except Exception as e:  # other exception types also count as rejection
                        ctx.nontriv(key)
                        ctx.count("bad_modes_rejected_with_" + type(e).__name__)
                        continue
                    ctx.violation("matricize/illformed-modes-accepted", f"rows={case['rows']} cols={case['cols']} shape={shape} {tag}: no error")
                    continue
                expected = vals[np.array(perm, dtype=np.int64)].reshape(out_shape) if size else vals.reshape(out_shape)
                try:
                    if op == "unfold":
                        y = B.unfold(x, case["mode"])
                        back = B.fold(y, case["mode"], shape_arg)
                    elif op == "vec":
                        y = B.tensor_to_vec(x)
                        back = B.vec_to_tensor(y, shape_arg)
                    elif op == "partial_unfold":
                        y = B.partial_unfold(x, case["mode"], case["sb"], case["se"], case["ravel"])
                        back = None
                        if not case["ravel"]:
                            back = B.partial_fold(y, case["mode"], shape_arg, case["sb"], case["se"])
                    elif op == "partial_vec":
                        y = B.partial_tensor_to_vec(x, case["sb"], case["se"])
                        back = B.partial_vec_to_tensor(y, shape_arg, case["sb"], case["se"])
                    elif op == "matricize":
                        y = B.matricize(x, case["rows"], case["cols"])
                        back = None
                except Exception as e:
                    ctx.violation(f"{op}/raises", f"{case} {tag}: {type(e).__name__}: {e}")
                    continue
                if size >= 2 and not identity:
                    ctx.nontriv(key)
                y = np.asarray(y)
                if y.dtype != vals.dtype:
                    ctx.violation(f"{op}/dtype-changed", f"{case} {tag}: {vals.dtype} -> {y.dtype}")
                elif y.shape != tuple(out_shape):
                    ctx.violation(f"{op}/shape", f"{case} {tag}: got {y.shape} expected {out_shape}")
                elif not same_bits(y, expected):
                    ctx.violation(f"{op}/layout", f"{case} {tag}: got {y.tolist()} expected {expected.tolist()}")
                if back is not None:
                    if list(shape_arg) != list(shape):
                        ctx.violation(f"{op}/shape-argument-modified", f"{case} {tag}: the caller's shape list {list(shape)} became {list(shape_arg)}")
                        shape_arg = list(shape)
                    if not same_bits(back, vals.reshape(shape)):
                        ctx.violation(f"{op}/roundtrip", f"{case} {tag}: fold(unfold(x)) != x: {np.asarray(back).tolist()}")
                    # the fold functions alone, applied to the *reference* unfolding
                    try:
                        if op == "unfold":
                            b2 = B.fold(make_layout(expected.ravel(), out_shape, layout), case["mode"], shape)
                        elif op == "partial_unfold":
                            b2 = B.partial_fold(make_layout(expected.ravel(), out_shape, layout), case["mode"], shape, case["sb"], case["se"])
                        elif op == "partial_vec":
                            b2 = B.partial_vec_to_tensor(make_layout(expected.ravel(), out_shape, layout), shape, case["sb"], case["se"])
                        else:
                            b2 = B.vec_to_tensor(make_layout(expected.ravel(), out_shape, layout), shape)
                        if not same_bits(b2, vals.reshape(shape)):
                            ctx.violation(f"{op}/fold-of-reference", f"{case} {tag}: fold(reference unfolding) != x")
                    except Exception as e:
                        ctx.violation(f"{op}/fold-raises", f"{case} {tag}: {type(e).__name__}: {e}")
                if np.ascontiguousarray(x).tobytes() != before:
                    ctx.violation(f"{op}/input-mutated", f"{case} {tag}")
        ctx.evaluations -= 1  # begin() counted the case itself once
        if not ctx.samples:
            ctx.sample({"case": case, "out_shape": out_shape, "perm_head": None if perm is None else perm[:8]})


CHECK = C01()
