"""C03 -- factorised tensors reconstruct to their defining contraction; all views agree.

Lattice (complete, per family): every factor-set *structure* (order, mode sizes, ranks, weights kind, options)
within the tier's bound x {core, einsum} tenalg backend x {plain tuple/list, wrapper object} input.

Oracle: the dense tensor is recomputed from the stored factors by the loop-level reference models of
vmc/ref/core.py and vmc/ref/c03_ref.py (explicit sum of outer products / chain contraction / zero-padded
slices) on small integers (Gaussian integers for the complex CP class), so float64 arithmetic is exact and
values are compared with ``==`` and exact shape.  Unfolded / vectorised / matrix / slice views are compared
with the reference layouts of that dense tensor; ``.shape`` / ``.rank`` with the structure the factors were
built from; factor-based norms with sqrt(exact integer sum of squares) (ladder 1e-12).

Rejection sub-lattice: every valid factor set is perturbed in each structural way; the validating entry
points must raise.
"""
import itertools
import math

import numpy as np

from vmc import values as V
from vmc.ref import c03_ref as R3
from vmc.ref import core as R
from vmc.runner import Check, HarnessError

BACKENDS = ["core", "einsum"]
MS_PER_CASE = {"cp": 20.0, "tucker": 13.0, "tt": 4.0, "tr": 3.5, "ttm": 8.0, "pf2": 7.0}  # measured; only sizes the groups
FAMILIES = ["cp", "tucker", "tt", "tr", "ttm", "pf2"]
USES_TENALG = {"cp", "tucker", "ttm"}  # families whose conversion goes through the dispatched tenalg functions
NORM_RTOL = 1e-12


# ------------------------------------------------------------------------------------------ lattices
def _prod(alpha, n):
    return [list(t) for t in itertools.product(alpha, repeat=n)]


def structures(fam, tier):
    """Complete, deterministic list of structures of a family (simplest first)."""
    q = tier == "quick"
    out = []
    if fam == "cp":
        shapes = []
        for n in range(1, 5):
            shapes += _prod((1, 2, 3), n)
        ranks = (1, 2, 3)
        for n in range(1, 4 if q else 5):
            shapes += [s for s in _prod((1, 2, 3, 4), n) if 4 in s]
        if not q:
            shapes += _prod((1, 2, 3), 5)
            ranks = (1, 2, 3, 4)
        for shape in shapes:
            for rk in ranks:
                for w in ("none", "ones", "signed"):
                    out.append({"fam": "cp", "shape": shape, "R": rk, "w": w})
    elif fam == "tucker":
        for n in (2, 3):
            for shape in _prod((1, 2, 3), n):
                for ranks in _prod((1, 2, 3), n):
                    out.append({"fam": "tucker", "shape": shape, "ranks": ranks})
        for shape in _prod((1, 2, 3), 4):
            for ranks in _prod((1, 2, 3), 4):
                out.append({"fam": "tucker", "shape": shape, "ranks": ranks})
        if not q:
            for shape in _prod((1, 2), 5):
                for ranks in _prod((1, 2), 5):
                    out.append({"fam": "tucker", "shape": shape, "ranks": ranks})
    elif fam == "tt":
        for n in range(1, 5):
            for shape in _prod((1, 2, 3), n):
                for inner in _prod((1, 2, 3), n - 1):
                    out.append({"fam": "tt", "shape": shape, "ranks": [1] + inner + [1]})
        if not q:
            for n in range(1, 5):
                for shape in _prod((1, 2, 3, 4), n):
                    for inner in _prod((1, 2, 3, 4), n - 1):
                        if 4 in shape or 4 in inner:
                            out.append({"fam": "tt", "shape": shape, "ranks": [1] + inner + [1]})
            for shape in _prod((1, 2, 3), 5):
                for inner in _prod((1, 2, 3), 4):
                    out.append({"fam": "tt", "shape": shape, "ranks": [1] + inner + [1]})
    elif fam == "tr":
        for n in (2, 3):
            for shape in _prod((1, 2, 3), n):
                for rk in _prod((1, 2, 3), n):
                    out.append({"fam": "tr", "shape": shape, "ranks": rk + [rk[0]]})
        for shape in _prod((1, 2, 3), 4):
            for rk in _prod((1, 2, 3), 4):
                out.append({"fam": "tr", "shape": shape, "ranks": rk + [rk[0]]})
        if not q:
            for shape in _prod((1, 2), 5):
                for rk in _prod((1, 2, 3), 5):
                    out.append({"fam": "tr", "shape": shape, "ranks": rk + [rk[0]]})
    elif fam == "ttm":
        def add(d, sizes, rks, need=None):
            for ins in _prod(sizes, d):
                for outs in _prod(sizes, d):
                    if need is not None and need not in ins + outs:
                        continue
                    for inner in _prod(rks, d - 1):
                        out.append({"fam": "ttm", "ins": ins, "outs": outs, "ranks": [1] + inner + [1]})
        add(1, (1, 2, 3), (1, 2, 3))
        add(2, (1, 2, 3), (1, 2, 3))
        if q:
            add(3, (1, 2), (1, 2, 3))
            add(3, (1, 3), (2,), need=3)
        else:
            add(3, (1, 2, 3), (1, 2, 3))
            add(4, (1, 2), (1, 2, 3))
    elif fam == "pf2":
        hs = (1, 2, 3) if q else (1, 2, 3, 4)
        rks = (1, 2) if q else (1, 2, 3)
        for rk in rks:
            for I in (1, 2, 3):
                for heights in _prod([h for h in hs if h >= rk], I):
                    nvar = max(len(R3.signed_selections(h, rk)) for h in heights)
                    for K in (1, 2, 3):
                        for w in ("none", "signed"):
                            for pv in range(nvar):
                                out.append({"fam": "pf2", "heights": heights, "K": K, "R": rk, "w": w, "pv": pv})
                                if pv == 0 and I >= 2:
                                    # factors of different kinds: real A / B / projections with a complex C (the result must be complex)
                                    out.append({"fam": "pf2", "heights": heights, "K": K, "R": rk, "w": w, "pv": pv, "mixed": "complex-C"})
    else:
        raise HarnessError(fam)
    return out


# ------------------------------------------------------------------------------------------ helpers
def _weights(kind, rk, off):
    if kind == "none":
        return None
    if kind == "ones":
        return np.ones(rk)
    return np.array([(-1.0) ** (r + off) * (2 + (r + off) % 3) for r in range(rk)])


def _masks(shape, off):
    """0/1 mask patterns of the full tensor shape: checkerboard, its complement, a table pattern."""
    idx = np.indices(shape).sum(axis=0) if len(shape) else np.zeros(())
    chk = ((idx + off) % 2).astype(float)
    tab = (V.posints(shape, off + 3, k=3) > 1).astype(float)
    # ... and a weighting mask (entries other than 0/1: "applied entrywise" means multiplied once)
    return [("checker", chk), ("antichecker", 1.0 - chk), ("table", tab), ("weighting", V.ints(shape, off + 5, 2).astype(float))]


def _ob(n):
    return f"order{n}" if n <= 2 else "order3+"


def _fmt(arrs):
    def one(a):
        if a is None:
            return "None"
        if isinstance(a, (list, tuple)):
            return "[" + ", ".join(one(x) for x in a) + "]"
        a = np.asarray(a)
        return f"array({a.tolist()})"
    return one(arrs)


def _copy(x):
    if x is None:
        return None
    if isinstance(x, (list, tuple)):
        return type(x)(_copy(e) for e in x)
    return np.array(x, copy=True)


class _K:
    """Comparison helper bound to one case (collects calls, reports violations with stable signatures)."""

    def __init__(self, ctx, cls, inputs):
        self.ctx, self.cls, self.inputs = ctx, cls, inputs
        self.tag = ""   # "[einsum]" prefix for tenalg-dependent families
        self.bad = 0
        self.ncalls = 0
        self.seen = set()

    def _viol(self, callsite, aspect, msg, cls=None):
        """callsite: "name(form)" or (displayed name, base function); cls: class or (displayed class, base class).
        The same defect shows up under the variants of one call that share inputs AND reference: tenalg backend and
        tuple / wrapper-argument / wrapper-method form.  Within a case only the FIRST failing such variant (fixed order:
        core before einsum, tuple before wrapper) of a (base function, aspect, class) is reported, so one defect maps to
        one signature.  Variants with a different reference (complex values, mask, skip_factor, transpose_factors) are
        never merged: whether they fail alone would depend on the values, and signatures must not."""
        disp, base = callsite if isinstance(callsite, tuple) else (callsite, callsite.split("(")[0])
        dcls = cls[0] if isinstance(cls, tuple) else (cls or self.cls)
        self.bad += 1
        if (base, aspect, dcls) in self.seen:
            self.ctx.count("violating_calls_other_variant_of_reported_defect")
            return
        self.seen.add((base, aspect, dcls))
        self.ctx.violation(f"{self.tag}{disp}/{aspect}/{dcls}", f"{self.tag}{disp}: {msg}; input={self.inputs}")

    def call(self, callsite, fn, cls=None):
        self.ctx.count("calls")
        self.ncalls += 1
        try:
            return True, fn()
        except Exception as e:  # the statement demands the conversion of a valid factor set to succeed
            self._viol(callsite, f"raises:{type(e).__name__}", f"raised {type(e).__name__}: {str(e)[:200]}", cls)
            return False, None

    def array(self, callsite, fn, ref, cls=None, alt=None):
        """fn() must equal reference tensor `ref` exactly.  alt = (aspect, RT): a recognisable wrong answer."""
        ok, got = self.call(callsite, fn, cls)
        if not ok:
            return
        try:
            got = np.asarray(got)
        except Exception:
            self._viol(callsite, "not-an-array", f"returned {type(got).__name__}", cls)
            return
        if tuple(got.shape) != ref.shape:
            self._viol(callsite, "shape", f"got shape {tuple(got.shape)} expected {ref.shape}", cls)
        elif got.dtype.kind not in "fciu" or not R.eq_np(ref, got):
            aspect = "value"
            if alt is not None and R.eq_np(alt[1], got):
                aspect = alt[0]
            self._viol(callsite, aspect, f"got {got.tolist()} expected {ref.to_np().tolist()}", cls)

    def norm(self, callsite, fn, sq, cls=None):
        ok, got = self.call(callsite, fn, cls)
        if not ok:
            return
        exp = math.sqrt(sq)
        try:
            g = complex(np.asarray(got).reshape(-1)[0]) if np.asarray(got).size == 1 else None
        except Exception:
            g = None
        if g is None or not (abs(g - exp) <= NORM_RTOL * max(1.0, exp)):
            self._viol(callsite, "norm", f"got {got!r} expected sqrt({sq}) = {exp!r}", cls)

    def attr(self, callsite, fn, expected, cls=None):
        ok, got = self.call(callsite, fn, cls)
        if not ok:
            return
        if _norm_sr(got) != _norm_sr(expected):
            self._viol(callsite, "mismatch", f"got {got!r} expected {expected!r}", cls)


def _norm_sr(x):
    """shape / rank values as nested tuples of ints (types are not demanded)."""
    if isinstance(x, (list, tuple)):
        return tuple(_norm_sr(e) for e in x)
    try:
        return int(x)
    except Exception:
        return repr(x)


def _views(k, names, dense, tensor_fn, unfold_fn, vec_fn, cls=None):
    """names = (callsite of the dense conversion, of the unfolding, of the vectorisation)."""
    k.array(names[0], tensor_fn, dense, cls)
    for m in range(dense.ndim):
        k.array(names[1], (lambda m=m: unfold_fn(m)), R.unfold(dense, m), cls)
    k.array(names[2], vec_fn, R.vec(dense), cls)


def _reject(ctx, k, callsite, kind, fn, convert=None, strict=True, bad=None):
    """fn() is a validating entry point applied to a structurally invalid factor set: it must raise.
    Non-strict kinds (not in the design's list) only demand an error before a dense result exists."""
    ctx.count("reject_checks")
    k.ncalls += 1
    ctx.nontriv([ctx._case, callsite, kind])
    try:
        obj = fn()
    except Exception as e:
        ctx.outcome("reject:raised:" + type(e).__name__)
        return
    after = "no conversion attempted"
    silent = convert is None
    if convert is not None:
        try:
            res = convert(obj)
            after = f"conversion then returned an array of shape {tuple(np.asarray(res).shape)}"
            silent = True
        except Exception as e:
            after = f"conversion then raised {type(e).__name__}: {str(e)[:120]}"
    if not strict and not silent:
        ctx.outcome("reject:late-error")
        ctx.count("late_rejection:" + kind)
        return
    ctx.outcome("reject:accepted")
    aspect = "invalid-accepted:reconstructs" if (silent and convert is not None) else "invalid-accepted"
    k._viol(callsite, aspect, f"structurally invalid factor set ({kind}) accepted without error; {after}; invalid set={_fmt(bad)} "
            f"(perturbed from the valid input that follows)", cls=kind)


# ------------------------------------------------------------------------------------------ the check
class C03(Check):
    pid = "C03"
    level = "exploration"
    design_ref = "DESIGN.md §4 C03"
    rule = ("complete product per family. quick: CP order 1-4 dims {1,2,3} (+ size 4 up to order 3), R 1-3, weights none/ones/signed, "
            "integer and Gaussian-integer factors, no mask + 3 full-shape 0/1 masks; Tucker order 2-4, every dims x core-size vector over "
            "{1,2,3}, skip_factor none/each, transpose_factors F/T; TT order 1-4 and TR order 2-4, dims {1,2,3}, every (cyclic) rank vector "
            "over {1,2,3}; TT-matrix 1-3 cores, every in/out/rank vector ({1,2,3} for <= 2 cores, {1,2} (+ some 3) for 3); PARAFAC2 1-3 "
            "slices, every height tuple over {1,2,3} (even and uneven), K 1-3, R 1-2, weights none/signed, every signed-selection "
            "projection variant. thorough adds CP order 5 / rank 4 / size 4, Tucker order 5, TT order 5 and size/rank 4, TR order 5, "
            "TT-matrix 3 cores over {1,2,3} and 4 cores, PARAFAC2 heights <= 4 and R 3. Every structure x {core,einsum} x {tuple/list, "
            "wrapper object} x every view (dense, each unfolding mode, vec, matrix, slice(s), shape, rank, norm); plus every single "
            "structural perturbation of each structure x every validating entry point (rejection sub-lattice). A case is one "
            "structure; it is non-trivial iff its reference dense tensor has >= 2 entries and is not identically zero; each "
            "(structure, entry point, perturbation) of the rejection sub-lattice is non-trivial (the call must raise). evaluations = "
            "library calls compared with the oracle")
    assumptions = [
        "reference contractions: explicit python loops in vmc/ref/core.py (cp_dense, tucker via mode_dot, tt_dense, tr_dense, unfold, vec) "
        "and vmc/ref/c03_ref.py (ttm_dense, parafac2_slices/dense, merge_leading)",
        "inputs are small integers / Gaussian integers: all partial sums < 2^53, float64 results exact, compared with ==",
        "norms compared with sqrt(exact integer sum of squares), relative tolerance 1e-12 (ladder entry: one sqrt)",
        "masks are full-shape 0/1 arrays (the only mask form both tenalg backends accept)",
        "tenalg backend selected with tensorly.tenalg.set_backend and restored after every case",
    ]

    def groups(self, tier, seed):
        target_s = 2.5 if tier == "quick" else 6.0  # groups of similar cost (sized from static per-case estimates)
        out = []
        for f in FAMILIES:
            ng = max(4, int(round(len(structures(f, tier)) * MS_PER_CASE[f] / 1000.0 / target_s)))
            out += [{"fam": f, "part": j, "of": ng} for j in range(ng)]
        return out

    def cases(self, group, tier, seed):
        for i, s in enumerate(structures(group["fam"], tier)):
            if i % group["of"] == group["part"]:
                c = dict(s)
                c["off"] = (i % 89) + 97 * seed
                yield c

    # --------------------------------------------------------------------------------------
    def run_case(self, case, ctx):
        from tensorly import tenalg

        prev = tenalg.get_backend()
        try:
            getattr(self, "_run_" + case["fam"])(case, ctx, tenalg)
        finally:
            tenalg.set_backend(prev)

    def _each_backend(self, tenalg, k, fam):
        for b in BACKENDS:
            tenalg.set_backend(b)
            if tenalg.get_backend() != b:
                raise HarnessError(f"tenalg.set_backend({b!r}) did not select it")
            k.tag = "[einsum]" if (b == "einsum" and fam in USES_TENALG) else ""
            yield b
        k.tag = ""

    def _finish(self, ctx, case, fam, dense, k):
        nz = any(x != 0 for x in dense.data)
        ctx.evaluations += k.ncalls - 1  # every compared library call is an evaluation; begin() counted the case once
        if len(dense.data) >= 2 and nz:
            ctx.nontriv()
        ctx.outcome(f"{fam}:" + ("agrees" if k.bad == 0 else "VIOLATED") + ("" if nz else ":zero-tensor"))
        ctx.sample({"case": case, "dense_shape": list(dense.shape), "dense_head": [complex(x).real for x in dense.data[:6]]})

    # ----------------------------------------------------------------------------- CP
    def _run_cp(self, case, ctx, tenalg):
        from tensorly import cp_tensor as M

        shape, rk, off = tuple(case["shape"]), case["R"], case["off"]
        n = len(shape)
        w = _weights(case["w"], rk, off)
        rw = None if w is None else [x.item() for x in w]
        base = f"{_ob(n)},weights={'none' if w is None else 'given'}"
        k = _K(ctx, base, "")
        gens = {"int": lambda s, o: V.ints(s, o, 3), "gauss": lambda s, o: V.gauss_ints(s, o, 2)}
        gen = gens["int"]
        dense0 = None

        for vals in ("int", "gauss") + (("real-first-complex-rest", "complex-last-only") if n >= 2 else ()):
            if vals in gens:
                factors = [gens[vals]((s, rk), off + 17 * i) for i, s in enumerate(shape)]
            else:  # factors of different kinds in one decomposition (the context of the result must not be taken from one operand)
                cplx = (lambda i: i > 0) if vals == "real-first-complex-rest" else (lambda i: i == n - 1)
                factors = [gens["gauss" if cplx(i) else "int"]((s, rk), off + 17 * i) for i, s in enumerate(shape)]
            dense = R.cp_dense(rw, [R.RT.from_np(f) for f in factors])
            dense0 = dense0 or dense
            sq = R.sqnorm(dense)
            masks = [(name, m, R.build(shape, lambda idx, m=m: dense[idx] * m[idx].item())) for name, m in _masks(shape, off)]
            k.inputs = f"weights={_fmt(w)} factors={_fmt(factors)}"
            sfx = ",complex" if vals == "gauss" else ("" if vals == "int" else "," + vals)
            cls = (base + sfx, base)
            for b in self._each_backend(tenalg, k, "cp"):
                for form in ("tuple", "CPTensor"):
                    x = (_copy(w), _copy(factors))
                    if form == "CPTensor":
                        ok, x = k.call("CPTensor", lambda: M.CPTensor(x), cls)
                        if not ok:
                            continue
                    a = f"({form})"
                    _views(k, ("cp_to_tensor" + a, "cp_to_unfolded" + a, "cp_to_vec" + a), dense,
                           lambda: M.cp_to_tensor(x), lambda m: M.cp_to_unfolded(x, m), lambda: M.cp_to_vec(x), cls)
                    k.norm("cp_norm" + a, lambda: M.cp_norm(x), sq, cls)
                    for name, m, md in masks:
                        differs = md.data != dense.data
                        k.array("cp_to_tensor" + a, lambda: M.cp_to_tensor(x, mask=np.array(m, copy=True)), md, cls=(base + sfx + ",mask", base),
                                alt=("mask-ignored", dense) if differs else None)
                    if form == "tuple":
                        k.attr("_validate_cp_tensor", lambda: M._validate_cp_tensor(x), (shape, rk), cls)
                    else:
                        k.attr("CPTensor.shape", lambda: x.shape, shape, cls)
                        k.attr("CPTensor.rank", lambda: x.rank, rk, cls)
                        _views(k, (("CPTensor.to_tensor", "cp_to_tensor"), ("CPTensor.to_unfolded", "cp_to_unfolded"), ("CPTensor.to_vec", "cp_to_vec")),
                               dense, x.to_tensor, x.to_unfolded, x.to_vec, cls)
                        k.norm(("CPTensor.norm", "cp_norm"), x.norm, sq, cls)
        tenalg.set_backend("core")
        factors = [gen((s, rk), off + 17 * i) for i, s in enumerate(shape)]
        dense = dense0
        k.inputs = f"weights={_fmt(w)} factors={_fmt(factors)}"

        # rejection sub-lattice
        def bad_sets():
            for i in range(n):
                for r2 in (rk + 1, rk - 1):
                    if r2 < 1 or (n == 1 and w is None):
                        continue  # a single factor without weights has nothing to mismatch with
                    fs = _copy(factors)
                    fs[i] = gen((shape[i], r2), off + 5)
                    yield "factor-columns-mismatch", (_copy(w), fs)
                fs = _copy(factors)
                fs[i] = fs[i][:, :, None]
                yield "factor-ndim3", (_copy(w), fs)
            for L in sorted({rk + 1, rk - 1, 1} - {rk, 0}):
                yield "weights-length", (np.arange(1.0, L + 1), _copy(factors))
            # weights of the right length but not a vector: (R,1) scales rows instead of columns wherever a mode size equals R
            yield "weights-ndim2-column", (np.arange(1.0, rk + 1).reshape(rk, 1), _copy(factors))
            yield "weights-ndim2-row", (np.arange(1.0, rk + 1).reshape(1, rk), _copy(factors))

        for kind, xb in bad_sets():
            _reject(ctx, k, "CPTensor", kind, lambda: M.CPTensor(xb), lambda o: o.to_tensor(), bad=xb)
            _reject(ctx, k, "_validate_cp_tensor", kind, lambda: M._validate_cp_tensor(xb), lambda o: M.cp_to_tensor(xb), bad=xb)
            _reject(ctx, k, "cp_to_tensor(tuple)", kind, lambda: M.cp_to_tensor(xb), lambda o: o, bad=xb)
            _reject(ctx, k, "cp_to_unfolded(tuple)", kind, lambda: M.cp_to_unfolded(xb, 0), lambda o: o, bad=xb)
            _reject(ctx, k, "cp_norm(tuple)", kind, lambda: M.cp_norm(xb), lambda o: o, bad=xb)
            _reject(ctx, k, "cp_to_vec(tuple)", kind, lambda: M.cp_to_vec(xb), lambda o: o, bad=xb)
        self._finish(ctx, case, "cp", dense, k)

    # ----------------------------------------------------------------------------- Tucker
    def _run_tucker(self, case, ctx, tenalg):
        from tensorly import tucker_tensor as M

        shape, ranks, off = tuple(case["shape"]), tuple(case["ranks"]), case["off"]
        n = len(shape)
        core = V.ints(ranks, off, 3)
        factors = [V.ints((s, r), off + 17 * (i + 1), 3) for i, (s, r) in enumerate(zip(shape, ranks))]
        rcore, rf = R.RT.from_np(core), [R.RT.from_np(f) for f in factors]
        refs = {}
        for skip in [None] + list(range(n)):
            t = rcore
            for i in range(n):
                if i != skip:
                    t = R.mode_dot(t, rf[i], i)
            refs[skip] = t
        dense = refs[None]
        sq = R.sqnorm(dense)
        k = _K(ctx, "", f"core={_fmt(core)} factors={_fmt(factors)}")

        for b in self._each_backend(tenalg, k, "tucker"):
            for form in ("tuple", "TuckerTensor"):
                for tr in (False, True):
                    if tr and form != "tuple":
                        continue  # a wrapper holds factors[i] as (I_i x R_i); transposed factors only as plain input
                    fs = [np.ascontiguousarray(f.T) for f in factors] if tr else _copy(factors)
                    x = (_copy(core), fs)
                    if form == "TuckerTensor":
                        ok, x = k.call("TuckerTensor", lambda: M.TuckerTensor(x), cls=_ob(n))
                        if not ok:
                            continue
                    for skip in [None] + list(range(n)):
                        cls = (f"{_ob(n)},skip_factor={'none' if skip is None else 'given'},transpose_factors={tr}", _ob(n))
                        ref = refs[skip]
                        a = f"({form})"
                        k.array("tucker_to_tensor" + a, lambda: M.tucker_to_tensor(x, skip_factor=skip, transpose_factors=tr), ref, cls)
                        for m in range(n):
                            k.array("tucker_to_unfolded" + a, lambda: M.tucker_to_unfolded(x, m, skip_factor=skip, transpose_factors=tr),
                                    R.unfold(ref, m), cls)
                        k.array("tucker_to_vec" + a, lambda: M.tucker_to_vec(x, skip_factor=skip, transpose_factors=tr), R.vec(ref), cls)
                    if form == "TuckerTensor":
                        cls = _ob(n)
                        k.attr("TuckerTensor.shape", lambda: x.shape, shape, cls)
                        k.attr("TuckerTensor.rank", lambda: x.rank, ranks, cls)
                        _views(k, (("TuckerTensor.to_tensor", "tucker_to_tensor"), ("TuckerTensor.to_unfolded", "tucker_to_unfolded"), ("TuckerTensor.to_vec", "tucker_to_vec")), dense, x.to_tensor, x.to_unfolded, x.to_vec, cls)
                        k.norm("TuckerTensor.norm", x.norm, sq, cls)
                    elif not tr:
                        k.attr("_validate_tucker_tensor", lambda: M._validate_tucker_tensor(x), (shape, ranks), _ob(n))
        tenalg.set_backend("core")

        def bad_sets():
            for i in range(n):
                for r2 in (ranks[i] + 1, ranks[i] - 1):
                    if r2 >= 1:
                        fs = _copy(factors)
                        fs[i] = V.ints((shape[i], r2), off + 5, 3)
                        yield "factor-columns-ne-core-mode", (_copy(core), fs)
                fs = _copy(factors)
                fs[i] = fs[i][:, :, None]
                yield "factor-ndim3", (_copy(core), fs)
            yield "too-few-factors", (_copy(core), _copy(factors)[:-1])
            yield "too-many-factors", (_copy(core), _copy(factors) + [np.ones((2, 1))])

        for kind, xb in bad_sets():
            _reject(ctx, k, "TuckerTensor", kind, lambda: M.TuckerTensor(xb), lambda o: o.to_tensor(), bad=xb)
            _reject(ctx, k, "_validate_tucker_tensor", kind, lambda: M._validate_tucker_tensor(xb), bad=xb)
        self._finish(ctx, case, "tucker", dense, k)

    # ----------------------------------------------------------------------------- TT / TR / TT-matrix (chains of cores)
    def _chain(self, case, ctx, tenalg, fam):
        import tensorly.tr_tensor as TR
        import tensorly.tt_matrix as TM
        import tensorly.tt_tensor as TT

        ranks, off = list(case["ranks"]), case["off"]
        if fam == "ttm":
            mids = [(i, o) for i, o in zip(case["ins"], case["outs"])]
            shape = tuple(case["ins"]) + tuple(case["outs"])
        else:
            mids = [(s,) for s in case["shape"]]
            shape = tuple(case["shape"])
        d = len(mids)
        cshape = lambda i, r0=None, r1=None: (ranks[i] if r0 is None else r0,) + mids[i] + (ranks[i + 1] if r1 is None else r1,)
        cores = [V.ints(cshape(i), off + 17 * i, 3) for i in range(d)]
        rc = [R.RT.from_np(c) for c in cores]
        dense = {"tt": R.tt_dense, "tr": R.tr_dense, "ttm": R3.ttm_dense}[fam](rc)
        sq = R.sqnorm(dense)
        cls = _ob(d)
        k = _K(ctx, cls, f"cores={_fmt(cores)}")
        mod, Wrap, wname, validate = {
            "tt": (TT, TT.TTTensor, "TTTensor", TT._validate_tt_tensor),
            "tr": (TR, TR.TRTensor, "TRTensor", TR._validate_tr_tensor),
            "ttm": (TM, TM.TTMatrix, "TTMatrix", TM._validate_tt_matrix),
        }[fam]
        name = {"tt": "tt", "tr": "tr", "ttm": "tt_matrix"}[fam]
        to_tensor = getattr(mod, name + "_to_tensor")
        to_unf = getattr(mod, name + "_to_unfolded")
        to_vec = getattr(mod, name + "_to_vec")

        for b in self._each_backend(tenalg, k, fam):
            for form in ("list", wname):
                x = _copy(cores)
                if form == wname:
                    ok, x = k.call(wname, lambda: Wrap(x))
                    if not ok:
                        continue
                a = f"({form})"
                k.array(name + "_to_tensor" + a, lambda: to_tensor(x), dense)
                for m in range(dense.ndim):
                    k.array(name + "_to_unfolded" + a, lambda: to_unf(x, m), R.unfold(dense, m))
                k.array(name + "_to_vec" + a, lambda: to_vec(x), R.vec(dense))
                if fam == "ttm":
                    k.array("tt_matrix_to_matrix" + a, lambda: TM.tt_matrix_to_matrix(x), R3.merge_leading(dense, d))
                if form == "list":
                    k.attr("_validate_" + {"tt": "tt_tensor", "tr": "tr_tensor", "ttm": "tt_matrix"}[fam], lambda: validate(x), (shape, tuple(ranks)))
                else:
                    k.attr(wname + ".shape", lambda: x.shape, shape)
                    k.attr(wname + ".rank", lambda: x.rank, tuple(ranks))
                    k.array((wname + ".to_tensor", name + "_to_tensor"), x.to_tensor, dense)
                    for m in range(dense.ndim):
                        k.array((wname + ".to_unfolding", name + "_to_unfolded"), lambda: x.to_unfolding(m), R.unfold(dense, m))
                    k.array((wname + ".to_vec", name + "_to_vec"), x.to_vec, R.vec(dense))
                    if fam == "ttm":
                        k.array(("TTMatrix.to_matrix", "tt_matrix_to_matrix"), x.to_matrix, R3.merge_leading(dense, d))
                    k.norm(wname + ".norm", x.norm, sq)
        tenalg.set_backend("core")

        def bad_sets():
            mk = lambda i, r0=None, r1=None: V.ints(cshape(i, r0, r1), off + 5, 3)
            bonds = range(d) if fam == "tr" else range(1, d)
            for bd in bonds:  # bond between core bd-1 (cyclically) and core bd
                r = ranks[bd]
                for r2 in (r + 1, r - 1):
                    if r2 >= 1:
                        cs = _copy(cores)
                        cs[bd] = mk(bd, r0=r2)
                        yield ("ring-closure-rank-mismatch" if bd == 0 else "consecutive-rank-mismatch"), cs
                        cs = _copy(cores)
                        cs[bd - 1] = mk((bd - 1) % d, r1=r2)
                        yield ("ring-closure-rank-mismatch" if bd == 0 else "consecutive-rank-mismatch"), cs
            if fam != "tr":
                cs = _copy(cores)
                cs[0] = mk(0, r0=2)
                yield "first-boundary-rank-ne-1", cs
                cs = _copy(cores)
                cs[-1] = mk(d - 1, r1=2)
                yield "last-boundary-rank-ne-1", cs
            for i in range(d):
                cs = _copy(cores)
                cs[i] = cs[i][..., None]
                yield "core-ndim-plus-1", cs
                cs = _copy(cores)
                cs[i] = cs[i][..., 0]
                yield "core-ndim-minus-1", cs

        for kind, xb in bad_sets():
            _reject(ctx, k, wname, kind, lambda: Wrap(xb), lambda o: o.to_tensor(), bad=xb)
            _reject(ctx, k, validate.__name__, kind, lambda: validate(xb), bad=xb)
        self._finish(ctx, case, fam, dense, k)

    def _run_tt(self, case, ctx, tenalg):
        self._chain(case, ctx, tenalg, "tt")

    def _run_tr(self, case, ctx, tenalg):
        self._chain(case, ctx, tenalg, "tr")

    def _run_ttm(self, case, ctx, tenalg):
        self._chain(case, ctx, tenalg, "ttm")

    # ----------------------------------------------------------------------------- PARAFAC2
    def _run_pf2(self, case, ctx, tenalg):
        from tensorly import parafac2_tensor as M

        heights, K, rk, off, pv = list(case["heights"]), case["K"], case["R"], case["off"], case["pv"]
        I = len(heights)
        A = V.ints((I, rk), off, 3, nonzero=True)
        B = V.ints((rk, rk), off + 17, 3)
        C = V.ints((K, rk), off + 34, 3)
        if case.get("mixed") == "complex-C":
            C = C + 1j * V.ints((K, rk), off + 51, 2, nonzero=True)
        w = _weights(case["w"], rk, off)
        projs = []
        for i, h in enumerate(heights):
            sel = R3.signed_selections(h, rk)
            projs.append(np.array(sel[(pv + 5 * i) % len(sel)], dtype=float))
        rw = None if w is None else [x.item() for x in w]
        slices = R3.parafac2_slices(rw, R.RT.from_np(A), R.RT.from_np(B), R.RT.from_np(C), [R.RT.from_np(p) for p in projs])
        dense = R3.parafac2_dense(slices)
        sq = R.sqnorm(dense)
        sshape = tuple((h, K) for h in heights)
        cls = ("uneven-slices" if len(set(heights)) > 1 else "even-slices") + f",weights={'none' if w is None else 'given'}" + (",real-A-complex-C" if case.get("mixed") else "")
        k = _K(ctx, cls, f"weights={_fmt(w)} A={_fmt(A)} B={_fmt(B)} C={_fmt(C)} projections={_fmt(projs)}")
        mk = lambda: (_copy(w), (A.copy(), B.copy(), C.copy()), _copy(projs))

        for b in self._each_backend(tenalg, k, "pf2"):
            for form in ("tuple", "Parafac2Tensor"):
                x = mk()
                if form == "Parafac2Tensor":
                    ok, x = k.call("Parafac2Tensor", lambda: M.Parafac2Tensor(x))
                    if not ok:
                        continue
                a = f"({form})"
                k.array("parafac2_to_tensor" + a, lambda: M.parafac2_to_tensor(x), dense)
                for m in range(3):
                    k.array("parafac2_to_unfolded" + a, lambda: M.parafac2_to_unfolded(x, m), R.unfold(dense, m))
                k.array("parafac2_to_vec" + a, lambda: M.parafac2_to_vec(x), R.vec(dense))
                for i in range(I):
                    k.array("parafac2_to_slice" + a, lambda: M.parafac2_to_slice(x, i), slices[i])
                ok, sl = k.call("parafac2_to_slices" + a, lambda: M.parafac2_to_slices(x))
                if ok:
                    if not isinstance(sl, (list, tuple)) or len(sl) != I:
                        k._viol("parafac2_to_slices" + a, "slice-count", f"got {type(sl).__name__} of length {len(sl) if hasattr(sl, '__len__') else '?'} expected {I}")
                    else:
                        for i in range(I):
                            k.array("parafac2_to_slices" + a, lambda: sl[i], slices[i])
                if form == "tuple":
                    k.attr("_validate_parafac2_tensor", lambda: M._validate_parafac2_tensor(x), (sshape, rk))
                else:
                    k.attr("Parafac2Tensor.shape", lambda: x.shape, sshape)
                    k.attr("Parafac2Tensor.rank", lambda: x.rank, rk)
                    _views(k, (("Parafac2Tensor.to_tensor", "parafac2_to_tensor"), ("Parafac2Tensor.to_unfolded", "parafac2_to_unfolded"), ("Parafac2Tensor.to_vec", "parafac2_to_vec")), dense, x.to_tensor, x.to_unfolded, x.to_vec)
                    k.norm("Parafac2Tensor.norm", x.norm, sq)
        tenalg.set_backend("core")

        def bad_sets():
            wv, (a_, b_, c_), ps = mk()
            for r2 in (rk + 1, rk - 1):
                if r2 < 1:
                    continue
                yield "B-columns-ne-rank", True, (wv, (a_, V.ints((rk, r2), off + 5, 3), c_), ps)
                yield "C-columns-ne-rank", True, (wv, (a_, b_, V.ints((K, r2), off + 5, 3)), ps)
                yield "A-columns-ne-rank", True, (wv, (V.ints((I, r2), off + 5, 3), b_, c_), ps)
                # B must be rank x rank for P_i B to exist; not in the design's list -> only "no silent reconstruction" is demanded
                yield "B-rows-ne-rank", False, (wv, (a_, V.ints((r2, rk), off + 5, 3), c_), ps)
            for i in range(I):
                h = heights[i]
                p2 = list(ps)
                p2[i] = 2.0 * ps[i]
                yield "projection-not-orthonormal:scaled", True, (wv, (a_, b_, c_), p2)
                p2 = list(ps)
                q = ps[i].copy()
                q[:, 0] = 0.0
                p2[i] = q
                yield "projection-not-orthonormal:zero-column", True, (wv, (a_, b_, c_), p2)
                if rk >= 2:
                    p2 = list(ps)
                    q = ps[i].copy()
                    q[:, 1] = q[:, 0]
                    p2[i] = q
                    yield "projection-not-orthonormal:repeated-column", True, (wv, (a_, b_, c_), p2)
                    p2 = list(ps)
                    p2[i] = ps[i][:, :-1].copy()
                    yield "projection-columns-ne-rank", True, (wv, (a_, b_, c_), p2)
                if h >= 2:
                    p2 = list(ps)
                    q = ps[i].copy()
                    jz = [j for j in range(h) if not q[j].any()]
                    if jz:  # add a unit entry in an unused row: columns no longer unit length
                        q[jz[0], 0] = 1.0
                        p2[i] = q
                        yield "projection-not-orthonormal:non-unit-column", True, (wv, (a_, b_, c_), p2)
            yield "too-few-projections", True, (wv, (a_, b_, c_), ps[:-1])
            yield "too-many-projections", True, (wv, (a_, b_, c_), ps + [ps[-1].copy()])
            for L in sorted({rk + 1, rk - 1, 1} - {rk, 0}):
                yield "weights-length", True, (np.arange(1.0, L + 1), (a_, b_, c_), ps)
            yield "four-factors", True, (wv, (a_, b_, c_, c_.copy()), ps)

        for kind, strict, xb in bad_sets():
            _reject(ctx, k, "Parafac2Tensor", kind, lambda: M.Parafac2Tensor(xb), lambda o: o.to_tensor(), strict, bad=xb)
            _reject(ctx, k, "_validate_parafac2_tensor", kind, lambda: M._validate_parafac2_tensor(xb), lambda o: M.parafac2_to_tensor(xb), strict, bad=xb)
            _reject(ctx, k, "parafac2_to_tensor(tuple)", kind, lambda: M.parafac2_to_tensor(xb), lambda o: o, strict, bad=xb)
            _reject(ctx, k, "parafac2_to_slices(tuple)", kind, lambda: M.parafac2_to_slices(xb), lambda o: o[0], strict, bad=xb)
            # the other conversions of a plain tuple validate as well (every one is a way of "silently reconstructing")
            _reject(ctx, k, "parafac2_to_slice(tuple)", kind, lambda: M.parafac2_to_slice(xb, 0), lambda o: o, strict, bad=xb)
            _reject(ctx, k, "parafac2_to_unfolded(tuple)", kind, lambda: M.parafac2_to_unfolded(xb, 0), lambda o: o, strict, bad=xb)
            _reject(ctx, k, "parafac2_to_vec(tuple)", kind, lambda: M.parafac2_to_vec(xb), lambda o: o, strict, bad=xb)
        self._finish(ctx, case, "pf2", dense, k)


CHECK = C03()
