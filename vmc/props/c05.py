"""C05 — svd_interface / truncated_svd return a genuine, sign-canonical truncated SVD.

Lattice (complete): shape (m, n) x matrix kind x method configuration x n_eigenvecs x
flip_sign x u_based_flip_sign x non_negative.

Matrices are *constructed* as U0 . diag(s) . V0^T with U0, V0 products of Pythagorean-triple Givens
rotations (orthogonal to rounding) and a spectrum from a table, so the true singular values are
known without calling any SVD; plus integer / non-negative matrices whose spectrum is taken from
numpy.linalg.svd (trusted base).

Oracle (certificate): shapes; S >= 0, non-increasing, == s[:k]; U^T U = I, V V^T = I;
||M - U_k S_k V_k||_F == ||s[k:]||_2 (Eckart-Young: with orthonormality this *is* best
approximation); sign rule on the deciding vectors and product unchanged by the flip; non-negative
option: both factors entrywise >= 0.  randomized_svd is evaluated only where
n_eigenvecs + n_oversamples >= rank(M) (guard, counted).
"""
import itertools

import numpy as np

from vmc import values
from vmc.runner import Check

TRIPLES = [(3, 4, 5), (5, 12, 13), (8, 15, 17), (7, 24, 25), (20, 21, 29)]
DISTINCT = [4.0, 2.5, 1.5, 0.75, 0.4, 0.25, 0.125, 0.1]

TOL_LAPACK = 1e-9   # DESIGN §1.6 ladder: LAPACK factorisations
TOL_SYMEIG = 1e-6   # formulas that square the condition number
TOL_EXACT = 1e-12   # sign flips (exact operations)
SYMEIG_COND_MAX = 1e3
RANK_TOL = 1e-9

FLIPS = [(False, True), (False, False), (True, True), (True, False)]
NN_OPTS = [None, True, "nndsvd", "nndsvda"]


# --------------------------------------------------------------------------------- construction
def orth(d, off):
    """d x d orthogonal matrix: product of Givens rotations with rational (c, s) = (a/c, b/c) over
    every coordinate plane, followed by a column-sign pattern.  Orthogonal up to rounding."""
    Q = np.eye(d)
    planes = [(i, j) for i in range(d) for j in range(i + 1, d)]
    if planes:
        r = off % len(planes)
        planes = planes[r:] + planes[:r]
    for idx, (i, j) in enumerate(planes):
        a, b, c = TRIPLES[(idx + off) % len(TRIPLES)]
        co, si = a / c, b / c
        if (idx + off) % 2:
            si = -si
        G = np.eye(d)
        G[i, i] = co
        G[j, j] = co
        G[i, j] = -si
        G[j, i] = si
        Q = Q @ G
    signs = np.array([-1.0 if (j + off) % 3 == 0 else 1.0 for j in range(d)])
    return Q * signs


def spectra_for(r):
    """Ordered, de-duplicated table of spectra (non-increasing, length r)."""
    tab = [("distinct", DISTINCT[:r])]
    tab.append(("repeated-all", [2.0] * r))
    if r >= 3:
        tab.append(("repeated-top", [3.0, 3.0] + [1.0] * (r - 2)))
    if r >= 2:
        tab.append(("one-zero", DISTINCT[: r - 1] + [0.0]))
        tab.append(("rank-1", [2.5] + [0.0] * (r - 1)))
    if r >= 3:
        nzv = [3.0, 1.5][: min(2, r - 2)]
        tab.append(("several-zeros", nzv + [0.0] * (r - len(nzv))))
    if r >= 4:
        tab.append(("repeated-and-zeros", [2.0, 2.0] + [0.0] * (r - 2)))
    if r >= 4:
        # low rank with a graded spectrum: a range finder that does not re-orthonormalise between power iterations loses s[2]
        tab.append(("graded-low-rank", [1.0, 1e-3, 1e-6] + [0.0] * (r - 3)))
    tab.append(("zero-matrix", [0.0] * r))
    out, seen = [], set()
    for name, s in tab:
        s = [float(x) for x in s]
        assert len(s) == r and all(s[i] >= s[i + 1] for i in range(r - 1)), (name, s)
        if tuple(s) in seen:
            continue
        seen.add(tuple(s))
        out.append((name, s))
    return out


def kinds_for(m, n, tier="quick"):
    r = min(m, n)
    kinds = ["c:" + name for name, _ in spectra_for(r)]
    if tier != "quick" and max(m, n) >= 2:  # second, independent pair of rotation products
        kinds += ["c:" + name + "@1" for name, _ in spectra_for(r) if name != "zero-matrix"]
    if r >= 2:  # the same matrices in a tiny / huge unit (variant "u-9" / "u+9": spectrum and matrix times 1e-9 / 1e9)
        kinds += ["c:distinct@u-9", "c:one-zero@u-9", "c:distinct@u+9"]
    kinds += ["int-signed", "int-pos", "gen-nonneg"]
    if r >= 2:
        kinds += ["int-rank1"]
    if n >= 2:
        kinds += ["int-zero-col"]
    if m >= 2:
        kinds += ["nonneg-zero-row"]
    return kinds


_MEMO = {}


def build_matrix(m, n, kind, seed):
    key = (m, n, kind, seed)
    if key in _MEMO:
        return _MEMO[key]
    r = min(m, n)
    U0 = V0t = None
    if kind.startswith("c:"):
        sname, _, variant = kind[2:].partition("@")
        s = dict(spectra_for(r))[sname]
        unit = 1.0
        if variant.startswith("u"):
            unit = 10.0 ** int(variant[1:])
            variant = ""
        s = [x * unit for x in s]
        if variant:
            U0 = orth(m, 8 + 3 * seed)
            V0t = orth(n, 2 + seed).T
        else:
            U0 = orth(m, 1 + seed)
            V0t = orth(n, 4 + 2 * seed).T
        D = np.zeros((m, n))
        for i in range(r):
            D[i, i] = s[i]
        M = U0 @ D @ V0t
        s = np.array(s)
    else:
        off = seed + 3 * m + n
        if kind == "int-signed":
            M = values.ints((m, n), off, 3)
            if not M.any():
                M[0, 0] = 1.0
        elif kind == "int-pos":
            M = values.posints((m, n), off)
        elif kind == "gen-nonneg":
            M = values.generic((m, n), off, signed=False)
        elif kind == "int-rank1":
            a = values.ints((m,), off, 2, nonzero=True)
            b = values.ints((n,), off + 5, 2, nonzero=True)
            M = np.multiply.outer(a, b)
        elif kind == "int-zero-col":
            M = values.ints((m, n), off, 3, nonzero=True)
            M[:, (seed + 1) % n] = 0.0
        elif kind == "nonneg-zero-row":
            M = values.posints((m, n), off)
            M[(seed + 1) % m, :] = 0.0
        else:
            raise ValueError(kind)
        s = np.linalg.svd(M, compute_uv=False)  # trusted base for the non-constructed kinds
    smax = float(s[0]) if len(s) else 0.0
    rank = int(np.sum(s > RANK_TOL * smax)) if smax > 0 else 0
    if not kind.startswith("c:"):
        s = np.where(s > RANK_TOL * max(smax, 1e-300), s, 0.0)
    info = {
        "M": M, "s": np.asarray(s, dtype=float), "rank": rank, "U0": U0, "V0t": V0t,
        "nonneg": bool((M >= 0).all()), "mean": float(M.mean()), "scale": smax if smax > 0 else 1.0,
    }
    if len(_MEMO) > 64:
        _MEMO.clear()
    _MEMO[key] = info
    return info


def method_configs(tier):
    cfgs = [{"name": "truncated_svd"}, {"name": "symeig_svd"}]
    seeds = (0, 1) if tier == "quick" else (0, 1, 2, 3)
    for rs in seeds:
        for p in (None, 0, 1, 2):
            cfgs.append({"name": "randomized_svd", "rs": rs, "p": p, "n_iter": None})
    if tier != "quick":
        for rs in (0, 1):
            for p in (0, 2):
                for n_iter in (0, 1):
                    cfgs.append({"name": "randomized_svd", "rs": rs, "p": p, "n_iter": n_iter})
    for signs in ("neg", "alt", "pos"):
        cfgs.append({"name": "callable", "signs": signs})
    return cfgs


def make_callable(info, signs, log):
    """A user SVD: returns the (known / numpy) factors with a chosen sign pattern, so that the
    sign resolution has something to do irrespective of LAPACK's conventions."""
    M0 = info["M"]
    m, n = M0.shape

    def user_svd(matrix, n_eigenvecs=None, **kwargs):
        log.append({"n_eigenvecs": n_eigenvecs, "same": bool(np.array_equal(np.asarray(matrix), M0)), "kwargs": sorted(kwargs)})
        k = max(m, n) if n_eigenvecs is None else min(n_eigenvecs, max(m, n))
        if info["U0"] is not None:
            U, S, Vt = info["U0"], info["s"], info["V0t"]
        else:
            U, S, Vt = np.linalg.svd(np.asarray(matrix), full_matrices=True)
        r = min(m, n)
        sg = np.ones(max(m, n))
        if signs == "neg":
            sg[:] = -1.0
        elif signs == "alt":
            sg[0::2] = -1.0
        # the same sign on u_i and v_i for i < r keeps the product; extra vectors get the sign too
        return (U * sg[:m])[:, :k].copy(), np.array(S[: min(k, r)], dtype=float), (Vt * sg[:n, None])[:k, :].copy()

    return user_svd


def input_class(info, k_eff, mindim):
    if info["rank"] < mindim:  # includes the zero matrix (rank 0 < k always)
        return "rank-deficient,k>rank" if k_eff > info["rank"] else "rank-deficient,k<=rank"
    return "full-rank,k>min-dim" if k_eff > mindim else "full-rank,k<=min-dim"


def nn_degenerate_cause(U, V):
    """Input class of make_svd_non_negative, recomputed from the factors it receives: for j >= 1 the update divides by
    ||u_j^+||.||v_j^+|| or ||u_j^-||.||v_j^-||; both products vanish iff u_j or v_j is exactly zero ('zero-vector') or the
    pair is entrywise opposite-signed, u_j >= 0 >= v_j or u_j <= 0 <= v_j ('opposite-signed-pair')."""
    causes = set()
    for j in range(1, min(U.shape[1], V.shape[0])):
        x, y = U[:, j], V[j, :]
        mp0 = not ((x > 0).any() and (y > 0).any())
        mn0 = not ((x < 0).any() and (y < 0).any())
        if mp0 and mn0:
            causes.add("zero-vector" if (not x.any() or not y.any()) else "opposite-signed-pair")
    if not causes:
        return "no-degenerate-pair"
    return "+".join(sorted(causes))


class C05(Check):
    pid = "C05"
    level = "exploration"
    design_ref = "DESIGN.md §4 C05"
    rule = ("complete product: shape (m,n) in {1..5}^2 (quick) / {1..7}^2 (thorough) x matrix kind (constructed "
            "U0.diag(s).V0^T with spectra {distinct, all-repeated, top-repeated, one zero, several zeros, rank 1, "
            "repeated+zeros, zero matrix}, thorough: a second independent rotation pair per spectrum; integer signed / positive / rank-1 / zero-column, generic non-negative, "
            "non-negative with a zero row) x method configuration (truncated_svd, symeig_svd, randomized_svd x "
            "random_state x n_oversamples {default,0,1,2} [x n_iter], callable returning known factors with sign "
            "pattern {neg, alt, pos}) x n_eigenvecs in {1..max(m,n)+1, None} x (flip_sign, u_based_flip_sign) in "
            "{T,F}^2 x non_negative in {None, True, 'nndsvd', 'nndsvda'}; one evaluation = one real svd_interface call "
            "+ oracle; non-trivial iff the matrix has >= 2 entries, rank >= 1 and the call is not guarded out")
    assumptions = [
        "constructed matrices: true singular values are the table spectrum up to a few ulp (Weyl), U0/V0 are products of "
        "rational Givens rotations (vmc/props/c05.py: orth)",
        "integer / non-negative kinds: spectrum and rank from numpy.linalg.svd (trusted base), rank threshold 1e-9*s_max",
        "tolerance ladder (DESIGN §1.6): 1e-9 * s_max for truncated/randomized/callable, 1e-6 * s_max for symeig_svd, "
        "1e-12 * s_max for product-unchanged-by-flip; zero matrix uses absolute scale 1",
        "symeig_svd evaluated only where s_max / s_min_nonzero <= 1e3 (counted guard); randomized_svd only where "
        "n_eigenvecs + n_oversamples >= rank(M) (counted guard, from the statement)",
        "shape contract: U (m, min(k,m)), S (min(k,m,n),), V (min(k,n), n) with k = n_eigenvecs clamped to max(m,n) "
        "(None -> max(m,n)): the documented (m,k),(k,),(k,n) wherever an orthonormal set of that size exists",
        "ties in |.| of a deciding vector: the sign rule is satisfied if any maximal-magnitude entry is positive",
    ]

    def groups(self, tier, seed):
        top = 5 if tier == "quick" else 7
        out = []
        for m in range(1, top + 1):
            for n in range(1, top + 1):
                for kind in kinds_for(m, n, tier):
                    out.append({"shape": [m, n], "kind": kind})
        return out

    def cases(self, group, tier, seed):
        m, n = group["shape"]
        for cfg in method_configs(tier):
            for k in list(range(1, max(m, n) + 2)) + [None]:
                yield {"shape": [m, n], "kind": group["kind"], "method": cfg, "k": k, "seed": seed}

    # ----------------------------------------------------------------------------------
    def run_case(self, case, ctx):
        import tensorly as tl
        from tensorly.tenalg import svd_interface

        m, n = case["shape"]
        kind, cfg, k, seed = case["kind"], case["method"], case["k"], case.get("seed", 0)
        info = build_matrix(m, n, kind, seed)
        M, s, rank, scale = info["M"], info["s"], info["rank"], info["scale"]
        mindim, maxdim = min(m, n), max(m, n)
        k_eff = maxdim if k is None else min(k, maxdim)
        name = cfg["name"]
        icls = input_class(info, k_eff, mindim)
        tol = TOL_SYMEIG if name == "symeig_svd" else TOL_LAPACK
        n_combo = len(FLIPS) * len(NN_OPTS)

        # ---- guards (conditional clauses) -------------------------------------------
        kwargs = {}
        if name == "randomized_svd":
            kwargs["random_state"] = cfg["rs"]
            if cfg["p"] is not None:
                kwargs["n_oversamples"] = cfg["p"]
            if cfg.get("n_iter") is not None:
                kwargs["n_iter"] = cfg["n_iter"]
            p_eff = 5 if cfg["p"] is None else cfg["p"]
            if k_eff + p_eff < rank:
                ctx.count("guarded_out:randomized:k+oversamples<rank", n_combo)
                ctx.outcome("randomized_svd/guarded-out")
                return
        if name == "symeig_svd" and "@u-" in kind:
            # symeig_svd clips the eigenvalues of M^T M at an ABSOLUTE eps, so every singular value below ~1.5e-8 is reported as
            # 1.49e-8: one representative observation under its own signature (recorded finding), the rest is not evaluated
            try:
                _, S_, _ = svd_interface(tl.tensor(M.copy()), method="symeig_svd", n_eigenvecs=1, flip_sign=False)
                if abs(float(np.asarray(S_)[0]) - float(s[0])) > 1e-6 * float(s[0]):
                    ctx.violation("svd_interface/symeig_svd/absolute-eps-floor-on-singular-values/tiny-unit",
                                  f"shape=({m},{n}) kind={kind}: leading singular value {float(np.asarray(S_)[0])!r}, true {float(s[0])!r}")
            except Exception as e:
                ctx.count(f"guarded_out:symeig-tiny-unit-raises:{type(e).__name__}")
            ctx.count("guarded_out:symeig:tiny-unit(absolute eps floor)", n_combo)
            ctx.outcome("symeig_svd/tiny-unit")
            return
        if name == "symeig_svd" and rank >= 1 and s[0] / s[rank - 1] > SYMEIG_COND_MAX:
            ctx.count("guarded_out:symeig:ill-conditioned", n_combo)
            ctx.outcome("symeig_svd/guarded-out")
            return

        exp_shapes = ((m, min(k_eff, m)), (min(k_eff, mindim),), (min(k_eff, n), n))
        r = exp_shapes[1][0]
        exp_err = float(np.sqrt(np.sum(s[r:] ** 2)))
        mtag = name if name != "callable" else "callable"
        desc = f"shape=({m},{n}) kind={kind} seed={seed} method={cfg} n_eigenvecs={k}"

        def call(flip, ub, nn, direct=False):
            log = []
            method = make_callable(info, cfg["signs"], log) if name == "callable" else name
            Mi = tl.tensor(M.copy())
            state = np.random.get_state()
            try:
                if direct:
                    out = tl.truncated_svd(Mi, k)
                else:
                    out = svd_interface(Mi, method=method, n_eigenvecs=k, flip_sign=flip, u_based_flip_sign=ub,
                                        non_negative=nn, **kwargs)
                U, S, V = out
                return (np.asarray(U), np.asarray(S), np.asarray(V)), log, None
            except Exception as e:  # decided by the caller
                return None, log, e
            finally:
                np.random.set_state(state)

        def product(res):
            U, S, V = res
            q = S.shape[0]
            return (U[:, :q] * S) @ V[:q, :]

        def generic_checks(res, sigbase, what):
            """shape / S / (orthonormality / Eckart-Young when factors are singular vectors). Returns False if the
            shapes are wrong (nothing else can be evaluated)."""
            U, S, V = res
            got = (U.shape, S.shape, V.shape)
            if got != exp_shapes:
                ctx.violation(f"{sigbase}/shape/{icls}", f"{desc} {what}: shapes {got}, expected {exp_shapes}")
                return False
            if not np.all(np.isfinite(S)):
                ctx.violation(f"{sigbase}/S-non-finite/{icls}", f"{desc} {what}: S={S.tolist()}")
                return True
            if np.any(S < 0):
                ctx.violation(f"{sigbase}/S-negative/{icls}", f"{desc} {what}: S={S.tolist()}")
            if np.any(S[:-1] < S[1:] - TOL_EXACT * scale):
                ctx.violation(f"{sigbase}/S-not-non-increasing/{icls}", f"{desc} {what}: S={S.tolist()}")
            elif np.max(np.abs(S - s[:r]), initial=0.0) > tol * scale:
                ctx.violation(f"{sigbase}/S-not-leading-singular-values/{icls}",
                              f"{desc} {what}: S={S.tolist()} true={s[:r].tolist()}")
            return True

        def vector_checks(res, sigbase, what):
            U, S, V = res
            if not (np.all(np.isfinite(U)) and np.all(np.isfinite(V))):
                ctx.violation(f"{sigbase}/vectors-non-finite/{icls}", f"{desc} {what}: U={U.tolist()} V={V.tolist()}")
                return
            eu = float(np.max(np.abs(U.T @ U - np.eye(U.shape[1]))))
            ev = float(np.max(np.abs(V @ V.T - np.eye(V.shape[0]))))
            if eu > tol or ev > tol:
                ctx.violation(f"{sigbase}/orthonormality/{icls}",
                              f"{desc} {what}: max|U^T U - I|={eu:.3g} max|V V^T - I|={ev:.3g} (tol {tol}); S={S.tolist()} true s={s.tolist()}")
            err = float(np.linalg.norm(M - product(res)))
            if abs(err - exp_err) > tol * scale:
                ctx.violation(f"{sigbase}/eckart-young/{icls}",
                              f"{desc} {what}: ||M - U S V||_F={err:.12g}, norm of discarded singular values={exp_err:.12g}; S={S.tolist()} true s={s.tolist()}")

        def sign_checks(res, ub, sigbase, what):
            U, S, V = res
            vecs = [U[:, j] for j in range(U.shape[1])] if ub else [V[i, :] for i in range(V.shape[0])]
            for j, v in enumerate(vecs):
                a = np.abs(v)
                mx = float(a.max())
                if mx == 0.0:
                    ctx.violation(f"{sigbase}/sign/zero-deciding-vector/{icls}",
                                  f"{desc} {what}: deciding vector {j} of {'U' if ub else 'V'} is exactly zero after svd_flip")
                    return
                if not np.any(v[a >= mx * (1 - 1e-12)] > 0):
                    ctx.violation(f"{sigbase}/sign/largest-entry-not-positive/{'u-based' if ub else 'v-based'}/{icls}",
                                  f"{desc} {what}: deciding vector {j} of {'U' if ub else 'V'} = {v.tolist()}")
                    return

        sigbase = f"svd_interface/{mtag}"
        nevals = 0
        base, log, exc = call(False, True, None)
        base_ok = base is not None
        plain = {}

        for flip, ub in FLIPS:
            for nn in NN_OPTS:
                nevals += 1
                what = f"flip_sign={flip} u_based_flip_sign={ub} non_negative={nn!r}"
                res, log, exc = call(flip, ub, nn)
                ctx.count("calls")
                if m * n >= 2 and rank >= 1:
                    ctx.nontriv([m, n, kind, cfg, k, flip, ub, nn])
                if exc is not None:
                    where = "svd_interface" if nn is None else f"svd_interface/non_negative={nn!r}"
                    ctx.violation(f"{where}/{mtag}/raises-{type(exc).__name__}/{icls}", f"{desc} {what}: {type(exc).__name__}: {exc}")
                    continue
                if name == "callable" and (not log or log[0]["n_eigenvecs"] != k or not log[0]["same"]):
                    ctx.violation("svd_interface/callable/dispatch", f"{desc} {what}: callable received {log}")
                if nn is None:
                    if not generic_checks(res, sigbase, what):
                        continue
                    plain[(flip, ub)] = res
                    vector_checks(res, sigbase, what)
                    if flip:
                        sign_checks(res, ub, sigbase, what)
                        if base_ok and all(a.shape == b.shape and np.all(np.isfinite(a)) and np.all(np.isfinite(b)) for a, b in zip(base, res)):
                            d = float(np.max(np.abs(product(res) - product(base)), initial=0.0))
                            if d > TOL_EXACT * scale:
                                ctx.violation(f"{sigbase}/flip-changes-product/{icls}",
                                              f"{desc} {what}: max|USV(flipped) - USV(unflipped)|={d:.3g}")
                else:
                    opt = "nndsvd" if nn == "nndsvd" else "nndsvda"  # True is the documented alias of 'nndsvda'
                    incls = "nonneg-input" if info["nonneg"] else "signed-input"
                    if not generic_checks(res, f"svd_interface/{mtag}/with-non_negative", what):
                        continue
                    U, S, V = res
                    fed = plain.get((flip, ub))  # the factors make_svd_non_negative received (same call, non_negative=None)
                    if np.isnan(U).any() or np.isnan(V).any():
                        cause = nn_degenerate_cause(fed[0], fed[2]) if fed is not None else "unclassified"
                        ctx.violation(f"make_svd_non_negative/nan-entries/{cause}/{incls}",
                                      f"{desc} {what}: U={U.tolist()} V={V.tolist()}; factors before the transform: "
                                      f"U={None if fed is None else fed[0].tolist()} V={None if fed is None else fed[2].tolist()}")
                    negU, negV = U[~np.isnan(U)], V[~np.isnan(V)]
                    negs = np.concatenate([negU[negU < 0], negV[negV < 0]])
                    if negs.size:
                        if opt == "nndsvda" and info["mean"] < 0 and np.all(negs == info["mean"]):
                            ctx.violation(f"make_svd_non_negative/nndsvda/negative-fill-value/negative-mean-input",
                                          f"{desc} {what}: entries below eps are replaced by mean(matrix)={info['mean']:.6g} < 0; "
                                          f"min U={np.nanmin(U):.6g} min V={np.nanmin(V):.6g}")
                        else:
                            ctx.violation(f"make_svd_non_negative/{opt}/negative-entries/{incls}",
                                          f"{desc} {what}: negative entries {sorted(set(negs.tolist()))[:6]} mean(matrix)={info['mean']:.6g}; U={U.tolist()} V={V.tolist()}")
                    elif not (np.isnan(U).any() or np.isnan(V).any()):
                        ctx.count("non_negative_ok")

        if name == "truncated_svd":  # observe_at also names tl.truncated_svd itself
            nevals += 1
            ctx.count("calls")
            res, log, exc = call(False, True, None, direct=True)
            if exc is not None:
                ctx.violation(f"truncated_svd/raises-{type(exc).__name__}/{icls}", f"{desc} direct: {type(exc).__name__}: {exc}")
            elif generic_checks(res, "truncated_svd", "direct call"):
                vector_checks(res, "truncated_svd", "direct call")

        ctx.evaluations += nevals - 1
        ctx.outcome(f"{mtag}/{icls}/{'exact' if exp_err == 0 else 'truncating'}")
        if len(ctx.samples) < 1 and base_ok and m >= 2 and n >= 2 and rank >= 1:
            ctx.sample({"case": case, "true_singular_values": s.tolist(), "expected_shapes": [list(x) for x in exp_shapes],
                        "returned_S": base[1].tolist(), "expected_error": exp_err})


CHECK = C05()
