"""C08 — decomposition outputs honour the requested structure and canonical form, on both exits.

Lattice: every decomposition entry point x shape (order 2-4, incl. size-1 modes) x rank specification x init x
(tol, n_iter_max) pairs that force both stopping paths (the path taken is recorded from the error-list length) x
normalisation flag.  Oracle: shapes / boundary ranks / orthonormality / core = projection / unit-norm columns with
the scale in weights or core / weights all ones.
"""
import itertools

import numpy as np

from vmc import itm
from vmc.runner import Check

TOL = 1e-9


def colnorms(f):
    return np.sqrt((np.abs(np.asarray(f)) ** 2).sum(axis=0))


def cp_shapes_ok(cp, shape, R):
    w, fs = cp[0], cp[1]
    if len(fs) != len(shape):
        return f"{len(fs)} factors for order {len(shape)}"
    for k, f in enumerate(fs):
        if tuple(np.shape(f)) != (shape[k], R):
            return f"factor {k} has shape {np.shape(f)}, expected {(shape[k], R)}"
    if w is not None and tuple(np.shape(w)) != (R,):
        return f"weights shape {np.shape(w)}, expected {(R,)}"
    return None


def expected_cp_rank(shape, rank):
    if rank == "same":
        rank = 1.0
    if isinstance(rank, float):
        return max(int(np.round(np.prod(shape) * rank / np.sum(shape))), 1)  # a decomposition has at least one component
    return rank


STOP = [("cap0", 0, None), ("cap1", 1, None), ("cap2", 2, None), ("cap50", 50, None), ("tol", 50, 1e-2), ("tol-tight", 50, 1e-5)]


def entries(tier):
    """(entry, family of shapes, list of option dicts)"""
    out = []
    for init in ("svd", "random"):
        for norm in (False, True):
            out.append(("parafac", {"init": init, "normalize_factors": norm}))
            out.append(("non_negative_parafac", {"init": init, "normalize_factors": norm}))
            out.append(("non_negative_parafac_hals", {"init": init, "normalize_factors": norm}))
            out.append(("non_negative_tucker", {"init": init, "normalize_factors": norm}))
            out.append(("non_negative_tucker_hals", {"init": init, "normalize_factors": norm}))
            out.append(("parafac2", {"init": init, "normalize_factors": norm, "linesearch": False}))
        out.append(("tucker", {"init": init}))
        out.append(("tucker", {"init": init, "svd": "symeig_svd"}))
        out.append(("randomised_parafac", {"init": init, "n_samples": 10}))
        out.append(("cmtf", {"init": init}))
    # "for all initialisations": a user-supplied CP tensor with non-unit weights
    for norm in (False, True):
        out.append(("parafac", {"init": "USERW", "normalize_factors": norm}))
        out.append(("non_negative_parafac", {"init": "USERW", "normalize_factors": norm}))
        out.append(("non_negative_parafac_hals", {"init": "USERW", "normalize_factors": norm}))
    out.append(("parafac", {"init": "svd", "normalize_factors": True, "linesearch": True}))
    for ent in ("parafac", "non_negative_parafac_hals", "parafac2", "cmtf"):
        out.append((ent, dict({"init": "random", "normalize_factors": True, "tenalg": "einsum"}, **({"linesearch": False} if ent == "parafac2" else {}))))
    out.append(("tucker", {"init": "random", "tenalg": "einsum"}))
    out.append(("non_negative_tucker_hals", {"init": "svd", "normalize_factors": True, "tenalg": "einsum"}))
    for sc in (1e-18, 1e18):
        out.append(("parafac", {"init": "random", "normalize_factors": True, "_scale": sc}))
        out.append(("parafac", {"init": "svd", "normalize_factors": True, "_scale": sc}))
        out.append(("non_negative_parafac", {"init": "random", "normalize_factors": True, "_scale": sc}))
    out.append(("parafac", {"init": "random", "normalize_factors": True, "l2_reg": 0.1}))
    out.append(("parafac", {"init": "svd", "orthogonalise": True}))                                   # (ranks above a mode size included: the wide factor is left alone)
    out.append(("parafac", {"init": "random", "orthogonalise": 2, "normalize_factors": True}))
    out.append(("CP-class", {"init": "svd", "normalize_factors": True}))
    out.append(("parafac2", {"init": "random", "normalize_factors": True, "linesearch": True}))
    out.append(("parafac2", {"init": "random", "normalize_factors": False, "linesearch": True, "nn_modes": "all"}))  # the function's default line search with the "all" shorthand
    out.append(("cmtf", {"init": "svd", "normalize_factors": True}))
    out.append(("tensor_ring_als", {"ls_solve": "lstsq"}))
    for svd in ("truncated_svd", "symeig_svd"):
        out.append(("tensor_train", {"svd": svd}))
        out.append(("tensor_ring", {"svd": svd}))
        out.append(("tensor_train_matrix", {"svd": svd}))
    out.append(("Tucker-class", {"init": "svd"}))
    out.append(("Parafac2-class", {"init": "random", "normalize_factors": True}))  # class defaults otherwise (return_errors=False, linesearch=False)
    out.append(("tucker-fixed-factors", {}))
    out.append(("TensorTrain-class", {}))
    return out


def shapes_for(entry, tier):
    q = tier == "quick"
    if entry in ("parafac2", "cmtf", "Parafac2-class"):
        return [(3, 4, 2), (2, 3, 3)] + ([] if q else [(4, 2, 3), (1, 3, 2)])
    if entry == "tensor_train_matrix":
        return [(2, 3, 2, 3), (2, 2, 3, 3)] + ([] if q else [(3, 2), (2, 2, 2, 2, 2, 2)])
    base = [(4, 3), (3, 4, 2), (2, 3, 2, 2), (1, 3, 2)]
    if not q:
        base += [(2, 2), (3, 3, 3), (4, 1, 3), (2, 2, 2, 2), (3, 1)]
    return base


def rank_specs(entry, shape, tier):
    n = len(shape)
    if entry in ("parafac", "non_negative_parafac", "non_negative_parafac_hals", "randomised_parafac", "CP-class", "cmtf", "parafac2", "Parafac2-class"):
        specs = [1, 2, 3]
        if entry in ("parafac", "CP-class", "non_negative_parafac"):
            specs += ["same", 0.5]
        return specs
    if entry == "tucker-fixed-factors":
        # rank spec = ordered list of fixed modes (every non-empty proper subset, in increasing and in decreasing order)
        out = []
        for k in range(1, n):
            for c in itertools.combinations(range(n), k):
                out.append(["fixed"] + list(c))
                if k >= 2:
                    out.append(["fixed"] + list(reversed(c)))
        return out
    if entry in ("tucker", "Tucker-class", "non_negative_tucker", "non_negative_tucker_hals"):
        specs = [[1] * n, [2] * n, [min(s, 2 + (k % 2)) for k, s in enumerate(shape)], [s + 1 for s in shape]]
        if entry in ("tucker", "Tucker-class"):
            specs += [2, "same", 0.5]
        return specs
    if entry in ("tensor_train", "TensorTrain-class"):
        specs = [[1] + [2] * (n - 1) + [1], [1] + [1] * (n - 1) + [1], [1] + [9] * (n - 1) + [1], 2, "same", 0.5,
                 [2] + [2] * (n - 1) + [1], [1] + [2] * (n - 1) + [2]]
        return specs
    if entry == "tensor_train_matrix":
        m = n // 2
        return [[1] + [2] * (m - 1) + [1], [1] + [1] * (m - 1) + [1], [1] + [50] * (m - 1) + [1], 2, [2] + [2] * (m - 1) + [1]]
    if entry in ("tensor_ring", "tensor_ring_als"):
        return [[1] + [2] * (n - 1) + [1], [2] * (n + 1), [1] * (n + 1), [2] + [1] * (n - 1) + [2], 2, [1] + [2] * (n - 1) + [2]]
    raise ValueError(entry)


class C08(Check):
    pid = "C08"
    level = "exploration"
    design_ref = "DESIGN.md §4 C08"
    rule = ("complete product: entry point x option set x shape (order 2-4 incl. size-1 modes) x rank specification (int, list, 'same', fraction, "
            "over-sized, boundary violations) x stopping configuration {cap 0,1,2,50, loose tol, tight tol}; non-trivial iff the call returned a "
            "decomposition (or was required to raise)")
    assumptions = ["fractional / 'same' ranks: CP rank recomputed from the documented formula; Tucker/TT/TR fractional ranks only checked for internal consistency",
                   "over-sized ranks: a factor may have min(rank, dim) columns; core and factors must agree",
                   "orthonormality / projection / unit-norm tolerances 1e-9 (symeig_svd 1e-6)",
                   "HOOI orthonormality is not demanded of a *random* initialisation returned with a zero iteration budget (no HOOI sweep has run)"]

    def groups(self, tier, seed):
        gs = []
        for i, (entry, opts) in enumerate(entries(tier)):
            for si, shape in enumerate(shapes_for(entry, tier)):
                gs.append({"entry": entry, "opts": opts, "shape": list(shape)})
        return gs

    def cases(self, group, tier, seed):
        entry, shape = group["entry"], tuple(group["shape"])
        iterative = entry not in ("tensor_train", "tensor_ring", "tensor_train_matrix", "TensorTrain-class")
        for rank in rank_specs(entry, shape, tier):
            for fam in (("generic", "lowrank") if tier == "quick" else ("generic", "lowrank", "integer")):
                if iterative:
                    for (sname, nit, tol) in STOP:
                        yield {"entry": entry, "opts": group["opts"], "shape": list(shape), "rank": rank, "family": fam, "stop": sname,
                               "n_iter_max": nit, "tol": tol, "seed": seed}
                else:
                    yield {"entry": entry, "opts": group["opts"], "shape": list(shape), "rank": rank, "family": fam, "stop": "direct", "seed": seed}

    # ------------------------------------------------------------------------------
    def run_case(self, case, ctx):
        import tensorly as tl

        if case["opts"].get("tenalg"):  # configuration axis: the second tensor-algebra implementation
            with tl.tenalg.backend_context(case["opts"]["tenalg"], local_threadsafe=True):
                return self._run_case(case, ctx)
        return self._run_case(case, ctx)

    def _run_case(self, case, ctx):
        import tensorly as tl
        from tensorly import decomposition as D

        entry, shape, rank, opts = case["entry"], tuple(case["shape"]), case["rank"], dict(case["opts"])
        tenalg_name = opts.pop("tenalg", None)
        n = len(shape)
        nonneg = entry.startswith("non_negative")
        fam = case["family"]
        if nonneg:
            fam = {"generic": "nonneg", "lowrank": "nonneg-lowrank", "integer": "sparse-nonneg"}[fam]
        X = itm.data_tensor(fam, shape, 2, case["seed"])
        if "_scale" in opts:  # the same data in a tiny / huge unit (numerical guards around "zero" norms)
            X = X * opts.pop("_scale")
        tag = entry + (":symeig_svd" if opts.get("svd") == "symeig_svd" else "") + (f":{tenalg_name}" if tenalg_name else "")
        if opts.get("init") == "USERW":
            if not isinstance(rank, int):
                ctx.count("guarded_out:user-init-needs-integer-rank")
                return
            w_, f_ = itm.cp_init(shape, rank, case["seed"], "positive", nonneg=nonneg)
            opts["init"] = (w_.copy(), [np.array(f, copy=True) for f in f_])
            tag += ":user-init-weights"
        rs = 0
        np.random.seed(20260927)
        nit, tol = case.get("n_iter_max"), case.get("tol")
        errs = None
        try:
            if entry in ("parafac", "CP-class"):
                t = 0 if tol is None else tol
                if entry == "parafac":
                    res, errs = D.parafac(X, rank, n_iter_max=nit, tol=t, random_state=rs, return_errors=True, **opts)
                else:
                    res = D.CP(rank, n_iter_max=nit, tol=t, random_state=rs, **opts).fit_transform(X)
            elif entry in ("non_negative_parafac", "non_negative_parafac_hals"):
                t = itm.TINY if tol is None else tol
                res, errs = getattr(D, entry)(X, rank, n_iter_max=nit, tol=t, random_state=rs, return_errors=True, **opts)
            elif entry == "randomised_parafac":
                t = itm.TINY if tol is None else tol
                res, errs = D.randomised_parafac(X, rank, n_iter_max=nit, tol=t, random_state=rs, return_errors=True, max_stagnation=0, **opts)
            elif entry == "tucker-fixed-factors":
                fixed = list(rank[1:])
                ranks_ff = [min(s_, 1 + (k % 2) + (1 if k == 0 else 0)) for k, s_ in enumerate(shape)]
                f_init = []
                for k, s_ in enumerate(shape):
                    q, _ = np.linalg.qr(itm.V.generic((s_, ranks_ff[k]), case["seed"] + 81 + k))
                    f_init.append(np.ascontiguousarray(q))
                core_init = itm.tucker_dense(X, [f.T for f in f_init])
                res = D.tucker(X, ranks_ff, n_iter_max=nit, tol=0 if tol is None else tol, random_state=rs,
                               init=(core_init.copy(), [f.copy() for f in f_init]), fixed_factors=list(fixed))
                case = dict(case, _supplied=f_init, _fixed=fixed, _ranks=ranks_ff)
            elif entry in ("tucker", "Tucker-class"):
                t = 0 if tol is None else tol
                if entry == "tucker":
                    res, errs = D.tucker(X, rank, n_iter_max=nit, tol=t, random_state=rs, return_errors=True, **opts)
                else:
                    res = D.Tucker(rank, n_iter_max=nit, tol=t, random_state=rs, **opts).fit_transform(X)
            elif entry in ("non_negative_tucker", "non_negative_tucker_hals"):
                t = 0 if tol is None else tol
                res, errs = getattr(D, entry)(X, rank, n_iter_max=nit, tol=t, random_state=rs, return_errors=True, **opts)
            elif entry == "parafac2":
                t = itm.TINY if tol is None else tol
                res, errs = D.parafac2(X, rank, n_iter_max=nit, tol=t, random_state=rs, return_errors=True, **opts)
            elif entry == "Parafac2-class":
                t = itm.TINY if tol is None else tol
                res = D.Parafac2(rank, n_iter_max=nit, tol=t, random_state=rs, **opts).fit_transform(X)
            elif entry == "cmtf":
                from tensorly.decomposition._cmtf_als import coupled_matrix_tensor_3d_factorization as cmtf

                Y = itm.data_tensor(fam, (shape[0], 3), 2, case["seed"] + 50)
                res_t, res_m, errs = cmtf(X, Y, rank, n_iter_max=nit, tol=0 if tol is None else tol, **opts)
                res = (res_t, res_m)
            elif entry == "tensor_ring_als":
                res = D.tensor_ring_als(X, rank, n_iter_max=nit, tol=0 if tol is None else tol, random_state=rs, **opts)
            elif entry == "tensor_train":
                res = D.tensor_train(X, rank, **opts)
            elif entry == "TensorTrain-class":
                res = D.TensorTrain(rank).fit_transform(X)
            elif entry == "tensor_ring":
                res = D.tensor_ring(X, rank, **opts)
            elif entry == "tensor_train_matrix":
                m = n // 2
                Xm = X
                res = D.tensor_train_matrix(Xm, rank, **opts)
            else:
                raise ValueError(entry)
        except Exception as e:
            cls = f"{type(e).__name__}"
            must_raise = self.must_raise(entry, shape, rank)
            if must_raise:
                ctx.nontriv()
                ctx.outcome(f"{entry}:rejected-invalid-rank")
            elif isinstance(rank, (float, str)) and not isinstance(e, np.linalg.LinAlgError):
                ctx.violation(f"{tag}/raises-on-fractional-rank-spec/{cls}", f"{case}: {cls}: {e}")
            elif not (isinstance(e, np.linalg.LinAlgError)                                                     # singular block problem
                      or (isinstance(e, AssertionError) and "PARAFAC2 rank" in str(e))                          # documented: rank <= number of columns
                      or (entry in ("parafac2", "Parafac2-class") and isinstance(rank, int) and rank > shape[1])   # no J_i x R matrix with orthonormal columns exists for R > J_i: not a valid request
                      or (isinstance(e, ValueError) and entry.startswith("tensor_ring") and "larger than" in str(e))  # documented TR-SVD restriction
                      or (isinstance(e, UnboundLocalError) and entry == "cmtf" and nit == 0)):                  # CMTF cannot run zero sweeps
                # anything else on a valid request means no decomposition was returned at all
                ctx.violation(f"{tag}/raises-on-valid-request/{cls}", f"{case}: {cls}: {e}")
            else:
                ctx.count(f"guarded_out:raises:{entry}:{cls}:{str(e)[:40]}")
                ctx.outcome(f"{entry}:raised")
            return
        if self.must_raise(entry, shape, rank):
            # The statement demands the boundary conditions of the RESULT; a specification that violates them has to be either refused
            # or not honoured (single-core TT-matrix: the specification is irrelevant and ignored) - it must never come back in the output.
            try:
                cores = [np.asarray(c) for c in res]
                ok_boundary = (cores[0].shape[0] == cores[-1].shape[-1]) and (entry.startswith("tensor_ring") or cores[0].shape[0] == 1)
            except Exception:
                ok_boundary = False
            if not ok_boundary:
                ctx.violation(f"{tag}/invalid-boundary-rank-accepted", f"{case}: rank {rank} violates the boundary condition of the format, no error was raised and the result carries it")
                return
            ctx.count("invalid-boundary-spec-not-refused-but-result-has-valid-boundary")
            ctx.outcome(f"{entry}:invalid-spec-ignored")
        ctx.nontriv()
        path = "n/a"
        if errs is not None and tol is not None:
            path = "convergence-exit" if len(errs) < nit else "cap-exit"
        elif nit is not None:
            path = "cap-exit"
        if nit == 0:
            path = "zero-sweeps"
        ctx.outcome(f"{entry}:{path}")
        atol = 1e-6 if opts.get("svd") == "symeig_svd" else TOL
        where = f"{case['stop']}:{path}"

        def viol(aspect, detail):
            ctx.violation(f"{tag}/{aspect}/{path}", f"{case} [{where}]: {detail}")

        # ---------------- CP family
        if entry in ("parafac", "CP-class", "non_negative_parafac", "non_negative_parafac_hals", "randomised_parafac"):
            R = expected_cp_rank(shape, rank)
            msg = cp_shapes_ok(res, shape, R)
            if msg:
                return viol("shape", msg)
            self.check_cp_norm(res, bool(opts.get("normalize_factors")), viol)
        elif entry == "cmtf":
            (tcp, mcp) = res
            msg = cp_shapes_ok(tcp, shape, rank) or cp_shapes_ok(mcp, (shape[0], 3), rank)
            if msg:
                return viol("shape", msg)
            if opts.get("normalize_factors"):
                self.check_cp_norm(tcp, True, viol)
                self.check_cp_norm(mcp, True, viol)
                # "the scale is carried by the weights": CMTF normalises its two outputs once, after the last sweep, so the normalised
                # outputs represent exactly the tensors of the same run without normalisation
                try:
                    from tensorly.decomposition._cmtf_als import coupled_matrix_tensor_3d_factorization as cmtf

                    np.random.seed(20260927)
                    Y = itm.data_tensor(fam, (shape[0], 3), 2, case["seed"] + 50)
                    o2 = {k: v for k, v in opts.items() if k != "normalize_factors"}
                    t0, m0, _ = cmtf(X, Y, rank, n_iter_max=nit, tol=0 if tol is None else tol, **o2)
                    for nm, a, b in (("tensor", tcp, t0), ("matrix", mcp, m0)):
                        da, db = itm.cp_dense(a[0], a[1]), itm.cp_dense(b[0], b[1])
                        if np.abs(da - db).max() > 1e-9 * max(1.0, np.abs(db).max()):
                            viol(f"normalised-{nm}-output-represents-another-tensor",
                                 f"{nm} output with normalize_factors=True differs from the un-normalised run by {np.abs(da - db).max():.3e}")
                except np.linalg.LinAlgError:
                    ctx.count("guarded_out:cmtf-unnormalised-twin-singular")
        elif entry in ("parafac2", "Parafac2-class"):
            w, fs, projs = res
            R = rank
            exp = [(shape[0], R), (R, R), (shape[2], R)]
            for k in range(3):
                if tuple(np.shape(fs[k])) != exp[k]:
                    return viol("shape", f"factor {k} has shape {np.shape(fs[k])}, expected {exp[k]}")
            if len(projs) != shape[0]:
                return viol("projections-count", f"{len(projs)} projections for {shape[0]} slices")
            for i, P in enumerate(projs):
                P = np.asarray(P)
                if P.shape != (shape[1], R):
                    return viol("shape", f"projection {i} has shape {P.shape}, expected {(shape[1], R)}")
                if np.abs(P.T @ P - np.eye(R)).max() > 1e-8:
                    return viol("projection-not-orthonormal", f"projection {i}: max|P^T P - I| = {np.abs(P.T @ P - np.eye(R)).max():.2e}")
            B = np.asarray(fs[1])
            ref = B.T @ B
            for i, P in enumerate(projs):
                Bi = np.asarray(P) @ B
                if np.abs(Bi.T @ Bi - ref).max() > 1e-8 * max(1.0, np.abs(ref).max()):
                    return viol("evolving-factors-cross-product", f"slice {i}: B_i^T B_i differs from B^T B")
            self.check_cp_norm((w, fs), bool(opts.get("normalize_factors")), viol, allow_nonunit_weights=True)
        elif entry == "tucker-fixed-factors":
            core, fs = np.asarray(res[0]), [np.asarray(f) for f in res[1]]
            if len(fs) != n:
                return viol("shape", f"{len(fs)} factors for order {n}")
            for k, f in enumerate(fs):
                if f.shape != (shape[k], case["_ranks"][k]):
                    return viol("shape", f"fixed_factors={case['_fixed']}: factor {k} has shape {f.shape}, expected {(shape[k], case['_ranks'][k])}")
                if core.shape[k] != f.shape[1]:
                    return viol("shape", f"fixed_factors={case['_fixed']}: core shape {core.shape} vs factor {k} shape {f.shape}")
            for k in case["_fixed"]:
                if fs[k].tobytes() != case["_supplied"][k].tobytes():
                    return viol("fixed-factor-not-returned-in-place", f"fixed_factors={case['_fixed']}: factor {k} is not the supplied one")
        # ---------------- Tucker family
        elif entry in ("tucker", "Tucker-class", "non_negative_tucker", "non_negative_tucker_hals"):
            core, fs = res[0], res[1]
            core = np.asarray(core)
            if len(fs) != n or core.ndim != n:
                return viol("shape", f"{len(fs)} factors, core order {core.ndim}")
            explicit = isinstance(rank, (list, tuple))
            for k, f in enumerate(fs):
                f = np.asarray(f)
                if f.shape[0] != shape[k] or f.shape[1] != core.shape[k]:
                    return viol("shape", f"factor {k} shape {f.shape} vs mode size {shape[k]} and core shape {core.shape}")
                if explicit and f.shape[1] not in (rank[k], min(rank[k], shape[k])):
                    return viol("rank-not-honoured", f"factor {k} has {f.shape[1]} columns, requested rank {rank[k]} (mode size {shape[k]})")
                if isinstance(rank, int) and f.shape[1] not in (rank, min(rank, shape[k])):
                    return viol("rank-not-honoured", f"factor {k} has {f.shape[1]} columns, requested rank {rank}")
            if entry in ("tucker", "Tucker-class"):
                skip_orth = (opts.get("init") == "random" and nit == 0)
                if not skip_orth:
                    for k, f in enumerate(fs):
                        f = np.asarray(f)
                        if f.shape[1] <= f.shape[0] and np.abs(f.T @ f - np.eye(f.shape[1])).max() > 1e-8:
                            return viol("factor-not-orthonormal", f"factor {k}: max|U^T U - I| = {np.abs(f.T @ f - np.eye(f.shape[1])).max():.2e}")
                    proj = itm.tucker_dense(X, [np.asarray(f).T for f in fs])
                    if proj.shape == core.shape and np.abs(proj - core).max() > 1e-8 * max(1.0, np.abs(X).max()):
                        return viol("core-not-projection", f"max|core - X x_n U_n^T| = {np.abs(proj - core).max():.2e}")
            else:
                if opts.get("normalize_factors"):
                    for k, f in enumerate(fs):
                        cn = colnorms(f)
                        badc = [j for j in range(len(cn)) if cn[j] != 0 and abs(cn[j] - 1) > 1e-8]  # (an exactly zero column stays zero)
                        if badc:
                            return viol("factor-columns-not-unit-norm", f"factor {k} column norms {cn}")
        # ---------------- TT / TR
        elif entry in ("tensor_train", "TensorTrain-class", "tensor_train_matrix", "tensor_ring", "tensor_ring_als"):
            cores = [np.asarray(c) for c in res]
            ring = entry.startswith("tensor_ring")
            if entry == "tensor_train_matrix":
                m = n // 2
                if len(cores) != m:
                    return viol("shape", f"{len(cores)} cores for {m} matrix modes")
                for k, c in enumerate(cores):
                    if c.ndim != 4 or c.shape[1] != shape[k] or c.shape[2] != shape[k + m]:
                        return viol("shape", f"core {k} has shape {c.shape} for in/out sizes {(shape[k], shape[k + m])}")
            else:
                if len(cores) != n:
                    return viol("shape", f"{len(cores)} cores for order {n}")
                for k, c in enumerate(cores):
                    if c.ndim != 3 or c.shape[1] != shape[k]:
                        return viol("shape", f"core {k} has shape {c.shape} for mode size {shape[k]}")
            for k in range(len(cores) - 1):
                if cores[k].shape[-1] != cores[k + 1].shape[0]:
                    return viol("ranks-do-not-chain", f"core {k} right rank {cores[k].shape[-1]} != core {k+1} left rank {cores[k+1].shape[0]}")
            if ring:
                if cores[0].shape[0] != cores[-1].shape[-1]:
                    return viol("ring-not-closed", f"first rank {cores[0].shape[0]} != last rank {cores[-1].shape[-1]}")
            else:
                if cores[0].shape[0] != 1 or cores[-1].shape[-1] != 1:
                    return viol("boundary-rank-not-1", f"boundary ranks {cores[0].shape[0]}, {cores[-1].shape[-1]}")
            if isinstance(rank, list):
                got = [c.shape[0] for c in cores] + [cores[-1].shape[-1]]
                if any(g > r for g, r in zip(got, rank)):
                    return viol("rank-exceeds-requested", f"returned ranks {got}, requested {rank}")
            if entry in ("tensor_train", "TensorTrain-class", "tensor_train_matrix") and isinstance(rank, list) and len(cores) > 1 and rank[0] == 1 and rank[-1] == 1:
                # the returned TT ranks are the requested ones clipped by the SIZES of the unfoldings only - never by the data
                sizes = list(shape) if entry != "tensor_train_matrix" else [shape[k] * shape[k + n // 2] for k in range(n // 2)]
                exp, r_prev = [1], 1
                for k in range(len(sizes) - 1):
                    r_prev = min(r_prev * sizes[k], int(np.prod(sizes[k + 1:])), rank[k + 1])
                    exp.append(r_prev)
                exp.append(1)
                got = [c.shape[0] for c in cores] + [cores[-1].shape[-1]]
                if got != exp:
                    return viol("ranks-differ-from-requested-clipped-by-sizes", f"returned TT ranks {got}, requested {rank} clipped by the unfolding sizes gives {exp}")
            if entry in ("tensor_train", "TensorTrain-class", "tensor_train_matrix"):
                for k, c in enumerate(cores[:-1]):
                    M = c.reshape(-1, c.shape[-1])
                    if np.abs(M.T @ M - np.eye(M.shape[1])).max() > max(atol, 1e-8):
                        return viol("core-not-left-orthogonal", f"core {k}: max|G^T G - I| = {np.abs(M.T @ M - np.eye(M.shape[1])).max():.2e}")
        if not ctx.samples:
            ctx.sample({"case": case, "path": path})

    def check_cp_norm(self, cp, normalized, viol, allow_nonunit_weights=False):
        w, fs = cp[0], cp[1]
        if normalized:
            for k, f in enumerate(fs):
                cn = colnorms(f)
                badc = [j for j in range(len(cn)) if cn[j] != 0 and abs(cn[j] - 1) > 1e-8]  # (an exactly zero column stays zero)
                if badc:
                    viol("factor-columns-not-unit-norm", f"normalize_factors=True but factor {k} has column norms {cn} (weights {None if w is None else np.asarray(w)})")
                    return
        else:
            if w is not None and not allow_nonunit_weights and not np.all(np.asarray(w) == 1):
                viol("weights-not-ones", f"normalize_factors=False but weights = {np.asarray(w)}")

    @staticmethod
    def must_raise(entry, shape, rank):
        if not isinstance(rank, list) or (rank and rank[0] == "fixed"):
            return False
        if entry in ("tensor_train", "TensorTrain-class", "tensor_train_matrix"):
            return rank[0] != 1 or rank[-1] != 1
        if entry in ("tensor_ring", "tensor_ring_als"):
            return rank[0] != rank[-1]
        return False


CHECK = C08()
