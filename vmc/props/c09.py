"""C09 — SVD-based decompositions: exact at sufficient rank, else quasi-optimal.

Lattice (complete): shape x input family x algorithm x EVERY rank vector (1 .. beyond the sizes) x exact SVD
method (x n_iter_max for Tucker, x start mode for tensor_ring).

Oracle: certificates computed from the singular values of the unfoldings of the *input* (numpy.linalg.svd on
unfoldings formed by the harness, vmc/ref/c09_ref.py) and from a dense reconstruction formed by the harness
from the returned cores/factors (not by tensorly):

  tucker          err <= sqrt(sum_n tail_n(r_n)^2) + eps      (HOSVD bound, HOOI can only lower the error)
                  err >= max_n tail_n(r_n) - eps              (Eckart-Young per mode at the REQUESTED ranks)
  tensor_train    err <= sqrt(sum_k tail_k(r_k)^2) + eps      (Oseledets Thm 2.2), same lower bound on the
                                                               sequential unfoldings
  tt-matrix       exactness (all tails of the interleaved/merged tensor vanish => err <= eps) + lower bound
  tensor_ring     exactness under an independently evaluated sufficient condition, lower bound
                  err >= tail_{[a,b)}(r_a r_b) for every cyclic interval of modes, ValueError only when the
                  documented first-matricisation condition fails
  all             returned ranks <= requested ranks (the advertised ranks are respected)

"exactness" is the special case of the upper bound in which every discarded tail is zero (<= 1e-12 |X|); it is
reported under its own aspect.  eps = 1e-9 |X| (truncated_svd) / 1e-6 |X| (symeig_svd), DESIGN §1.6.
"""
import itertools

import numpy as np

from vmc.ref import c09_ref as R
from vmc.runner import Check

SVDS = ["truncated_svd", "symeig_svd"]
TOL = {"truncated_svd": 1e-9, "symeig_svd": 1e-6}
ZERO_TAIL = 1e-12  # relative: "the requested ranks are at least the ranks of the unfoldings"
TUCKER_ITERS = [0, 1, 100]  # 0 = pure HOSVD initialisation, 100 = library default

_CACHE = {}


def info(shape, fam, seed, ttm=False):
    key = (tuple(shape), fam, seed, ttm)
    t = _CACHE.get(key)
    if t is None:
        if len(_CACHE) > 8:
            _CACHE.clear()
        t = R.TensorInfo(shape, fam, seed, ttm=ttm)
        _CACHE[key] = t
    return t


def shapes_for(tier):
    out = []
    if tier == "quick":
        for n in (2, 3, 4):
            out += list(itertools.product((2, 3), repeat=n))
    else:
        for n in (2, 3, 4):
            out += list(itertools.product((2, 3, 4), repeat=n))
        out += list(itertools.product((2, 3), repeat=5))
    return out


def tr_bound(shape):
    return max(shape) + 1


def tr_sufficient(T, rank, mode):
    """Independent sufficient condition for TR-SVD started at `mode` to be exact with requested ranks
    rank[k] (= first dimension of core k, rank[d] = rank[0]).

    Rotated frame: sizes n_j = I_{(mode+j)%d}, R_j = rank[(mode+j)%d].  Step 0 keeps R_0 R_1 singular triplets of
    the mode unfolding (exact iff >= its rank).  Before step j (1 <= j <= d-2) the matrix to be split has
    rank <= min(rows, cols, R_0 * rank of the unfolding whose rows are the first j+1 rotated modes); requesting
    at least that much means nothing is truncated.  Returns 'inadmissible' | 'sufficient' | 'insufficient' |
    'ambiguous' (a singular value of a relevant unfolding lies in the grey zone 1e-13..1e-6)."""
    d = len(T.shape)
    n = [T.shape[(mode + j) % d] for j in range(d)]
    Rr = [rank[(mode + j) % d] for j in range(d)]
    rest = 1
    for x in n[1:]:
        rest *= x
    if Rr[0] * Rr[1] > min(n[0], rest):
        return "inadmissible"
    amb = False
    rho, a = R.numrank(T.iv[(mode, 1)][0])
    amb |= a
    ok = Rr[0] * Rr[1] >= rho
    eff = Rr[1]
    for j in range(1, d - 1):
        rows = eff * n[j]
        cols = Rr[0]
        for x in n[j + 1:]:
            cols *= x
        rho, a = R.numrank(T.iv[(mode, j + 1)][0])
        amb |= a
        need = min(rows, cols, Rr[0] * rho)
        nxt = Rr[(j + 1) % d]
        if nxt < need:
            ok = False
        eff = min(rows, cols, nxt)
    if amb:
        return "ambiguous"
    return "sufficient" if ok else "insufficient"


class C09(Check):
    pid = "C09"
    level = "exploration"
    design_ref = "DESIGN.md §4 C09"
    rule = ("complete product: shape (order 2-4 dims {2,3} quick; order 2-4 dims {2,3,4} + order 5 dims {2,3} thorough) x 5 "
            "input families (generic irrational, integer, exactly low multilinear rank, exactly low TT rank, rank-deficient "
            "integer with duplicated/zero/dependent slices) x {tucker: every rank vector 1..dim+1 x n_iter_max {0,1,100}; "
            "tensor_train: every TT rank vector 1..unfolding size+1; tensor_train_matrix (even order): every TT rank vector of "
            "the merged tensor; tensor_ring: every rank vector in [1..max dim+1]^d x every start mode} x svd in "
            "{truncated_svd, symeig_svd}.  One case = one library call.  Non-trivial iff the library returned a "
            "decomposition and the input has an unfolding of numerical rank >= 2 (so the bounds are not all trivially 0 / |X|).")
    assumptions = [
        "numpy.linalg.svd (singular values of harness-built unfoldings), np.tensordot/np.trace (harness-side dense reconstruction) are trusted",
        "tolerance ladder (DESIGN §1.6): eps = 1e-9*|X| with truncated_svd, 1e-6*|X| with symeig_svd; a discarded tail <= 1e-12*|X| counts as zero",
        "Tucker upper bound = HOSVD bound (De Lathauwer et al.), valid after any number of HOOI sweeps because each sweep cannot lower |core|; "
        "TT bound = Oseledets 2011 Thm 2.2; lower bounds = Eckart-Young applied to each unfolding at the requested ranks",
        "tensor_ring exactness is demanded only under the sufficient condition of tr_sufficient() (rank products vs ranks of the "
        "unfoldings met by the sweep); TT-matrix and tensor_ring upper bounds for truncating ranks are not demanded",
    ]

    # ---------------------------------------------------------------------------------- space
    def groups(self, tier, seed):
        gs = []
        for s in shapes_for(tier):
            cost = int(np.prod([x + 1 for x in s])) * int(np.prod(s))
            for fam in R.FAMILIES:
                gs.append((cost, {"shape": list(s), "fam": fam}))
        gs.sort(key=lambda t: -t[0])  # expensive groups first (better packing); order is deterministic
        return [g for _, g in gs]

    def cases(self, group, tier, seed):
        shape = tuple(group["shape"])
        fam = group["fam"]
        d = len(shape)
        base = {"shape": list(shape), "fam": fam, "seed": seed}
        for rk in itertools.product(*[range(1, n + 2) for n in shape]):
            for svd in SVDS:
                for it in TUCKER_ITERS:
                    yield dict(base, alg="tucker", rank=list(rk), svd=svd, iters=it)
        for rk in R.tt_rank_space(shape):
            for svd in SVDS:
                yield dict(base, alg="tt", rank=rk, svd=svd)
        if d % 2 == 0:
            n = d // 2
            merged = [a * b for a, b in zip(shape[:n], shape[n:])]
            for rk in R.tt_rank_space(merged):
                for svd in SVDS:
                    yield dict(base, alg="ttm", rank=rk, svd=svd)
        B = tr_bound(shape)
        for rk in itertools.product(range(1, B + 1), repeat=d):
            for mode in range(d):
                for svd in SVDS:
                    yield dict(base, alg="tr", rank=list(rk) + [rk[0]], mode=mode, svd=svd)
                if fam == "generic":
                    yield dict(base, alg="tr", rank=list(rk) + [rk[0]], mode=mode, svd=SVDS[mode % len(SVDS)], api="class")

        # ---- HOOI with the stopping test switched off (tol=0 / None): core and factors must still belong together
        for rk in itertools.product(*[range(1, n + 2) for n in shape]):
            yield dict(base, alg="tucker", rank=list(rk), svd="truncated_svd", iters=2, tol=0)
            yield dict(base, alg="tucker", rank=list(rk), svd="truncated_svd", iters=1, tol=None)
        # ---- Tucker under the einsum tensor-algebra backend (HOSVD only, and with sweeps)
        for rk in itertools.product(*[range(1, n + 2) for n in shape]):
            yield dict(base, alg="tucker", rank=list(rk), svd="truncated_svd", iters=0, tenalg="einsum")
            yield dict(base, alg="tucker", rank=list(rk), svd="truncated_svd", iters=2, tenalg="einsum")
        # ---- int64-dtype input for the integer-valued family (truncated_svd; full rank space of TT and TR, HOSVD+HOOI for Tucker)
        if fam == "integer":
            for rk in R.tt_rank_space(shape):
                yield dict(base, alg="tt", rank=rk, svd="truncated_svd", dtype="int64")
            for rk in itertools.product(range(1, B + 1), repeat=d):
                for mode in range(d):
                    yield dict(base, alg="tr", rank=list(rk) + [rk[0]], mode=mode, svd="truncated_svd", dtype="int64")
            for rk in itertools.product(*[range(1, n + 2) for n in shape]):
                yield dict(base, alg="tucker", rank=list(rk), svd="truncated_svd", iters=1, dtype="int64")
        # ---- two-call histories sharing the rank list object (first call on a smaller tensor of the same order)
        if fam in ("generic", "integer") and max(shape) >= 3:
            small = [2] * d
            full_tt = [1] + [int(min(np.prod(shape[:k]), np.prod(shape[k:]))) for k in range(1, d)] + [1]
            yield dict(base, alg="tt", rank=full_tt, svd="truncated_svd", prelude=small)
            yield dict(base, alg="tt", rank=[1] + [max(2, r - 1) for r in full_tt[1:-1]] + [1], svd="truncated_svd", prelude=small)
            yield dict(base, alg="tucker", rank=list(shape), svd="truncated_svd", iters=1, prelude=small)
            if d % 2 == 0:
                n = d // 2
                merged = [a * b for a, b in zip(shape[:n], shape[n:])]
                full_m = [1] + [int(min(np.prod(merged[:k]), np.prod(merged[k:]))) for k in range(1, n)] + [1]
                yield dict(base, alg="ttm", rank=full_m, svd="truncated_svd", prelude=small)
            for mode in range(d):
                rk = [min(B, 3)] * d
                yield dict(base, alg="tr", rank=rk + [rk[0]], mode=mode, svd="truncated_svd", prelude=small)

    # ---------------------------------------------------------------------------------- oracle
    def run_case(self, case, ctx):
        alg = case["alg"]
        self._shared = None
        if case.get("prelude"):
            # history of two calls sharing ONE caller-owned rank list: the first call decomposes a smaller tensor (its ranks get
            # clamped), the second - the one judged below - must still honour the ranks as requested
            from tensorly import decomposition as D

            self._shared = list(case["rank"])
            small = info(case["prelude"], "generic", case.get("seed", 0), ttm=(alg == "ttm"))
            try:
                if alg == "tt":
                    D.tensor_train(small.X.copy(), rank=self._shared, svd=case["svd"])
                elif alg == "ttm":
                    D.tensor_train_matrix(small.X.copy(), rank=self._shared, svd=case["svd"])
                elif alg == "tr":
                    D.tensor_ring(small.X.copy(), rank=self._shared, mode=case["mode"], svd=case["svd"])
                elif alg == "tucker":
                    D.tucker(small.X.copy(), rank=self._shared, svd=case["svd"], n_iter_max=case["iters"], random_state=0)
            except Exception as e:
                ctx.count(f"guarded_out:prelude-call-raises:{type(e).__name__}")
                self._shared = None
                return
        try:
            if case.get("tenalg"):  # configuration axis: the second tensor-algebra implementation (Tucker projects with multi_mode_dot)
                import tensorly as tl

                with tl.tenalg.backend_context(case["tenalg"], local_threadsafe=True):
                    getattr(self, "_run_" + alg)(case, ctx)
            else:
                getattr(self, "_run_" + alg)(case, ctx)
        finally:
            self._shared = None

    def _rank_arg(self, case, rank):
        return self._shared if getattr(self, "_shared", None) is not None else list(rank)

    @staticmethod
    def _x(case, T):
        # integer-valued data is also fed as an integer-dtype array (the decomposition must not truncate its factors to integers)
        return T.X.astype(np.int64) if case.get("dtype") == "int64" else T.X.copy()

    @staticmethod
    def _desc(case, **kw):
        d = {k: v for k, v in case.items() if k != "seed"}
        d.update(kw)
        return ", ".join(f"{k}={v}" for k, v in d.items()) + f", seed={case.get('seed', 0)}"

    def _judge(self, ctx, case, T, site, cls, err, ub, lb, demand_ub, demand_exact):
        """Common verdict. ub/lb are the certificate bounds (absolute), err the true error (absolute)."""
        norm = T.norm
        tol = TOL[case["svd"]] * norm
        exact_expected = (ub <= ZERO_TAIL * norm) if demand_exact is None else demand_exact
        if not np.isfinite(err):
            ctx.violation(f"{site}/nonfinite-result/{cls}", self._desc(case, err=err))
            ctx.outcome(f"{case['alg']}:nonfinite")
            return
        bad = False
        if exact_expected:
            ctx.outcome(f"{case['alg']}:sufficient-rank")
            if err > tol:
                bad = True
                ctx.violation(f"{site}/exactness/{cls}",
                              self._desc(case) + f": requested ranks >= ranks of the unfoldings, yet |X - rec| = {err:.6g} "
                              f"(|X| = {norm:.6g}, allowed {tol:.3g})")
        else:
            ctx.outcome(f"{case['alg']}:truncating")
            if demand_ub:
                if err > ub + tol:
                    bad = True
                    ctx.violation(f"{site}/upper-bound/{cls}",
                                  self._desc(case) + f": |X - rec| = {err:.9g} > root-sum-square of discarded tails = {ub:.9g} "
                                  f"(|X| = {norm:.6g}, slack {tol:.3g})")
            else:
                ctx.count("upper_bound_not_demanded")
                if ub is not None:  # informational only (TT-matrix): never a violation
                    ctx.count("upper_bound_not_demanded_but_holds" if err <= ub + tol else "upper_bound_not_demanded_and_exceeded")
        if err < lb - tol:
            bad = True
            ctx.violation(f"{site}/lower-bound/{cls}",
                          self._desc(case) + f": |X - rec| = {err:.9g} is BELOW the largest discarded tail {lb:.9g} at the "
                          f"requested ranks (|X| = {norm:.6g}) -- the result has larger rank than advertised")
        if lb > 1e-6 * norm:
            ctx.count("informative_lower_bound")
        if T.maxrank >= 2:
            ctx.nontriv()
        if not bad and not exact_expected and lb > 1e-3 * norm and case["alg"] in ("tt", "tucker") and case.get("iters", 100) == 100 \
                and not any(s_["case"]["alg"] == case["alg"] for s_ in ctx.samples):
            ctx.sample({"case": case, "err": err, "upper_bound": ub, "lower_bound": lb, "norm": norm})

    # ---- Tucker
    def _run_tucker(self, case, ctx):
        from tensorly.decomposition import tucker

        T = info(case["shape"], case["fam"], case.get("seed", 0))
        svd, rank = case["svd"], list(case["rank"])
        cls = f"{svd}:{case['fam']}"
        ctx.count("calls:tucker")
        try:
            res = tucker(self._x(case, T), rank=self._rank_arg(case, rank), svd=svd, n_iter_max=case["iters"], random_state=0,
                         **({"tol": case["tol"]} if "tol" in case else {}))
            core, factors = res
            core = np.asarray(core)
            factors = [np.asarray(f) for f in factors]
        except Exception as e:
            ctx.outcome("tucker:exception")
            ctx.violation(f"tucker/raises/{type(e).__name__}:{cls}", self._desc(case) + f": {type(e).__name__}: {e}")
            return
        site = "tucker" if case["iters"] else "tucker-hosvd-only"
        got = [f.shape[1] if f.ndim == 2 else -1 for f in factors]
        if len(factors) != len(rank) or tuple(core.shape) != tuple(got) or [f.shape[0] for f in factors] != list(T.shape):
            ctx.outcome("tucker:malformed")
            ctx.violation(f"{site}/malformed-result/{cls}", self._desc(case) + f": core {core.shape}, factor shapes {[f.shape for f in factors]}")
            return
        if any(g > r for g, r in zip(got, rank)):
            ctx.violation(f"{site}/rank-exceeds-requested/{cls}", self._desc(case) + f": core {core.shape}, factor shapes {[f.shape for f in factors]}")
        err = R.frob(T.X - R.tucker_dense(core, factors))
        tails = [T.mode_tail(n, rank[n]) for n in range(len(rank))]
        ub = float(np.sqrt(sum(t * t for t in tails)))
        lb = max(tails)
        self._judge(ctx, case, T, site, cls, err, ub, lb, True, None)

    # ---- TT-SVD
    def _run_tt(self, case, ctx):
        from tensorly.decomposition import tensor_train

        T = info(case["shape"], case["fam"], case.get("seed", 0))
        svd, rank = case["svd"], list(case["rank"])
        cls = f"{svd}:{case['fam']}"
        ctx.count("calls:tensor_train")
        try:
            res = tensor_train(self._x(case, T), rank=self._rank_arg(case, rank), svd=svd)
            cores = [np.asarray(f) for f in res.factors]
        except Exception as e:
            ctx.outcome("tt:exception")
            ctx.violation(f"tensor_train/raises/{type(e).__name__}:{cls}", self._desc(case) + f": {type(e).__name__}: {e}")
            return
        okshape = len(cores) == len(T.shape) and all(c.ndim == 3 for c in cores) and [c.shape[1] for c in cores] == list(T.shape) and all(
            cores[k].shape[2] == cores[k + 1].shape[0] for k in range(len(cores) - 1))
        got = [c.shape[0] for c in cores] + [cores[-1].shape[-1]]
        if not okshape or got[0] != 1 or got[-1] != 1:
            ctx.outcome("tt:malformed")
            ctx.violation(f"tensor_train/malformed-result/{cls}", self._desc(case) + f": core shapes {[c.shape for c in cores]}")
            return
        if any(g > r for g, r in zip(got, rank)):
            ctx.violation(f"tensor_train/rank-exceeds-requested/{cls}", self._desc(case) + f": core shapes {[c.shape for c in cores]}")
        err = R.frob(T.X - R.tt_dense(cores))
        tails = [T.seq_tail(k, rank[k]) for k in range(1, len(T.shape))]
        ub = float(np.sqrt(sum(t * t for t in tails)))
        lb = max(tails)
        self._judge(ctx, case, T, "tensor_train", cls, err, ub, lb, True, None)

    # ---- TT-matrix
    def _run_ttm(self, case, ctx):
        from tensorly.decomposition import tensor_train_matrix

        T = info(case["shape"], case["fam"], case.get("seed", 0), ttm=True)
        svd, rank = case["svd"], list(case["rank"])
        cls = f"{svd}:{case['fam']}"
        n = len(T.shape) // 2
        ctx.count("calls:tensor_train_matrix")
        try:
            res = tensor_train_matrix(self._x(case, T), rank=self._rank_arg(case, rank), svd=svd)
            cores = [np.asarray(f) for f in res.factors]
        except Exception as e:
            ctx.outcome("ttm:exception")
            ctx.violation(f"tensor_train_matrix/raises/{type(e).__name__}:{cls}", self._desc(case) + f": {type(e).__name__}: {e}")
            return
        got = [c.shape[0] for c in cores] + [cores[-1].shape[-1]]
        okshape = len(cores) == n and all(c.ndim == 4 for c in cores) and [c.shape[1] for c in cores] == list(T.shape[:n]) and \
            [c.shape[2] for c in cores] == list(T.shape[n:]) and all(cores[k].shape[3] == cores[k + 1].shape[0] for k in range(n - 1))
        if not okshape or got[0] != 1 or got[-1] != 1:
            ctx.outcome("ttm:malformed")
            ctx.violation(f"tensor_train_matrix/malformed-result/{cls}", self._desc(case) + f": core shapes {[c.shape for c in cores]}")
            return
        if any(g > r for g, r in zip(got, rank)):
            ctx.violation(f"tensor_train_matrix/rank-exceeds-requested/{cls}", self._desc(case) + f": core shapes {[c.shape for c in cores]}")
        err = R.frob(T.Z - R.ttm_dense_interleaved(cores))  # compared in interleaved index order (i1,o1,i2,o2,..)
        tails = [R.tail_at(T.seq[k - 1][1], rank[k]) for k in range(1, n)]
        ub = float(np.sqrt(sum(t * t for t in tails))) if tails else 0.0
        lb = max(tails) if tails else 0.0
        self._judge(ctx, case, T, "tensor_train_matrix", cls, err, ub, lb, False, None)

    # ---- TR-SVD
    def _run_tr(self, case, ctx):
        from tensorly.decomposition import tensor_ring

        T = info(case["shape"], case["fam"], case.get("seed", 0))
        svd, rank, mode = case["svd"], list(case["rank"]), case["mode"]
        d = len(T.shape)
        # input class: start mode (0 / 1 / >= 2) and whether the requested ranks rank[0..mode-1] that precede the start
        # mode are all equal (always true for start modes 0 and 1)
        before = "const" if len(set(rank[:mode])) <= 1 else "varying"
        cls = f"{svd}:start-mode-{mode if mode < 2 else 'ge2'}:{before}-ranks-before-start-mode"
        status = tr_sufficient(T, rank, mode)
        ctx.count("calls:tensor_ring")
        try:
            if case.get("api") == "class":  # the estimator interface must reach the same decomposition (every start mode, every svd)
                from tensorly.decomposition import TensorRing

                res = TensorRing(rank=self._rank_arg(case, rank), mode=mode, svd=svd).fit_transform(self._x(case, T))
            else:
                res = tensor_ring(self._x(case, T), rank=self._rank_arg(case, rank), mode=mode, svd=svd)
            cores = [np.asarray(f) for f in res.factors]
        except ValueError as e:
            if status == "inadmissible":
                ctx.count("guarded_out:tr-rank-product-exceeds-first-matricisation(documented ValueError)")
                ctx.outcome("tr:inadmissible-ValueError")
                return
            ctx.outcome("tr:exception")
            ctx.violation(f"tensor_ring/raises-on-admissible-ranks/ValueError:{cls}", self._desc(case) + f": ValueError: {e}")
            return
        except Exception as e:
            ctx.outcome("tr:exception")
            ctx.violation(f"tensor_ring/raises/{type(e).__name__}:{cls}", self._desc(case) + f": {type(e).__name__}: {e}")
            return
        if status == "inadmissible":
            ctx.count("inadmissible_rank_accepted_by_library")
        okshape = len(cores) == d and all(c.ndim == 3 for c in cores) and [c.shape[1] for c in cores] == list(T.shape) and all(
            cores[k].shape[2] == cores[(k + 1) % d].shape[0] for k in range(d))
        if not okshape:
            ctx.outcome("tr:malformed")
            ctx.violation(f"tensor_ring/malformed-result/{cls}", self._desc(case) + f": core shapes {[c.shape for c in cores]}")
            return
        got = [c.shape[0] for c in cores] + [cores[-1].shape[2]]
        err = R.frob(T.X - R.tr_dense(cores))
        rank_bad = any(g > r for g, r in zip(got, rank))
        if rank_bad:
            ctx.violation(f"tensor_ring/rank-exceeds-requested/{cls}",
                          self._desc(case) + f": returned TR ranks {got} (core shapes {[c.shape for c in cores]})")
        lb = 0.0
        for a in range(d):
            for k in range(1, d):
                lb = max(lb, R.tail_at(T.iv[(a, k)][1], rank[a] * rank[(a + k) % d]))
        if status == "ambiguous":
            ctx.count("guarded_out:tr-exactness-ambiguous-numerical-rank")
        elif status == "insufficient":
            ctx.count("guarded_out:tr-exactness-sufficient-condition-not-met")
        # no upper bound is evaluated for truncating TR ranks (not demanded by the property)
        self._judge(ctx, case, T, "tensor_ring", cls, err, None, lb, False, status == "sufficient")

    def extra_coverage(self, merged):
        return {"tolerances": {"truncated_svd": "1e-9*|X|", "symeig_svd": "1e-6*|X|", "zero_tail": "1e-12*|X|"}}


CHECK = C09()
