"""C11 — constrained CP returns factors satisfying every requested hard constraint.

Lattice (complete product, no sampling):

* ``single``   one hard constraint x specification form {scalar, list over every non-empty subset of
               modes, dict over every non-empty subset of modes} x parameter rotation x data class x
               tensor shape (order 3-4) x rank x init x (n_iter_max, n_iter_max_inner) x api
* ``mixed``    every unordered pair of distinct hard constraints on every ordered pair of disjoint
               non-empty mode sets, each in list or dict form (a scalar covers all modes, so it cannot
               be part of a disjoint request)
* ``conflict`` every unordered pair of constraint keywords (the 8 hard ones + the 4 penalties) in every
               pair of forms on every pair of *intersecting* mode sets: must be rejected with an error.

Oracle: feasibility of the *returned* factor of every mode on which a constraint was requested (modes
without a request are never inspected).  See ``feasible`` for the exact definitions and what is accepted.
"""
import itertools

import numpy as np

from vmc.runner import Check
from vmc import values as V

HARD = ["non_negative", "simplex", "monotonicity", "unimodality", "hard_sparsity", "normalized_sparsity",
        "normalize", "soft_sparsity"]
PENALTY = ["l1_reg", "l2_reg", "l2_square_reg", "smoothness"]
BOOLEAN = {"non_negative", "monotonicity", "unimodality", "normalize"}
# keyword order of the public signature (= the order in which requests are examined / registered)
KEYWORD_ORDER = ["non_negative", "l1_reg", "l2_reg", "l2_square_reg", "unimodality", "normalize", "simplex",
                 "normalized_sparsity", "soft_sparsity", "smoothness", "monotonicity", "hard_sparsity"]

# per-mode parameter tables: mode m gets TABLE[(m + rotation) % len] so that every mode of a list / dict
# request has a *different* parameter (a wrong key / wrong `order` changes the constraint that is checked)
TABLE = {
    "non_negative": [True],
    "monotonicity": [True],
    "unimodality": [True],
    "normalize": [True],
    "simplex": [1.0, 2.5, 0.5, 4.0],
    "soft_sparsity": [0.5, 2.0, 0.125, 1.0],
    "hard_sparsity": [1, 3, 2, 4],
    "normalized_sparsity": [1, 3, 2, 4],
    "l1_reg": [0.05, 0.1, 0.2, 0.3],
    "l2_reg": [0.05, 0.1, 0.2, 0.3],
    "l2_square_reg": [0.05, 0.1, 0.2, 0.3],
    "smoothness": [0.05, 0.1, 0.2, 0.3],
}

EQ_TOL = 1e-9  # DESIGN §1.6 ladder entry used for the equalities (sum = parameter, norm = 1, max|.| = 1)


def param_for(name, mode, rot):
    t = TABLE[name]
    return t[(mode + rot) % len(t)]


def rotations(name):
    return [0] if name in BOOLEAN else [0, 1]


def nonempty_subsets(n):
    out = []
    for k in range(1, n + 1):
        out += [list(c) for c in itertools.combinations(range(n), k)]
    return out


def _np_scalar(v):
    if isinstance(v, bool):
        return np.bool_(v)
    if isinstance(v, int):
        return np.int64(v)
    if isinstance(v, float):
        return np.float64(v)
    return v


def build_spec(name, form, modes, rot, n, ph=None, pk=None):
    spec = _build_spec(name, form, modes, rot, n, ph)
    if pk == "numpy":  # the same values handed over as NumPy scalars (what np.all / np.ceil(...).astype(int) / a float array element give)
        if form == "scalar":
            return _np_scalar(spec)
        if form == "list":
            return [_np_scalar(v) if v is not None else None for v in spec]
        return {k: _np_scalar(v) for k, v in spec.items()}
    return spec


def _build_spec(name, form, modes, rot, n, ph=None):
    """The python object passed as keyword `name`.  Unselected modes of a list carry ``None`` (the
    keyword's own 'not requested' value; ``validate_constraints`` tests list entries for truthiness)."""
    if form == "scalar":
        return param_for(name, 0, rot)
    if form == "list":
        # unselected entries: None, or - as callers write it - False / 0 (ph="false"); all three are falsy = "not requested"
        blank = None if ph is None else (False if name in BOOLEAN else 0)
        return [param_for(name, m, rot) if m in modes else blank for m in range(n)]
    if form == "dict":
        # a dict is an ordered object: odd rotations insert the modes in decreasing order, as a caller may write {2: .., 0: ..}
        order = list(modes) if rot % 2 == 0 else list(reversed(modes))
        return {int(m): param_for(name, m, rot) for m in order}
    raise ValueError(form)


def requested(spec_items, n):
    """mode -> (constraint name, parameter) as *requested by the caller* (the contract side)."""
    req = {}
    for name, form, modes, rot in spec_items:
        ms = range(n) if form == "scalar" else modes
        for m in ms:
            p = param_for(name, 0, rot) if form == "scalar" else param_for(name, m, rot)
            req.setdefault(int(m), []).append((name, p))
    return req


def make_tensor(shape, data, seed):
    off = 3 + 5 * int(seed)
    if data == "signed":
        return V.generic(shape, off, signed=True) * 2.0
    if data == "nonneg":
        return V.generic(shape, off, signed=False)
    if data == "negative":
        return -V.generic(shape, off, signed=False)
    if data == "tied":  # every slice repeated: factor entries tie exactly in magnitude (sparsity cut-offs meet ties)
        base = V.generic(tuple((d + 1) // 2 for d in shape), off, signed=True) * 2.0
        out = base
        for ax, d in enumerate(shape):
            out = np.take(out, [i // 2 for i in range(d)], axis=ax)
        return out
    if data == "lowrank":  # exactly rank-2 signed tensor (ADMM converges, early exits are exercised)
        t, _ = V.lowrank_cp(shape, 2, off, nonneg=False, integer=False)
        return t * 4.0
    raise ValueError(data)


# ------------------------------------------------------------------------------------------ oracle
def _monotone(col, tol, sign):
    d = np.diff(col) * sign
    return bool(np.all(d >= -tol))


def _unimodal(col, tol):
    n = len(col)
    for j in range(n):
        if np.all(np.diff(col[: j + 1]) >= -tol) and np.all(np.diff(col[j:]) <= tol):
            return True
    return False


def feasible(name, F, p):
    """(ok, aspect, active, note).  F is a finite 2-D float array (rows x rank).

    non_negative        every entry >= 0
    simplex             every entry >= 0 and every column sums to p
    monotonicity        every column monotone, all columns in the same direction (either direction accepted)
    unimodality         every column  x1 <= .. <= xj >= .. >= xn  for some j
    hard_sparsity       every column has <= p non-zeros (weakest reading; the code thresholds the whole factor)
    normalized_sparsity whole factor: ||F||_F = 1 and nnz(F) <= p   OR  column-wise: every column norm 1, <= p nnz
    normalize           whole factor: max|F| = 1                     OR  column-wise: every column max|.| = 1
    soft_sparsity       every column has l1 norm <= p
    `active` says the factor lies on the boundary of the constraint set (the projection did something).
    """
    scale = max(1.0, float(np.max(np.abs(F)))) if F.size else 1.0
    tol = 1e-12 * scale
    if name == "non_negative":
        mn = float(F.min())
        return mn >= -tol, "negative-entry", bool(np.any(F == 0)), f"min={mn!r}"
    if name == "simplex":
        mn = float(F.min())
        sums = F.sum(axis=0)
        ok = mn >= -tol and bool(np.all(np.abs(sums - p) <= EQ_TOL * max(1.0, abs(p))))
        # one aspect for both ways of leaving the simplex: which one is hit first depends on the data values
        return ok, "not-on-simplex", bool(np.any(F == 0)), f"min={mn!r} column sums={sums.tolist()} expected {p}"
    if name == "monotonicity":
        inc = all(_monotone(F[:, r], tol, +1) for r in range(F.shape[1]))
        dec = all(_monotone(F[:, r], tol, -1) for r in range(F.shape[1]))
        return inc or dec, "not-monotone", bool(np.any(np.diff(F, axis=0) == 0)), f"increasing={inc} decreasing={dec}"
    if name == "unimodality":
        bad = [r for r in range(F.shape[1]) if not _unimodal(F[:, r], tol)]
        return not bad, "not-unimodal", bool(np.any(np.diff(F, axis=0) == 0)), f"non-unimodal columns={bad}"
    if name == "hard_sparsity":
        nnz = (F != 0).sum(axis=0)
        return bool(np.all(nnz <= p)), "too-many-nonzeros", bool(F.size > p), f"nnz per column={nnz.tolist()} k={p}"
    if name == "normalized_sparsity":
        nnz_c = (F != 0).sum(axis=0)
        whole = abs(float(np.linalg.norm(F)) - 1.0) <= EQ_TOL and int(nnz_c.sum()) <= p
        cols = bool(np.all(np.abs(np.linalg.norm(F, axis=0) - 1.0) <= EQ_TOL)) and bool(np.all(nnz_c <= p))
        note = f"||F||={float(np.linalg.norm(F))!r} column norms={np.linalg.norm(F, axis=0).tolist()} nnz per column={nnz_c.tolist()} k={p}"
        if whole or cols:
            return True, "", bool(F.size > p), ("whole" if whole else "") + ("+cols" if cols else "")
        return False, "not-unit-norm-k-sparse", False, note
    if name == "normalize":
        whole = abs(float(np.max(np.abs(F))) - 1.0) <= EQ_TOL
        cols = bool(np.all(np.abs(np.max(np.abs(F), axis=0) - 1.0) <= EQ_TOL))
        if whole or cols:
            return True, "", True, ("whole" if whole else "") + ("+cols" if cols else "")
        return False, "max-abs", False, f"max|F|={float(np.max(np.abs(F)))!r} column max|.|={np.max(np.abs(F), axis=0).tolist()}"
    if name == "soft_sparsity":
        l1 = np.abs(F).sum(axis=0)
        ok = bool(np.all(l1 <= p * (1 + EQ_TOL)))
        return ok, "l1-norm", bool(np.any(l1 >= p * (1 - EQ_TOL))), f"column l1 norms={l1.tolist()} bound {p}"
    raise ValueError(name)


def fmt_call(case, kwargs):
    return (f"constrained_parafac(T{tuple(case['shape'])}[{case['data']}], rank={case['rank']}, n_iter_max={case['iters'][0]}, "
            f"n_iter_max_inner={case['iters'][1]}, init={case['init']!r}, " + ", ".join(f"{k}={v!r}" for k, v in kwargs.items())
            + f") api={case.get('api', 'fn')}")


# ------------------------------------------------------------------------------------------ bounds
def bounds(tier):
    if tier == "quick":
        return {
            "shapes": [[4, 3, 4], [3, 4, 3, 3]],
            "single_data": ["signed", "nonneg", "negative", "tied"],
            "single_ranks": [1, 2, 3],
            "single_iters": {3: [[0, 1]] + [[o, i] for o in (1, 2, 5) for i in (1, 5, 10)], 4: [[0, 1], [1, 1], [2, 5], [5, 10]]},
            "mixed_shapes": [[4, 3, 4], [3, 4, 3, 3]],
            "mixed_data": {3: ["signed", "nonneg"], 4: ["signed"]},
            "mixed_ranks": {3: [2], 4: [2]},
            "mixed_iters": {3: [[1, 1], [2, 5]], 4: [[2, 5]]},
            "mixed_inits": ["svd", "random"],
            "conflict_shapes": [[4, 3, 4], [3, 4, 3, 3]],
        }
    return {
        "shapes": [[4, 3, 4], [3, 4, 3, 3], [3, 4, 3]],
        "single_data": ["signed", "nonneg", "negative", "lowrank", "tied"],
        "single_ranks": [1, 2, 3],
        "single_iters": {3: [[0, 1]] + [[o, i] for o in (1, 2, 5) for i in (1, 5, 10)], 4: [[0, 1]] + [[o, i] for o in (1, 2, 5) for i in (1, 5, 10)]},
        "mixed_shapes": [[4, 3, 4], [3, 4, 3, 3]],
        "mixed_data": {3: ["signed", "nonneg", "negative"], 4: ["signed", "nonneg"]},
        "mixed_ranks": {3: [1, 2, 3], 4: [2, 3]},
        "mixed_iters": {3: [[1, 1], [1, 10], [2, 5], [5, 1], [5, 10]], 4: [[1, 1], [2, 5], [5, 10]]},
        "mixed_inits": ["svd", "random"],
        "conflict_shapes": [[4, 3, 4], [3, 4, 3, 3]],
    }


def disjoint_pairs(n):
    subs = nonempty_subsets(n)
    return [(a, b) for a in subs for b in subs if not set(a) & set(b)]


def intersecting_pairs(n):
    subs = nonempty_subsets(n)
    return [(a, b) for a in subs for b in subs if set(a) & set(b)]


class C11(Check):
    pid = "C11"
    level = "exploration"
    design_ref = "DESIGN.md §4 C11"
    rule = ("complete product. single: 8 hard constraints x form {scalar; list, dict over every non-empty subset of modes} x "
            "per-mode parameter rotation x data class x shape (order 3-4, dims 3-4) x rank 1-3 x init {svd, random} x "
            "(n_iter_max, n_iter_max_inner) in {1,2,5}x{1,5,10} (quick, order 4: the diagonal (1,1),(2,5),(5,10)) (+ the "
            "ConstrainedCP class for the (2,5) budget); mixed: every unordered pair of hard constraints x {list,dict}^2 x every "
            "ordered pair of disjoint non-empty mode sets x data x rank x init x a corner subset of the budgets; the exact "
            "per-tier bound of every dimension is the table returned by bounds(tier) in vmc/props/c11.py; "
            "conflict: every unordered pair of the 12 constraint keywords x {scalar,list,dict}^2 x every pair of intersecting "
            "mode sets (must raise). A case is one call. Non-trivial iff (feasibility cases) the call returned and at least one "
            "inspected factor lies on the boundary of its constraint set (constraint active), or the call is a conflicting "
            "request (must be rejected)")
    assumptions = [
        "numpy elementwise comparison / sum / norm are trusted for the feasibility predicates (vmc/props/c11.py: feasible)",
        "tolerances (DESIGN §1.6): inequalities 1e-12*max(1,max|F|); equalities (simplex sum, unit norm, max|.|=1, l1 bound) 1e-9 relative",
        "normalize / normalized_sparsity accept the whole-factor reading (docstring) as well as the column-wise reading; "
        "hard_sparsity is checked per column (weakest reading); monotone direction free but common to all columns",
        "unselected modes of a list request carry None; numpy.linalg.LinAlgError from the inner solve (degenerate Gram matrix) is guarded out and counted",
        "init='random': random_state=0 is passed and numpy's global RNG is seeded per case and restored afterwards, so the run is "
        "deterministic whichever of the two the library draws from",
    ]

    # -------------------------------------------------------------------------------- enumeration
    def groups(self, tier, seed):
        b = bounds(tier)
        gs = []
        for shape in b["shapes"]:
            for name in HARD:
                for data in b["single_data"]:
                    for init in ("svd", "random"):
                        gs.append({"kind": "single", "shape": shape, "name": name, "data": data, "init": init})
        for shape in b["mixed_shapes"]:
            for a, c in itertools.combinations(HARD, 2):
                for data in b["mixed_data"][len(shape)]:
                    gs.append({"kind": "mixed", "shape": shape, "names": [a, c], "data": data})
        for shape in b["conflict_shapes"]:
            for a in HARD + PENALTY:
                gs.append({"kind": "conflict", "shape": shape, "first": a})
        return gs

    def cases(self, group, tier, seed):
        b = bounds(tier)
        shape = group["shape"]
        n = len(shape)
        kind = group["kind"]
        if kind == "single":
            name = group["name"]
            forms = [("scalar", list(range(n)))] + [(f, s) for f in ("list", "dict") for s in nonempty_subsets(n)]
            for iters in b["single_iters"][n]:
                for rank in b["single_ranks"]:
                    for form, modes in forms:
                        for rot in rotations(name):
                            # (class wrapper and the einsum tensor-algebra backend: second implementations, one budget each)
                            apis = ["fn", "class", "fn-einsum"] if iters == [2, 5] else ["fn"]
                            for api in apis:
                                yield {"kind": "single", "shape": shape, "data": group["data"], "rank": rank, "init": group["init"],
                                       "iters": iters, "api": api, "spec": [[name, form, modes, rot]], "seed": seed}
                            if iters == [2, 5] and (form == "scalar" or len(modes) in (1, n)):
                                yield {"kind": "single", "shape": shape, "data": group["data"], "rank": rank, "init": group["init"], "pk": "numpy",
                                       "iters": iters, "api": "fn", "spec": [[name, form, modes, rot]], "seed": seed}
                            if iters == [2, 5]:
                                # a constrained mode that is never updated (fixed_modes): its factor is the projected initialisation
                                for fx in ([0], [n - 2]):
                                    yield {"kind": "single", "shape": shape, "data": group["data"], "rank": rank, "init": group["init"], "fixed": fx,
                                           "iters": iters, "api": "fn", "spec": [[name, form, modes, rot]], "seed": seed}
                            if form == "list" and len(modes) < n and iters == [2, 5]:
                                yield {"kind": "single", "shape": shape, "data": group["data"], "rank": rank, "init": group["init"], "ph": "false",
                                       "iters": iters, "api": "fn", "spec": [[name, form, modes, rot]], "seed": seed}
        elif kind == "mixed":
            a, c = group["names"]
            for iters in b["mixed_iters"][n]:
                for rank in b["mixed_ranks"][n]:
                    for data in [group["data"]]:
                        for init in b["mixed_inits"]:
                            for sa, sc in disjoint_pairs(n):
                                for fa in ("list", "dict"):
                                    for fc in ("list", "dict"):
                                        yield {"kind": "mixed", "shape": shape, "data": data, "rank": rank, "init": init, "iters": iters,
                                               "api": "fn", "spec": [[a, fa, sa, 0], [c, fc, sc, 1 if c not in BOOLEAN else 0]], "seed": seed}
                                        if fa == "list" or fc == "list":
                                            yield {"kind": "mixed", "shape": shape, "data": data, "rank": rank, "init": init, "iters": iters, "ph": "false",
                                                   "api": "fn", "spec": [[a, fa, sa, 0], [c, fc, sc, 1 if c not in BOOLEAN else 0]], "seed": seed}
        elif kind == "conflict":
            a = group["first"]
            allk = HARD + PENALTY
            for c in allk[allk.index(a) + 1:]:
                for fa in ("scalar", "list", "dict"):
                    for fc in ("scalar", "list", "dict"):
                        if fa == "scalar" and fc == "scalar":
                            pairs = [(list(range(n)), list(range(n)))]
                        elif fa == "scalar":
                            pairs = [(list(range(n)), s) for s in nonempty_subsets(n)]
                        elif fc == "scalar":
                            pairs = [(s, list(range(n))) for s in nonempty_subsets(n)]
                        else:
                            pairs = intersecting_pairs(n)
                        for sa, sc in pairs:
                            yield {"kind": "conflict", "shape": shape, "data": "signed", "rank": 2, "init": "svd", "iters": [1, 1],
                                   "api": "fn", "spec": [[a, fa, sa, 0], [c, fc, sc, 0]], "seed": seed}
        else:
            raise ValueError(kind)

    # -------------------------------------------------------------------------------- one call
    def run_case(self, case, ctx):
        import tensorly as tl
        from tensorly.decomposition import constrained_parafac, ConstrainedCP

        shape = tuple(case["shape"])
        n = len(shape)
        rank = case["rank"]
        spec_items = [(s[0], s[1], [int(m) for m in s[2]], s[3]) for s in case["spec"]]
        kwargs = {name: build_spec(name, form, modes, rot, n, case.get("ph"), case.get("pk")) for name, form, modes, rot in spec_items}
        req = requested(spec_items, n)
        T = make_tensor(shape, case["data"], case.get("seed", 0))
        T0 = T.copy()
        partial_list = any(form == "list" and len(modes) < n for _, form, modes, _ in spec_items)
        names = sorted({s[0] for s in spec_items})
        forms = "+".join(s[1] for s in spec_items)
        call = fmt_call(case, kwargs)

        rng_state = np.random.get_state()
        np.random.seed(20240911)
        exc = None
        res = None
        try:
            try:
                if case.get("api", "fn") == "class":
                    res = ConstrainedCP(rank, n_iter_max=case["iters"][0], n_iter_max_inner=case["iters"][1], init=case["init"],
                                        random_state=0, **kwargs).fit_transform(T)
                elif case.get("api") == "fn-einsum":
                    with tl.tenalg.backend_context("einsum", local_threadsafe=True):
                        res = constrained_parafac(T, rank, n_iter_max=case["iters"][0], n_iter_max_inner=case["iters"][1],
                                                  init=case["init"], random_state=0, **kwargs)
                else:
                    if case.get("fixed"):
                        kwargs = dict(kwargs, fixed_modes=list(case["fixed"]))
                    res = constrained_parafac(T, rank, n_iter_max=case["iters"][0], n_iter_max_inner=case["iters"][1],
                                              init=case["init"], random_state=0, **kwargs)
            except Exception as e:  # classified below
                exc = e
        finally:
            np.random.set_state(rng_state)
        ctx.count("calls")

        # ---------------------------------------------------------------- conflicting requests
        if case["kind"] == "conflict":
            ctx.nontriv()
            a, c = spec_items
            if exc is None:
                ctx.outcome("conflict:accepted")
                ctx.violation(f"validate_constraints/conflict-accepted/{a[1]}+{c[1]}",
                              f"{call}: modes {sorted(set(range(n) if a[1] == 'scalar' else a[2]) & set(range(n) if c[1] == 'scalar' else c[2]))} "
                              f"carry both {a[0]} and {c[0]} but no error was raised")
            else:
                ctx.outcome(f"conflict:rejected:{type(exc).__name__}")
                if not isinstance(exc, ValueError):
                    ctx.count(f"conflict_rejected_with_{type(exc).__name__}")
            if len(ctx.samples) < 1:
                ctx.sample({"call": call, "raised": None if exc is None else f"{type(exc).__name__}: {exc}"[:160]})
            return

        # ---------------------------------------------------------------- valid requests
        if exc is not None:
            ename = type(exc).__name__
            if isinstance(exc, np.linalg.LinAlgError):
                ctx.outcome("guarded:LinAlgError")
                ctx.count("guarded_out:LinAlgError(" + "+".join(names) + ")")
                return
            simplex_rank1 = rank == 1 and any(nm in ("simplex", "soft_sparsity") for nm in names)
            if partial_list and (isinstance(exc, TypeError) or not simplex_rank1):
                cls = "partial-list-form"  # the None of an unselected list entry reached a proximal operator
            elif simplex_rank1:
                cls = "rank-1-simplex-family"
            else:
                cls = "other"
            ctx.outcome(f"raises:{ename}:{cls}")
            ctx.violation(f"constrained_parafac/raises-{ename}/{cls}", f"{call}: valid request raised {ename}: {str(exc)[:300]}")
            return

        try:
            factors = [np.asarray(tl.to_numpy(f)) for f in res.factors]
        except Exception as e:
            ctx.outcome("bad-return")
            ctx.violation("constrained_parafac/return-type/not-a-cp-tensor", f"{call}: {type(e).__name__}: {e}")
            return
        if not np.array_equal(T, T0):
            ctx.count("input_tensor_changed(not demanded by C11)")

        bad = False
        active_any = False
        readings = []
        for m in sorted(req):
            for name, p in req[m]:
                F = factors[m] if m < len(factors) else None
                ctx.count("factors_inspected")
                # who else talks about this mode?  (input class for the signature, computed from the request only)
                # (a list request of a keyword that validate_constraints registers *after* `name` and that does not select m)
                covered_by_list = [nm for nm, form, modes, _ in spec_items if form == "list" and nm != name and m not in modes
                                   and KEYWORD_ORDER.index(nm) > KEYWORD_ORDER.index(name)]
                icls = "mode-is-unselected-entry-of-later-list-request" if covered_by_list else (
                    "partial-list-form" if partial_list else case["kind"] + "-" + ("scalar" if forms == "scalar" else "per-mode"))
                if F is None or F.ndim != 2 or F.shape != (shape[m], rank):
                    bad = True
                    ctx.violation(f"constrained_parafac/{name}/factor-shape/{icls}",
                                  f"{call}: factor of mode {m} has shape {None if F is None else F.shape}, expected {(shape[m], rank)}")
                    continue
                if not np.all(np.isfinite(F)):
                    bad = True
                    ctx.violation(f"constrained_parafac/{name}/non-finite/{icls}", f"{call}: factor of mode {m} = {F.tolist()}")
                    continue
                ok, aspect, active, note = feasible(name, F, p)
                active_any = active_any or active
                if ok:
                    if name in ("normalize", "normalized_sparsity"):
                        readings.append(note)
                    continue
                bad = True
                if name == "non_negative" and np.all(F == F.flat[0]) and F.flat[0] < 0 and not covered_by_list:
                    icls = "constant-negative-factor"
                ctx.violation(f"constrained_parafac/{name}/{aspect}/{icls}",
                              f"{call}: factor of mode {m} violates {name}" + (f"={p!r}" if name not in BOOLEAN else "")
                              + f": {note}; factor={np.round(F, 6).tolist()}")
        for r in readings:
            ctx.count("reading_satisfied:" + (r or "none"))
        if bad:
            ctx.outcome("infeasible:" + "+".join(names))
        else:
            ctx.outcome("feasible:" + ("active" if active_any else "inactive"))
        if active_any and not bad:
            ctx.nontriv()
            ctx.count("constraint_active_cases")
        if not bad and active_any and case["kind"] == "mixed" and len(ctx.samples) < 1:
            ctx.sample({"call": call, "inspected_modes": sorted(req), "factor_shapes": [list(f.shape) for f in factors]})
        elif not bad and active_any and len(ctx.samples) < 1 and case["spec"][0][1] == "dict":
            ctx.sample({"call": call, "inspected_modes": sorted(req), "factor0": np.round(factors[sorted(req)[0]], 4).tolist()})


CHECK = C11()
