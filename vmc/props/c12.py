"""C12 -- proximal / projection operators return the exact minimiser of their prox problem.

Lattice (complete): every vector v in V^n (V = {-2,-1,-1/2,0,1/2,1,2}, n = 1..4; thorough: n = 5 and a second
alphabet with near-ties) x scale {1e-3, 1, 1e3} x {1-D, n x 2 matrix} x every operator x parameter table x
{direct function, proximal_operator(...)}.

Oracle: the exact minimum of  penalty(x) + 1/2 |x - v|^2  from the brute-force enumerations of
vmc/ref/c12_oracles.py (all supports / all contiguous block partitions / closed candidates), compared by
*objective value* and *feasibility* only (any minimiser is accepted); idempotence of the projections; firm
non-expansiveness of the convex operators over ALL pairs of lattice vectors (n <= 3).
"""
import itertools
from functools import lru_cache

import numpy as np

from vmc.ref import c12_oracles as O
from vmc.runner import Check, HarnessError

V1 = [-2.0, -1.0, -0.5, 0.0, 0.5, 1.0, 2.0]
_E = 2.0 ** -10
V2 = [-1.0 - _E, -1.0, 0.0, _E, 1.0, 1.0 + _E, 1.0 + 2 * _E]  # ties and near-ties (thorough only)
ALPHA = {"V": V1, "W": V2}
SCALES = [1.0, 1e-3, 1e3]

# name -> direct function, keyword of proximal_operator, parameter table, parameter scales with the data?,
# layout ("whole": penalty on the whole tensor; "col": column-wise; "mat": matrix operator), projection?, convex?
OPS = {
    "non_negative": dict(fn=None, kw="non_negative", params=[True], pscale=False, layout="whole", proj=True, convex=True),
    "l1_reg": dict(fn="soft_thresholding", kw="l1_reg", params=[0.0, 0.5, 0.75, 2.5], pscale=True, layout="whole", proj=False, convex=True),
    "l2_reg": dict(fn="l2_prox", kw="l2_reg", params=[0.0, 0.5, 1.0, 1.5, 6.0], pscale=True, layout="whole", proj=False, convex=True),
    "l2_square_reg": dict(fn="l2_square_prox", kw="l2_square_reg", params=[0.0, 0.25, 1.0, 10.0], pscale=False, layout="whole", proj=False, convex=True),
    "smoothness": dict(fn="smoothness_prox", kw="smoothness", params=[0.0, 0.25, 1.0, 10.0], pscale=False, layout="col", proj=False, convex=True),
    "simplex": dict(fn="simplex_prox", kw="simplex", params=[0.5, 1.0, 3.0, 10.0], pscale=True, layout="col", proj=True, convex=True),
    "soft_sparsity": dict(fn="soft_sparsity_prox", kw="soft_sparsity", params=[0.5, 1.0, 3.0, 10.0], pscale=True, layout="col", proj=True, convex=True),
    "monotonicity": dict(fn="monotonicity_prox", kw="monotonicity", params=["increasing", "decreasing"], pscale=False, layout="col", proj=True, convex=True),
    "unimodality": dict(fn="unimodality_prox", kw="unimodality", params=[True], pscale=False, layout="col", proj=True, convex=False),
    "hard_sparsity": dict(fn="hard_thresholding", kw="hard_sparsity", params=[0, 1, 2, 3, "size", "size+1"], pscale=False, layout="whole", proj=True, convex=False),
    "normalized_sparsity": dict(fn="normalized_sparsity_prox", kw="normalized_sparsity", params=[1, 2, 3, "size"], pscale=False, layout="whole", proj=True, convex=False),
    "normalize": dict(fn=None, kw="normalize", params=[True], pscale=False, layout="whole", proj=True, convex=False),
    "svd_thresholding": dict(fn="svd_thresholding", kw=None, params=[0.0, 0.5, 1.0, 3.0], pscale=True, layout="mat", proj=False, convex=True),
    "procrustes": dict(fn="procrustes", kw=None, params=[None], pscale=False, layout="mat", proj=True, convex=False),
}
OP_ORDER = ["simplex", "l1_reg", "l2_reg", "l2_square_reg", "smoothness", "non_negative", "soft_sparsity", "monotonicity", "unimodality",
            "hard_sparsity", "normalized_sparsity", "normalize", "svd_thresholding", "procrustes"]
assert sorted(OP_ORDER) == sorted(OPS)

# input classes, most defect-prone first (a pair of inputs gets the first class present among its endpoints)
CLASS_PRIORITY = {
    "non_negative": ["all-negative", "mixed-sign", "nonnegative"],
    "l1_reg": ["zero-threshold", "tie-at-threshold", "generic"],
    "l2_reg": ["zero-input-zero-reg", "zero-reg", "norm-le-reg", "norm-gt-reg"],
    "l2_square_reg": ["zero-reg", "positive-reg"],
    "smoothness": ["zero-reg", "positive-reg"],
    "simplex": ["has-negative", "on-simplex", "nonnegative-off-simplex"],
    "soft_sparsity": ["inside-l1-ball", "on-l1-sphere", "outside-l1-ball"],
    "monotonicity": ["has-negative", "nonnegative"],
    "svd_thresholding": ["zero-threshold", "rank-deficient", "full-rank"],
}


# ------------------------------------------------------------------------------------------ cached oracles
@lru_cache(maxsize=400000)
def _ref(op, p, v):
    """(optimal objective, one minimiser) for operator `op`, parameter p, on the tuple v (one column or whole tensor)."""
    v = list(v)
    if op == "non_negative":
        return O.nonneg_min(v)
    if op == "l1_reg":
        return O.l1_min(v, p)
    if op == "l2_reg":
        return O.l2_min(v, p)
    if op == "l2_square_reg":
        x = [a / (1 + 2 * p) for a in v]
        return O.l2sq_obj(x, v, p), x
    if op == "smoothness":
        return O.smooth_min(v, p)
    if op == "simplex":
        return O.simplex_min(v, p)
    if op == "soft_sparsity":
        return O.l1ball_min(v, p)
    if op == "monotonicity":
        return O.cone_min(v, p)
    if op == "unimodality":
        return O.cone_min(v, "unimodal")
    if op == "hard_sparsity":
        return O.ksparse_min(v, p)
    if op == "normalized_sparsity":
        return O.normalized_ksparse_min(v, p)
    raise ValueError(op)


def _objective(op, p, x, v):
    if op == "l1_reg":
        return O.l1_obj(x, v, p)
    if op == "l2_reg":
        return O.l2_obj(x, v, p)
    if op == "l2_square_reg":
        return O.l2sq_obj(x, v, p)
    if op == "smoothness":
        return O.smooth_obj(x, v, p)
    return O.obj_proj(x, v)  # projections: indicator penalty


def _feasible(op, p, x, ftol):
    """Constraint set membership of the returned point (penalised operators: always feasible)."""
    if op == "non_negative":
        return all(a >= -ftol for a in x)
    if op == "simplex":
        return all(a >= -ftol for a in x) and abs(O.fsum(x) - p) <= ftol * len(x)
    if op == "soft_sparsity":
        return O.fsum(abs(a) for a in x) <= p + ftol * len(x)
    if op == "monotonicity":
        return O.is_increasing(x, ftol) if p == "increasing" else O.is_decreasing(x, ftol)
    if op == "unimodality":
        return O.is_unimodal(x, ftol)
    if op == "hard_sparsity":
        return sum(1 for a in x if a != 0) <= p
    if op == "normalized_sparsity":
        return sum(1 for a in x if a != 0) <= p and abs(O.norm2(x) - 1.0) <= 1e-12
    return True


def _input_class(op, p, v):
    mn, mx = min(v), max(v)
    if op == "non_negative":
        return "all-negative" if mx < 0 else ("nonnegative" if mn >= 0 else "mixed-sign")
    if op == "l1_reg":
        return "zero-threshold" if p == 0 else ("tie-at-threshold" if any(abs(a) == p for a in v) else "generic")
    if op == "l2_reg":
        nv = O.norm2(v)
        if p == 0:
            return "zero-input-zero-reg" if nv == 0 else "zero-reg"
        return "norm-le-reg" if nv <= p else "norm-gt-reg"
    if op in ("l2_square_reg", "smoothness"):
        return "zero-reg" if p == 0 else "positive-reg"
    if op == "simplex":
        if mn < 0:
            return "has-negative"
        return "on-simplex" if abs(O.fsum(v) - p) <= 1e-12 * max(p, 1e-300) else "nonnegative-off-simplex"
    if op == "soft_sparsity":
        l1 = O.fsum(abs(a) for a in v)
        if abs(l1 - p) <= 1e-12 * p:
            return "on-l1-sphere"
        return "inside-l1-ball" if l1 < p else "outside-l1-ball"
    if op == "monotonicity":
        return "has-negative" if mn < 0 else "nonnegative"
    if op == "unimodality":
        return ("has-negative" if mn < 0 else "nonnegative") + ("-unimodal-input" if O.is_unimodal(v) else "-non-unimodal-input")
    if op in ("hard_sparsity", "normalized_sparsity"):
        if op == "normalized_sparsity" and mn == 0 and mx == 0:
            return "zero-input"
        if p <= 0:
            return "k-zero"
        if p >= len(v):
            return "k-ge-size"
        mags = sorted((abs(a) for a in v), reverse=True)
        return "tie-at-cut" if mags[p - 1] == mags[p] else "generic"
    if op == "normalize":
        return "zero-input" if mn == 0 and mx == 0 else "nonzero"
    raise ValueError(op)


def _mat_class(op, p, M):
    s = np.linalg.svd(M, compute_uv=False)
    if op == "svd_thresholding" and p == 0:
        return "zero-threshold"
    if s[0] == 0:
        return "zero-matrix"
    return "rank-deficient" if s[-1] <= 1e-12 * s[0] else "full-rank"


def _pair_class(op, c1, c2):
    for c in CLASS_PRIORITY[op]:
        if c in (c1, c2):
            return "pair-with-" + c
    return "pair-with-" + c1


# ------------------------------------------------------------------------------------------ lattice helpers
def partner(vals, alpha, seed):
    """Second column of the matrix form: a bijection of alpha^n (reverse + affine relabelling of the letters)."""
    A = ALPHA[alpha]
    n = len(vals)
    idx = [A.index(a) for a in vals]
    return [A[(idx[n - 1 - i] * 3 + 2 + i + seed) % len(A)] for i in range(n)]


def _resolve_k(tok, size):
    """sparsity-level tokens -> int, or None when the int token is already covered by 'size'/'size+1'."""
    if tok == "size":
        return size
    if tok == "size+1":
        return size + 1
    return tok if tok < size else None


def _same(a, b):
    a, b = np.asarray(a), np.asarray(b)
    return a.shape == b.shape and a.dtype == b.dtype and np.array_equal(a, b, equal_nan=True)


def _fmt(a):
    return np.array2string(np.asarray(a), precision=17, separator=",", max_line_width=10**6).replace("\n", "")


class C12(Check):
    pid = "C12"
    level = "exploration"
    design_ref = "DESIGN.md §4 C12"
    rule = ("complete product: v in V^n (V={-2,-1,-.5,0,.5,1,2}, n=1..4; thorough: n=5 and the near-tie alphabet "
            "{-1-e,-1,0,e,1,1+e,1+2e}, e=2^-10, n<=4) x scale {1e-3,1,1e3} x {1-D, n x 2 matrix [v, partner(v)]} x 14 operators "
            "x parameter table x {direct function, proximal_operator}; all 2x2 matrices over V for svd_thresholding/procrustes; "
            "all ordered pairs of V^n (n<=3; 2x2 and 1x2 matrices for svd_thresholding) for firm non-expansiveness. A point case "
            "(operator, parameter, v, scale, form) is non-trivial iff the brute-force minimiser differs from v (the operator must "
            "move the point); pair counts are reported in counters (fne_pairs, fne_pairs_nontrivial = P(v) != P(w)).")
    assumptions = [
        "brute-force minimisers of vmc/ref/c12_oracles.py (all supports / all contiguous partitions / closed-form candidates) are the reference; "
        "a feasible library point that beats the reference by > 1e-8*scale^2 raises a harness error",
        "comparison is by objective value (tolerance 1e-12*scale^2*(1+size), ladder entry 1e-12) and feasibility (1e-11*scale); any minimiser is accepted",
        "svd_thresholding / procrustes: numpy.linalg.svd is trusted for nuclear/spectral norms; tolerance 1e-9 (LAPACK ladder entry)",
        "smoothness_prox: the penalty is the one its banded system defines: lam/2 * x^T tridiag(-1,2,-1) x",
        "normalize: only feasibility (max|x| = 1), positive scaling of the input and idempotence are demanded (it is not a Euclidean projection)",
        "monotonicity through proximal_operator: either direction accepted (docstring and code disagree); direct function: direction per its `decreasing` flag",
        "a falsy parameter passed to proximal_operator means 'constraint not selected' and is guarded out; radii/thresholds are >= 0, radii > 0",
        "firm non-expansiveness tolerance 1e-9 at scale 1",
    ]

    # ------------------------------------------------------------------ groups / cases
    def _ns(self, tier, alpha):
        if alpha == "W":
            return [1, 2, 3, 4]
        return [1, 2, 3, 4, 5] if tier == "thorough" else [1, 2, 3, 4]

    def groups(self, tier, seed):
        gs = []
        alphas = ["V", "W"] if tier == "thorough" else ["V"]
        for alpha in alphas:
            for op in OP_ORDER:
                for s in SCALES:
                    gs.append({"kind": "pt", "op": op, "alpha": alpha, "n": [1, 2, 3], "lead": None, "scale": s})
                    for n in self._ns(tier, alpha):
                        if n < 4:
                            continue
                        leads = range(7) if n == 4 else range(49)
                        for lead in leads:
                            gs.append({"kind": "pt", "op": op, "alpha": alpha, "n": [n], "lead": lead, "scale": s})
        for op in ("svd_thresholding", "procrustes"):
            for lead in range(7):
                gs.append({"kind": "m22", "op": op, "lead": lead, "scale": 1.0})
        for op in OP_ORDER:
            d = OPS[op]
            if not d["convex"]:
                continue
            for pi in range(len(d["params"])):
                gs.append({"kind": "fne", "op": op, "pi": pi})
        return gs  # natural order: the simplest lattice points come first, so stored examples are minimal

    def _vectors(self, group):
        A = ALPHA[group["alpha"]]
        for n in group["n"]:
            if group["lead"] is None:
                yield from itertools.product(A, repeat=n)
            elif n == 4:
                for rest in itertools.product(A, repeat=n - 1):
                    yield (A[group["lead"]],) + rest
            else:
                l0, l1 = divmod(group["lead"], 7)
                for rest in itertools.product(A, repeat=n - 2):
                    yield (A[l0], A[l1]) + rest

    def cases(self, group, tier, seed):
        if group["kind"] == "pt":
            op = group["op"]
            for v in self._vectors(group):
                for pi in range(len(OPS[op]["params"])):
                    yield {"kind": "pt", "op": op, "pi": pi, "v": list(v), "alpha": group["alpha"], "scale": group["scale"], "seed": seed}
        elif group["kind"] == "m22":
            op = group["op"]
            for rest in itertools.product(V1, repeat=3):
                for pi in range(len(OPS[op]["params"])):
                    yield {"kind": "m22", "op": op, "pi": pi, "m": [V1[group["lead"]]] + list(rest), "scale": 1.0}
        else:
            raise HarnessError("fne groups are executed by run_group")

    # ------------------------------------------------------------------ library access
    def _lib(self):
        from tensorly.tenalg import proximal as P
        return P

    def _call(self, op, p, x, path):
        """Call the real code.  path 'direct' or 'dispatch'. Returns ndarray; library exceptions propagate."""
        P = self._lib()
        d = OPS[op]
        x = np.array(x, dtype=np.float64, copy=True)
        if path == "dispatch":
            kwv = True if isinstance(p, str) or p is True else p
            return P.proximal_operator(x, **{d["kw"]: kwv})
        f = getattr(P, d["fn"])
        npk = getattr(self, "_param_kind", None) == "numpy"  # the same parameter handed over as a NumPy scalar (np.bool_, np.int64, np.float64)
        if op == "monotonicity":
            flag = (p == "decreasing")
            return f(x, decreasing=np.bool_(flag) if npk else flag)
        if op in ("unimodality", "procrustes"):
            return f(x)
        if npk and isinstance(p, (int, float)) and not isinstance(p, bool):
            p = np.int64(p) if isinstance(p, int) else np.float64(p)
        return f(x, p)

    # ------------------------------------------------------------------ oracle on one returned point
    def _judge_vec(self, op, p, v, x, s):
        """v, x python lists (one column / whole tensor). Returns (aspect or None, message, moved?)."""
        n = len(v)
        ftol = 1e-11 * s
        S = max(s, 1.0) if op == "normalized_sparsity" else s  # the normalised output lives on the unit sphere
        otol = 1e-12 * S * S * (1 + n)
        if op == "normalize":
            m = max(abs(a) for a in v)
            if not all(np.isfinite(x)):
                return "non-finite", "output not finite", True
            if abs(max(abs(a) for a in x) - 1.0) > 1e-12:
                return "feasibility", f"max|x| = {max(abs(a) for a in x)!r} != 1", True
            if any(abs(a * m - b) > 1e-12 * s for a, b in zip(x, v)):
                return "optimality", "output is not a positive scaling of the input", True
            return None, "", m != 1.0
        if op == "monotonicity" and p == "either":
            ra, rb = self._judge_vec(op, "increasing", v, x, s), self._judge_vec(op, "decreasing", v, x, s)
            return ra if ra[0] is None or rb[0] is not None else rb
        ostar, xstar = _ref(op, p, tuple(v))
        moved = O.sqdist(xstar, v) > (1e-9 * s) ** 2
        if not all(np.isfinite(x)):
            return "non-finite", f"output not finite; a minimiser is {xstar}", moved
        if not _feasible(op, p, x, ftol):
            return "feasibility", f"output outside the constraint set; a minimiser is {xstar}", moved
        o = _objective(op, p, x, v)
        if o > ostar + otol:
            return "optimality", f"objective {o!r} > brute-force minimum {ostar!r} attained at {xstar}", moved
        if o < ostar - 1e-8 * S * S:
            raise HarnessError(f"reference for {op} p={p} v={v} is not optimal: library point {x} is feasible with objective {o} < {ostar}")
        return None, "", moved

    def _judge_mat(self, op, p, M, X, s):
        tol = 1e-9
        if X.shape != M.shape:
            return "shape", f"output shape {X.shape} != input shape {M.shape}", True
        if not np.all(np.isfinite(X)):
            return "non-finite", "output not finite", True
        sv = np.linalg.svd(M, compute_uv=False)
        if op == "svd_thresholding":
            U, sm, Vt = np.linalg.svd(M, full_matrices=False)
            Xref = (U * np.maximum(sm - p, 0.0)) @ Vt
            nuc = lambda A: float(np.linalg.svd(A, compute_uv=False).sum())
            obj = lambda A: p * nuc(A) + 0.5 * float(np.sum((A - M) ** 2))
            moved = float(np.abs(Xref - M).max()) > 1e-9 * s
            if obj(X) > obj(Xref) + tol * s * s:
                return "optimality", f"objective {obj(X)!r} > {obj(Xref)!r} attained by U max(s-t,0) V^T = {_fmt(Xref)}", moved
            if p > 0:  # subgradient certificate: G = (M - X)/t in the subdifferential of the nuclear norm at X
                G = (M - X) / p
                if np.linalg.norm(G, 2) > 1 + 1e-6 or float(np.sum(G * X)) < nuc(X) - 1e-6 * s:
                    return "optimality", f"(M-X)/t is not a subgradient of the nuclear norm at X (|G|_2={np.linalg.norm(G, 2)!r})", moved
            return None, "", moved
        # procrustes
        n, m = M.shape
        gram = X.T @ X if n >= m else X @ X.T
        if float(np.abs(gram - np.eye(gram.shape[0])).max()) > tol:
            return "feasibility", f"X^T X (or X X^T) != I: {_fmt(gram)}", True
        if float(np.sum(X * M)) < float(sv.sum()) - tol * s:
            return "optimality", f"<X, M> = {float(np.sum(X * M))!r} < nuclear norm of M = {float(sv.sum())!r}", True
        return None, "", True

    def _cols(self, op, arr):
        """Split an input/output array into the vectors the penalty acts on."""
        a = np.asarray(arr, dtype=np.float64)
        if OPS[op]["layout"] == "col" and a.ndim == 2:
            return [a[:, j].tolist() for j in range(a.shape[1])]
        return [a.reshape(-1).tolist()]

    def _evaluate(self, ctx, case, op, p, form, x_in, out, s, callsite, pdesc):
        """Apply the oracle to one returned array. Returns True when a violation was reported."""
        x_in = np.asarray(x_in)
        out = np.asarray(out)
        head = f"{callsite}({_fmt(x_in)}{pdesc}) -> {_fmt(out)}"
        if OPS[op]["layout"] == "mat":
            asp, msg, moved = self._judge_mat(op, p, x_in, out, s)
            cls = _mat_class(op, p, x_in)
            if moved:
                ctx.nontriv([op, str(p), form, s, x_in.tolist()])
            ctx.outcome(f"{op}:{'moved' if moved else 'identity'}")
            if asp:
                ctx.violation(f"{callsite}/{asp}/{cls}", f"{head}: {msg}")
            return bool(asp)
        if out.size != x_in.size:
            ctx.violation(f"{callsite}/shape/{form}", f"{head}: output has {out.size} entries, input {x_in.size}")
            return True
        if out.shape != x_in.shape:
            if x_in.ndim == 2:
                # a matrix is a family of columns: the answer has to come back column for column (an (n,1) matrix returned as (n,)
                # broadcasts to (n,n) in the caller's next operation)
                ctx.violation(f"{callsite}/shape/{form}", f"{head}: output shape {out.shape}, input shape {x_in.shape}")
                return True
            ctx.count(f"shape_changed_not_demanded:{callsite}:{form}")  # 1-D input returned as a column: same point, other container
            out = out.reshape(x_in.shape)
        bad = False
        any_moved = False
        for v, x in zip(self._cols(op, x_in), self._cols(op, out)):
            pp = p
            if op == "monotonicity" and callsite.startswith("proximal_operator"):
                pp = "either"
            asp, msg, moved = self._judge_vec(op, pp, v, x, s)
            any_moved = any_moved or moved
            if asp:
                cls = _input_class(op, p if pp != "either" else "increasing", v)
                ctx.violation(f"{callsite}/{asp}/{cls}", f"{head}: column/vector {v} -> {x}: {msg}")
                bad = True
        if any_moved:
            ctx.nontriv([op, str(p), form, s, x_in.tolist()])
        ctx.outcome(f"{op}:{'moved' if any_moved else 'identity'}")
        return bad

    def _idempotence(self, ctx, op, p, form, x_in, out, s, callsite, path, pdesc):
        out = np.asarray(out)
        if not np.all(np.isfinite(out)):
            return
        try:
            again = np.asarray(self._call(op, p, out, path))
        except Exception as e:
            ctx.violation(f"{callsite}/idempotence-raises/{type(e).__name__}", f"{callsite}({_fmt(out)}{pdesc}) [second application]: {type(e).__name__}: {e}")
            return
        ctx.count("calls")
        ctx.evaluations += 1
        tol = (1e-9 if OPS[op]["layout"] == "mat" else 1e-12) * (1.0 if op in ("normalize", "normalized_sparsity", "procrustes") else s)
        if again.size != out.size or not np.all(np.isfinite(again)) or float(np.abs(again.reshape(-1) - out.reshape(-1)).max()) > tol * 4:
            if OPS[op]["layout"] == "mat":
                cls = _mat_class(op, p, np.asarray(x_in))
            else:
                # class of the first column that moved under the second application
                cls = None
                if again.size == out.size:
                    for v, a, b in zip(self._cols(op, x_in), self._cols(op, out.reshape(np.shape(x_in))), self._cols(op, again.reshape(np.shape(x_in)))):
                        if not np.all(np.isfinite(b)) or max(abs(c - d) for c, d in zip(a, b)) > tol * 4:
                            cls = _input_class(op, p, v)
                            break
                if cls is None:
                    cls = _input_class(op, p, self._cols(op, x_in)[0])
            ctx.violation(f"{callsite}/idempotence/{cls}", f"P(v)={_fmt(out)} but P(P(v))={_fmt(again)} for v={_fmt(x_in)}{pdesc}")

    # ------------------------------------------------------------------ point cases
    def run_case(self, case, ctx):
        kind = case["kind"]
        if kind == "fne":
            return self._run_fne_pair(case, ctx)
        op = case["op"]
        d = OPS[op]
        s = float(case["scale"])
        ptok = d["params"][case["pi"]]
        if kind == "m22":
            forms = [("mat", np.array(case["m"], dtype=np.float64).reshape(2, 2) * s)]
        else:
            vals = [float(a) for a in case["v"]]
            w = partner(vals, case["alpha"], case.get("seed", 0))
            v1 = np.array(vals, dtype=np.float64) * s
            m2 = np.stack([v1, np.array(w, dtype=np.float64) * s], axis=1).copy()
            forms = [("mat", m2)] if d["layout"] == "mat" else [("1d", v1), ("mat", m2)]
            if d["layout"] != "mat" and float(case["scale"]) == 1.0:
                forms.append(("col1", v1.reshape(-1, 1).copy()))  # a matrix with exactly one column (as a rank-1 factor is)
                forms.append(("mat+numpy-scalar-parameter", m2.copy()))
        ctx.evaluations -= 1  # begin() counted the case; every library call below is counted instead
        for form, x_in in forms:
            self._param_kind = "numpy" if form.endswith("numpy-scalar-parameter") else None
            if op in ("hard_sparsity", "normalized_sparsity"):
                p = _resolve_k(ptok, x_in.size)
                if p is None:
                    ctx.count("skipped:sparsity-level-covered-by-size-token")
                    continue
            elif d["pscale"]:
                p = float(ptok) * s
            else:
                p = ptok
            pdesc = "" if p is None or p is True else (f", decreasing={p == 'decreasing'}" if op == "monotonicity" else f", {p!r}")
            if op == "normalize" and not np.any(x_in):
                ctx.count("guarded_out:normalize-zero-input")
                ctx.outcome("normalize:guarded")
                continue
            if op == "normalized_sparsity" and p < 1:
                ctx.count("guarded_out:empty-constraint-set")
                continue
            direct = None
            if d["fn"] is not None:
                callsite = d["fn"]
                ctx.count("calls")
                ctx.evaluations += 1
                try:
                    direct = self._call(op, p, x_in, "direct")
                except Exception as e:
                    ctx.violation(f"{callsite}/raises/{type(e).__name__}", f"{callsite}({_fmt(x_in)}{pdesc}): {type(e).__name__}: {e}")
                    ctx.outcome(f"{op}:raised")
                    direct = None
                else:
                    self._evaluate(ctx, case, op, p, form, x_in, direct, s, callsite, pdesc)
                    if d["proj"]:
                        self._idempotence(ctx, op, p, form, x_in, direct, s, callsite, "direct", pdesc)
                    if not ctx.samples or (len(ctx.samples) < 2 and form == "mat"):
                        ctx.sample({"call": f"{callsite}({_fmt(x_in)}{pdesc})", "returned": _fmt(direct)})
            if d["kw"] is None or p == "decreasing":
                continue
            if d["fn"] is not None and not p:
                ctx.count("guarded_out:falsy-parameter-means-constraint-not-selected")
                continue
            callsite = f"proximal_operator.{d['kw']}"
            pd2 = f", {d['kw']}={True if isinstance(p, str) else p!r}"
            ctx.count("calls")
            ctx.evaluations += 1
            try:
                disp = self._call(op, p, x_in, "dispatch")
            except Exception as e:
                ctx.violation(f"{callsite}/raises/{type(e).__name__}", f"proximal_operator({_fmt(x_in)}{pd2}): {type(e).__name__}: {e}")
                ctx.outcome(f"{op}:raised")
                continue
            if direct is not None and _same(disp, direct):
                # bit-identical to the direct function: the verdict above applies, attributed to the function
                ctx.count("dispatch_identical_to_direct")
                continue
            self._evaluate(ctx, case, op, p, form, x_in, disp, s, callsite, pd2)
            if d["proj"]:
                self._idempotence(ctx, op, p, form, x_in, disp, s, callsite, "dispatch", pd2)
            if d["fn"] is None and len(ctx.samples) < 1:
                ctx.sample({"call": f"proximal_operator({_fmt(x_in)}{pd2})", "returned": _fmt(disp)})

    # ------------------------------------------------------------------ firm non-expansiveness, all pairs
    def _fne_inputs(self, op, tier="quick"):
        if op == "svd_thresholding":
            ms = [np.array(m, dtype=np.float64).reshape(1, 2) for m in itertools.product(V1, repeat=2)]
            ms2 = [np.array(m, dtype=np.float64).reshape(2, 2) for m in itertools.product(V1, repeat=4)]
            return [ms, ms2]
        return [[np.array(v, dtype=np.float64) for v in itertools.product(V1, repeat=n)] for n in ((1, 2, 3, 4) if tier == "thorough" else (1, 2, 3))]

    def _fne_table(self, op, p, inputs, ctx):
        path = "dispatch" if OPS[op]["fn"] is None else "direct"
        outs = []
        for x in inputs:
            ctx.count("calls")
            try:
                outs.append(np.asarray(self._call(op, p, x, path), dtype=np.float64).reshape(-1))
            except Exception:
                outs.append(np.full(x.size, np.nan))
        return np.array(outs)

    def _fne_class(self, op, p, x):
        if OPS[op]["layout"] == "mat":
            return _mat_class(op, p, x)
        return _input_class(op, p, x.reshape(-1).tolist())

    def run_group(self, group, tier, seed, ctx):
        if group["kind"] != "fne":
            _ref.cache_clear()
            return super().run_group(group, tier, seed, ctx)
        op, pi = group["op"], group["pi"]
        p = OPS[op]["params"][pi]
        callsite = OPS[op]["fn"] or f"proximal_operator.{OPS[op]['kw']}"
        for inputs in self._fne_inputs(op, tier):
            Pm = self._fne_table(op, p, inputs, ctx)
            Vm = np.array([x.reshape(-1) for x in inputs])
            N = len(inputs)
            finite = np.all(np.isfinite(Pm), axis=1)
            Pz = np.where(finite[:, None], Pm, 0.0)
            A = Pz @ Vm.T
            B = Pz @ Pz.T
            da, db = np.diag(A), np.diag(B)
            lhs = da[:, None] + da[None, :] - A - A.T  # <Pv - Pw, v - w>
            rhs = db[:, None] + db[None, :] - 2 * B    # |Pv - Pw|^2
            ok = finite[:, None] & finite[None, :]
            viol = ok & (lhs < rhs - 1e-9)
            ctx.evaluations += N * N
            ctx.count("fne_pairs", N * N)
            ctx.count("fne_pairs_nontrivial", int(np.count_nonzero(ok & (rhs > 1e-18))))
            ctx.count("fne_pairs_skipped_nonfinite_output", int(N * N - np.count_nonzero(ok)))
            ctx.outcome(f"fne:{op}:pairs-checked")
            moved = np.abs(Pm - Vm).max(axis=1) > 1e-9
            for i in np.nonzero(moved | ~finite)[0]:
                ctx.nontriv(["fne", op, str(p), inputs[int(i)].tolist()])
            ii, jj = np.nonzero(np.triu(viol))
            if len(ii):
                classes = [self._fne_class(op, p, x) for x in inputs]
                for i, j in zip(ii.tolist(), jj.tolist()):
                    sig = f"{callsite}/firm-nonexpansive/{_pair_class(op, classes[i], classes[j])}"
                    case = {"kind": "fne", "op": op, "pi": pi, "v": inputs[i].tolist(), "w": inputs[j].tolist()}
                    n_have = len(ctx.violations.get(sig, {"examples": []})["examples"])
                    detail = ""
                    if n_have < ctx.MAX_STORED_PER_SIG:
                        detail = (f"{callsite} p={p!r}: v={inputs[i].tolist()} w={inputs[j].tolist()} P(v)={Pm[i].tolist()} P(w)={Pm[j].tolist()}: "
                                  f"<Pv-Pw, v-w> = {float(lhs[i, j])!r} < |Pv-Pw|^2 = {float(rhs[i, j])!r}")
                    ctx.violation(sig, detail, case=case)
                ctx.outcome(f"fne:{op}:violated")

    def _run_fne_pair(self, case, ctx):
        op, pi = case["op"], case["pi"]
        p = OPS[op]["params"][pi]
        callsite = OPS[op]["fn"] or f"proximal_operator.{OPS[op]['kw']}"
        v, w = np.array(case["v"], dtype=np.float64), np.array(case["w"], dtype=np.float64)
        Pm = self._fne_table(op, p, [v, w], ctx)
        if not np.all(np.isfinite(Pm)):
            return
        dp, dv = Pm[0] - Pm[1], (v - w).reshape(-1)
        lhs, rhs = float(dp @ dv), float(dp @ dp)
        if lhs < rhs - 1e-9:
            cls = _pair_class(op, self._fne_class(op, p, v), self._fne_class(op, p, w))
            ctx.violation(f"{callsite}/firm-nonexpansive/{cls}",
                          f"{callsite} p={p!r}: v={v.tolist()} w={w.tolist()} P(v)={Pm[0].tolist()} P(w)={Pm[1].tolist()}: <Pv-Pw, v-w> = {lhs!r} < |Pv-Pw|^2 = {rhs!r}")


CHECK = C12()
