"""C17 — backend selection is a per-thread stack over a shared default.

Three exhaustive explorations of the REAL managers (tensorly.backend, tensorly.tenalg):

* HX  operation-granularity interleavings: level-synchronous BFS over histories of (thread, op)
      events to the fixpoint of the reachable canonical states; every transition is executed on
      the real code (replay on fresh threads); oracle = subset construction against the
      specification in vmc/bk.py (trace inclusion).
* SX  sub-operation interleavings: real threads under a controlled scheduler (vmc/sched.py),
      all schedules up to a pre-emption bound, oracle = linearizability w.r.t. the same spec.
* DX  "dynamically dispatched functions always run on that backend": in every state reached by a history of
      selection events (length <= 2 quick / 4 thorough, two threads) EVERY name of the managers' dispatch tables
      (functions and attributes) is reached through every access path (manager attribute, reference taken before
      any selection, tensorly top level) in every thread, with marker methods installed on the backend classes; each
      must land on the backend get_backend() names in that thread (get_backend() itself is judged by HX/SX/TX).
* TX  the TLA+ statement of the spec (models/BackendStack.tla): TLC enumerates its state graph,
      the graph is compared with the Python spec's graph, and its edges are replayed on the real code.
"""
import itertools
import json
import os
import time

from vmc import bk
from vmc.runner import Check, Ctx, HarnessError

_MGRS = {}


def get_mgr(which, nb):
    key = (which, nb)
    if key not in _MGRS:
        _MGRS[key] = bk.Manager(which, nb)
    return _MGRS[key]


def other_of(which):
    return "tenalg" if which == "backend" else "backend"


_RUNNERS = {}


def get_runner(n):
    if n not in _RUNNERS:
        _RUNNERS[n] = bk.ThreadRunner(n)
    return _RUNNERS[n]


def replay_last(mgr, other, nthreads, g0, hist, fresh_threads=False):
    """Run `hist` from the initial state; observe after the LAST event only (the prefix was validated when its
    node was first reached).  Participant threads are persistent real threads whose thread-local storage is
    emptied inside the thread before every replay (fresh_threads=True creates new threads instead)."""
    mgr.reset(g0)
    if other is not None:
        other.reset(other.names[0])
    tr = bk.ThreadRunner(nthreads) if fresh_threads else get_runner(nthreads)
    ctxs = [[] for _ in range(nthreads)]
    try:
        cleared = [fresh_threads] * nthreads
        res = None
        i = 0
        while i < len(hist):
            t = hist[i][0]
            j = i
            while j < len(hist) and hist[j][0] == t:
                j += 1
            seg = [tuple(ev) for _, ev in hist[i:j]]

            def run_seg(t=t, seg=seg, clear=not cleared[t]):
                if clear:
                    mgr.clear_tls()
                    if other is not None:
                        other.clear_tls()
                r = None
                for ev in seg:
                    r = mgr.op(ev, ctxs[t], by_instance=(t % 2 == 1))  # odd threads select by instance, even ones by name
                return r

            cleared[t] = True
            res = tr.do(t, run_seg)
            if isinstance(res, tuple) and res and res[0] == "__harness_exception__":
                raise HarnessError(f"harness exception in participant thread: {res} hist={hist}")
            i = j

        def final(u):
            if not cleared[u]:
                mgr.clear_tls()
                if other is not None:
                    other.clear_tls()
            return (mgr.probe(), other.probe() if other is not None else None)

        both = tuple(tr.do(u, lambda u=u: final(u)) for u in range(nthreads))
        probes = tuple(b[0] for b in both)
        o_after = tuple(b[1] for b in both) if other is not None else None
        o_before = None
        if other is not None:
            od = other.cls._backend.backend_name
            o_before = tuple((od, od, od, None) for _ in range(nthreads))  # fresh threads observe the other manager's default
        snap = mgr.snapshot()
        cst = tuple(tuple(bk.ctx_canon(c) for c in cs) for cs in ctxs)
    finally:
        # dispose of still-open contexts deterministically (their generators would otherwise run their `finally`
        # whenever they are garbage collected); the next replay resets the manager anyway
        for cs in ctxs:
            for cm in reversed(cs):
                try:
                    cm.gen.close()
                except Exception:
                    pass
        if fresh_threads:
            tr.close()
    return res, probes, o_before, o_after, snap, cst


def judge(which, nthreads, S, t, ev, res, probes, o_before, o_after):
    """Subset construction step.  Returns (S', violations[list of (sig, detail)])."""
    viol = []
    evname = ev[0] + ("-" + ev[-1] if ev[0] in ("set", "enter", "enterbad", "exit") else "")
    obs = []
    for u, p in enumerate(probes):
        a, b, ex, tls = p
        if not (a == b == ex):
            viol.append((f"{which}/{evname}/inconsistent-views", f"thread {u}: get_backend()={a} current_backend()={b} dispatched call ran on {ex}"))
        obs.append(a)
    if o_before is not None and o_before != o_after:
        viol.append((f"{which}/{evname}/cross-manager", f"the other manager's observations changed: {o_before} -> {o_after}"))
    if ev[0] in ("setbad", "enterbad") and res[0] != "rejected":
        viol.append((f"{which}/{evname}/bogus-accepted", f"result {res}"))
    if ev[0] in ("set", "enter", "exit", "query") and res[0] not in ("ok",):
        # unexpected exception / swallowed exception: judged by observations below, but classified
        evname = evname + "+" + res[0]
    cand = set()
    for s in S:
        cand |= bk.spec_step(s, t, ev)
    S2 = {s for s in cand if all(bk.spec_cur(s, u) == obs[u] for u in range(nthreads))}
    if not S2:
        # classify: which threads disagree with the closest allowed successor
        best = None
        for s in cand:
            mis = [u for u in range(nthreads) if bk.spec_cur(s, u) != obs[u]]
            if best is None or len(mis) < len(best[0]):
                best = (mis, s)
        mis, s = best
        who = []
        if t in mis:
            who.append("acting-thread")
        if any(u != t for u in mis):
            who.append("other-thread")
        exp = [bk.spec_cur(s, u) for u in range(nthreads)]
        viol.append((f"{which}/{evname}/{'+'.join(who)}-observes-wrong-backend",
                     f"thread {t} did {ev} (result {res}); observed per thread {obs}; closest allowed {exp}; |allowed|={len(cand)}"))
    return S2, viol


def hx_expand(args):
    which, nthreads, nb, depth, g0, hist, S, depths = args
    mgr = get_mgr(which, nb)
    other = get_mgr(other_of(which), 2)
    S = set(S)
    evs = bk.alphabet(mgr.names)
    out = []
    for t in range(nthreads):
        for ev in evs:
            if ev[0] in ("enter", "enterbad") and depths[t] >= depth:
                continue
            if ev[0] == "exit" and depths[t] == 0:
                continue
            h2 = hist + [(t, ev)]
            res, probes, ob, oa, snap, cst = replay_last(mgr, other, nthreads, g0, h2)
            S2, viol = judge(which, nthreads, S, t, ev, res, probes, ob, oa)
            d2 = tuple(len(c) for c in cst)
            # harness-side stack depth must agree with the spec's (enter accepted <=> pushed)
            if S2 and any(len(s[2][u]) != d2[u] for s in S2 for u in range(nthreads)):
                viol.append((f"{which}/{ev[0]}/context-not-entered", f"result {res}; open contexts {d2} vs spec"))
                S2 = set()
            tls = tuple(p[3] for p in probes)
            key = canon_key((snap, tls, cst, tuple(sorted(S2, key=repr))))
            out.append((t, ev, key, tuple(sorted(S2, key=repr)), d2, viol, res))
    return out


def canon_key(key):
    import hashlib

    return hashlib.sha1(repr(key).encode()).hexdigest()


# ------------------------------------------------------------------------------------------
# SX: sub-operation interleavings under the controlled scheduler; oracle = linearizability
TARGET_FILES = ("tensorly/backend/__init__.py", "tensorly/tenalg/__init__.py")
QKINDS = ("qcall", "qget", "qcur")


def sx_components(names):
    a, b = names[0], names[1]
    comps = []
    for x in (b, a):
        comps.append(("lctx-" + x, [("enter", x, "L"), "q", ("exit", "ok" if x == b else "exc"), "q"]))
        comps.append(("gctx-" + x, [("enter", x, "G"), "q", ("exit", "exc" if x == b else "ok"), "q"]))
        comps.append(("gset-" + x, ["q", ("set", x, "G"), "q"]))
        comps.append(("lset-" + x, ["q", ("set", x, "L"), "q"]))
    comps.append(("badset", ["q", ("setbad",), "q"]))
    comps.append(("badctx", ["q", ("enterbad", "G"), "q"]))
    comps.append(("observer", ["q", "q", "q"]))
    comps.append(("nested", [("enter", b, "L"), ("enter", a, "G"), ("exit", "ok"), "q", ("exit", "exc"), "q"]))
    comps.append(("lset-then-gctx", [("set", b, "L"), ("enter", a, "G"), ("exit", "ok"), "q"]))
    return comps


def sx_programs(names, kind):
    """kind: 'pairs-core' (quick), 'pairs-all', 'triples-core' (quick), 'triples-all'."""
    comps = sx_components(names)
    b = names[1]
    core_names = ("lctx-" + b, "gctx-" + b, "gset-" + b, "gset-" + names[0], "lset-" + b, "badset", "badctx", "observer", "nested")
    obs = [c for c in comps if c[0] == "observer"][0]
    if kind == "pairs-hot":  # pairs that really collide on the shared default (deeper bound in the quick tier)
        a = names[0]
        hot = [("observer", "gset-" + b), ("observer", "gctx-" + b), ("observer", "badset"), ("observer", "badctx"), ("observer", "nested"),
               ("observer", "lctx-" + b), ("gset-" + b, "gset-" + a), ("gctx-" + b, "gset-" + a), ("gctx-" + b, "gctx-" + b),
               ("lctx-" + b, "gset-" + a), ("nested", "gset-" + b), ("badset", "gctx-" + b)]
        byname = {c[0]: c for c in comps}
        return [[byname[x], byname[y]] for x, y in hot]
    if kind.startswith("pairs"):
        pool = comps if kind == "pairs-all" else [c for c in comps if c[0] in core_names]
        progs = []
        for i in range(len(pool)):
            for j in range(i, len(pool)):
                if pool[i][0] == "observer" and pool[j][0] == "observer":
                    continue
                progs.append([pool[i], pool[j]])
        return progs
    if kind == "triples-core":
        pool = [c for c in comps if c[0] in ("lctx-" + b, "gset-" + b, "badset")]
    else:
        pool = [c for c in comps if c[0] != "observer"]
    return [[pool[i], pool[j], obs] for i in range(len(pool)) for j in range(i, len(pool))]


def expand_ops(prog):
    """per thread list of concrete ops; 'q' cycles through the three ways of asking."""
    out = []
    qi = 0
    for _, ops in prog:
        lst = []
        for o in ops:
            if o == "q":
                lst.append((QKINDS[qi % 3],))
                qi += 1
            else:
                lst.append(tuple(o))
        out.append(lst)
    return out


def sx_bodies(mgr, threads_ops):
    """fresh bodies for one execution (fresh threads => empty thread-local selections)."""
    bodies = []
    for t, ops in enumerate(threads_ops):
        def body(rec, t=t, ops=ops):
            ctxs = []
            try:
                for k, ev in enumerate(ops):
                    rec(("inv", (t, k), ev))
                    if ev[0] == "qget":
                        try:
                            r = ("obs", mgr.mod.get_backend())
                        except Exception as e:
                            r = ("obs", "raised:" + type(e).__name__)
                    elif ev[0] == "qcur":
                        try:
                            r = ("obs", mgr.mod.current_backend().backend_name)
                        except Exception as e:
                            r = ("obs", "raised:" + type(e).__name__)
                    elif ev[0] == "qcall":
                        bk._EXEC.last = None
                        try:
                            mgr.call()
                            r = ("obs", bk._EXEC.last)
                        except Exception as e:
                            r = ("obs", "raised:" + type(e).__name__)
                    else:
                        r = mgr.op(ev, ctxs, by_instance=(t % 2 == 1))
                    rec(("res", (t, k), r))
            finally:
                for cm in reversed(ctxs):  # never leave a generator-based context to the garbage collector
                    try:
                        cm.gen.close()
                    except Exception:
                        pass
        bodies.append(body)
    return bodies


def linearizable(nthreads, g0, events):
    """events: list of (clock, thread, payload).  Brute-force search for a linearization consistent with
    real-time order whose sequential run on the specification explains every observation."""
    ops = {}
    for clock, t, (kind, oid, x) in events:
        if kind == "inv":
            ops[oid] = {"t": t, "ev": x, "inv": clock, "res": None, "r": None}
        else:
            ops[oid]["res"] = clock
            ops[oid]["r"] = x
    for o in ops.values():
        if o["res"] is None:
            return False, "operation without response"
    # The statement does not promise that entering a context is atomic w.r.t. other threads' *global* selections:
    # an accepted enter is modelled as two atomic steps inside its interval - remember the backend to restore, then select.
    for oid in list(ops):
        o = ops[oid]
        if o["ev"][0] == "enter" and o["r"][0] == "ok":
            del ops[oid]
            ops[oid + ("r",)] = dict(o, ev=("enter_r",) + tuple(o["ev"][1:]), after=None)
            ops[oid + ("w",)] = dict(o, ev=("enter_w",) + tuple(o["ev"][1:]), after=oid + ("r",))
    ids = sorted(ops, key=repr)
    memo = set()

    def apply(S, o):
        ev, r, t = o["ev"], o["r"], o["t"]
        if ev[0] in QKINDS:
            return frozenset(s for s in S if bk.spec_cur(s, t) == r[1])
        if ev[0] in ("setbad", "enterbad"):
            return S if r[0] == "rejected" else frozenset()
        if r[0] != "ok":
            return frozenset()
        out = set()
        for s in S:
            if ev[0] == "exit" and not s[2][t]:
                continue
            out |= bk.spec_step(s, t, ev)
        return frozenset(out)

    def search(remaining, S):
        if not remaining:
            return True
        key = (remaining, S)
        if key in memo:
            return False
        memo.add(key)
        for oid in remaining:
            o = ops[oid]
            if any(ops[p]["res"] < o["inv"] for p in remaining if p != oid):
                continue  # some other pending op finished before this one started: it must come first
            if o.get("after") is not None and o["after"] in remaining:
                continue
            S2 = apply(S, o)
            if S2 and search(remaining - {oid}, S2):
                return True
        return False

    ok = search(frozenset(ids), frozenset([bk.spec_init(nthreads, g0)]))
    return ok, None


def sx_signature(which, prog, events):
    bad = [p for (_, _, p) in events if p[0] == "res" and p[2][0] in ("raised", "accepted-bogus", "swallowed")]
    tag = "+".join(c[0] for c in prog)
    if bad:
        return f"{which}/SX/{tag}/unexpected-result-{bad[0][2][0]}"
    return f"{which}/SX/{tag}/not-linearizable"


# ------------------------------------------------------------------------------------------
# TX: the TLA+ statement of the specification, enumerated by TLC, bound to the Python spec and replayed on the real code
def tlc_graph(names, nthreads, depth, g0):
    """Run TLC on models/BackendStack.tla; return (set of states, set of (s, s') pairs) in the Python spec's encoding."""
    import ast
    import shutil
    import subprocess
    import tempfile

    root = os.path.dirname(os.path.dirname(os.path.dirname(os.path.abspath(__file__))))
    tmp = tempfile.mkdtemp(prefix="c17_tlc_")
    try:
        shutil.copy(os.path.join(root, "models", "BackendStack.tla"), tmp)
        q = lambda xs: "{" + ", ".join('"%s"' % x for x in xs) + "}"
        with open(os.path.join(tmp, "BackendStack.cfg"), "w") as f:
            f.write(f"CONSTANTS\n  Threads = {q(['t%d' % i for i in range(nthreads)])}\n  Backends = {q(names)}\n  MaxDepth = {depth}\n  G0 = \"{g0}\"\n"
                    "INIT Init\nNEXT Next\nINVARIANT TypeOK\nPROPERTY LocalIsolation\nPROPERTY Restoration\nACTION_CONSTRAINT Dump\nCHECK_DEADLOCK FALSE\n")
        r = subprocess.run(["tlc", "-workers", "1", "-noGenerateSpecTE", "-metadir", os.path.join(tmp, "meta"), "BackendStack.tla"],
                           cwd=tmp, capture_output=True, text=True, timeout=1800)
        out = r.stdout
        if "Model checking completed. No error has been found." not in out:
            raise HarnessError("TLC did not complete cleanly on models/BackendStack.tla:\n" + out[-1500:] + r.stderr[-500:])

        def conv(js):
            d = json.loads(js)
            none = lambda x: None if x == "none" else x
            sel = tuple(none(d["sel"]["t%d" % i]) for i in range(nthreads))
            stk = tuple(tuple((e["prev"], bool(e["wasNone"]), e["fl"], none(e["g0"])) for e in d["stk"]["t%d" % i]) for i in range(nthreads))
            return (d["G"], sel, stk)

        states, pairs = set(), set()
        for line in out.splitlines():
            if line.startswith('<<"EDGE"'):
                _, a, b = ast.literal_eval("(" + line[2:-2] + ")")
                a, b = conv(a), conv(b)
                states.add(a)
                states.add(b)
                pairs.add((a, b))
        import re

        m = re.search(r"(\d+) states generated, (\d+) distinct states found", out)
        return states, pairs, (int(m.group(1)), int(m.group(2))) if m else (0, 0)
    finally:
        shutil.rmtree(tmp, ignore_errors=True)


def python_spec_graph(names, nthreads, depth, g0):
    """BFS of the Python specification: states, labelled edges, BFS-tree event path of every state."""
    evs = bk.alphabet(names)
    init = bk.spec_init(nthreads, g0)
    path = {init: []}
    order = [init]
    edges = []
    i = 0
    while i < len(order):
        s = order[i]
        i += 1
        for t in range(nthreads):
            for ev in evs:
                if not bk.spec_enabled(s, t, ev, depth):
                    continue
                for s2 in sorted(bk.spec_step(s, t, ev), key=repr):
                    edges.append((s, (t, ev), s2))
                    if s2 not in path:
                        path[s2] = path[s] + [(t, ev)]
                        order.append(s2)
    return order, edges, path


# ------------------------------------------------------------------------------------------ DX: every dispatched name
class _Tag:
    """marker value standing in for a dispatched attribute of one backend"""

    def __init__(self, backend, name):
        self.backend, self.name = backend, name


_DX_MISSING = object()
_DX_ATTRS = ("int64", "int32", "float64", "float32", "pi", "e", "inf", "nan", "complex128", "complex64", "index", "backend_name")
_DX_PRE = {}


def dx_names(mgr):
    funcs = list(mgr.cls._functions)
    attrs = [a for a in getattr(mgr.cls, "_attributes", [])]
    return funcs, attrs


def dx_prebound(mgr):
    """references to the dispatched functions taken once, before any selection (what `from tensorly import f` gives a user)"""
    if mgr.which not in _DX_PRE:
        _DX_PRE[mgr.which] = {n: getattr(mgr.mod, n) for n in mgr.cls._functions}
    return _DX_PRE[mgr.which]


def dx_patch(mgr, funcs, attrs):
    """Replace, on every participating backend class, each dispatched function by a marker that records (backend, name) and each
    dispatched attribute (except backend_name, which the manager itself reads) by a tagged value.  Returns the undo list."""
    undo = []
    hit = bk._EXEC
    for nm in mgr.names:
        bcls = type(mgr.cls._loaded_backends[nm])
        for f in funcs:
            undo.append((bcls, f, bcls.__dict__.get(f, _DX_MISSING)))

            def marker(*a, _nm=nm, _f=f, **k):
                hit.dx = (_nm, _f)

            setattr(bcls, f, staticmethod(marker))
        for a in attrs:
            if a == "backend_name":
                continue
            undo.append((bcls, a, bcls.__dict__.get(a, _DX_MISSING)))
            setattr(bcls, a, _Tag(nm, a))
    return undo


def dx_unpatch(undo):
    for bcls, name, old in reversed(undo):
        if old is _DX_MISSING:
            try:
                delattr(bcls, name)
            except AttributeError:
                pass
        else:
            setattr(bcls, name, old)


def dx_probe_thread(mgr, funcs, attrs, pre):
    """Executed inside a participant thread while the markers are installed: every way of reaching every dispatched name must
    land on the backend get_backend() names in this thread.  Returns (expected backend, [(path, name, landed)...] mismatches, n)."""
    import tensorly as _tl

    exp = mgr.mod.get_backend()
    bad, n = [], 0
    hit = bk._EXEC
    top = mgr.which == "backend"

    def call(path, name, fn):
        nonlocal n
        n += 1
        hit.dx = None
        try:
            fn()
            got = hit.dx
        except Exception as e:  # the marker accepts any arguments: an exception comes from the dispatch machinery
            got = ("raised:" + type(e).__name__, name)
        if got != (exp, name):
            bad.append((path, name, got))

    for f in funcs:
        try:
            call("manager-attribute", f, getattr(mgr.mod, f))
        except AttributeError as e:
            bad.append(("manager-attribute", f, ("missing", str(e)[:60])))
        call("reference-taken-earlier", f, pre[f])
        if top and hasattr(_tl, f):
            call("tensorly-top-level", f, getattr(_tl, f))
    for a in attrs:
        paths = [("manager-attribute", mgr.mod)]
        if top and a not in vars(_tl):
            paths.append(("tensorly-top-level", _tl))
        for path, mod in paths:
            n += 1
            try:
                v = getattr(mod, a)
            except Exception as e:
                bad.append((path, a, ("raised:" + type(e).__name__, a)))
                continue
            got = (v.backend, v.name) if isinstance(v, _Tag) else (v, a) if a == "backend_name" else ("untagged-static-value", a)
            if got != (exp, a):
                bad.append((path, a, got))
    return exp, bad, n


def dx_histories(names, nthreads, maxlen):
    """every history of selection events (no queries / rejected requests: they change nothing) of length <= maxlen, contexts nested
    at most maxlen deep, simplest first"""
    evs = [e for e in bk.alphabet(names, with_query=False) if e[0] in ("set", "enter", "exit")]
    out = [([], (0,) * nthreads)]
    frontier = list(out)
    for _ in range(maxlen):
        nxt = []
        for h, d in frontier:
            for t in range(nthreads):
                for ev in evs:
                    if ev[0] == "exit" and d[t] == 0:
                        continue
                    d2 = list(d)
                    d2[t] += 1 if ev[0] == "enter" else -1 if ev[0] == "exit" else 0
                    nxt.append((h + [(t, ev)], tuple(d2)))
        out += nxt
        frontier = nxt
    return [h for h, _ in out]


def dx_run(mgr, nthreads, g0, hist, fresh_threads=False):
    """establish the state reached by `hist` on the real manager, install the markers, probe every name in every thread"""
    mgr.reset(g0)
    dx_prebound(mgr)
    tr = bk.ThreadRunner(nthreads) if fresh_threads else get_runner(nthreads)
    ctxs = [[] for _ in range(nthreads)]
    funcs, attrs = dx_names(mgr)
    try:
        for u in range(nthreads):
            tr.do(u, mgr.clear_tls)
        for t, ev in hist:
            res = tr.do(t, lambda t=t, ev=ev: mgr.op(tuple(ev), ctxs[t], by_instance=(t % 2 == 1)))
            if isinstance(res, tuple) and res and res[0] == "__harness_exception__":
                raise HarnessError(f"harness exception in participant thread: {res} hist={hist}")
        undo = dx_patch(mgr, funcs, attrs)
        try:
            pre = dx_prebound(mgr)
            outs = [tr.do(u, lambda: dx_probe_thread(mgr, funcs, attrs, pre)) for u in range(nthreads)]
        finally:
            dx_unpatch(undo)
        for o in outs:
            if isinstance(o, tuple) and o and o[0] == "__harness_exception__":
                raise HarnessError(f"harness exception in DX probe: {o} hist={hist}")
        return outs
    finally:
        for t in range(nthreads):
            while ctxs[t]:
                cm = ctxs[t].pop()
                try:
                    tr.do(t, lambda cm=cm: cm.__exit__(None, None, None))
                except Exception:
                    pass
        if fresh_threads:
            tr.close() if hasattr(tr, "close") else None


def dx_judge(which, hist, outs, ctx, g0=None):
    for u, (exp, bad, n) in enumerate(outs):
        ctx.evaluations += n
        ctx.count("DX:dispatched-name-probes", n)
        by = {}
        for path, name, got in bad:
            kind = "attribute" if name in _DX_ATTRS else "function"
            by.setdefault((path, kind), []).append((name, got))
        for (path, kind), lst in by.items():
            ctx.violation(f"{which}/dispatch/{kind}-via-{path}-runs-on-wrong-backend",
                          f"thread {u} (get_backend() = {exp}) after history {hist}: {len(lst)} dispatched {kind}s reached through "
                          f"'{path}' did not land on {exp}: first {lst[:4]}",
                          case={"part": "DX", "manager": which, "threads": len(outs), "g0": g0, "history": [[t, list(ev)] for t, ev in hist]})



class C17(Check):
    pid = "C17"
    level = "model_checking"
    design_ref = "DESIGN.md §4 C17"
    parent_parallelism = 16
    rule = ("HX: BFS to the fixpoint of the reachable canonical states of the real manager under all operation-level "
            "interleavings of the alphabet {query,set(b,L|G),set(bogus),enter(b,L|G),enter(bogus,L|G),exit(ok|exc)} by N threads; "
            "state = (every data field of manager class+module, every thread's thread-local selection, saved values of every open "
            "context, candidate set of specification states); a transition is non-trivial iff it changes the canonical state")
    assumptions = [
        "operations at HX granularity are atomic (sub-operation interleavings are the SX part)",
        "specification = vmc/bk.py spec_step (mirrored by models/BackendStack.tla); nondeterministic where the statement is silent "
        "(shared default after a global-flavour context exits; re-select vs un-select on restore)",
        "fake NumPy-derived backends 'vfa'/'vfb' stand in for the uninstallable torch/jax backends",
    ]

    def groups(self, tier, seed):
        # (program family, pre-emption bound, bytecode-level scheduling points?)
        plan = [("pairs-core", 1, False), ("pairs-hot", 2, False), ("triples-core", 1, False)] if tier == "quick" else \
               [("pairs-all", 3, False), ("triples-all", 2, False), ("pairs-hot", 2, True)]
        gs = []
        for which in ("backend", "tenalg"):
            names = ["numpy", "vfa"] if which == "backend" else ["core", "einsum"]
            for kind, bound, opcode in plan:
                for pi, prog in enumerate(sx_programs(names, kind)):
                    gs.append({"part": "SX", "manager": which, "family": kind, "program": pi, "names": [c[0] for c in prog],
                               "bound": bound, "opcode": opcode})
            # DX: every dispatched function / attribute, through every access path, in every state reached by a short history
            maxlen = 2 if tier == "quick" else 4
            nh = len(dx_histories(names, 2, maxlen))
            nchunks = 8 if tier == "quick" else 64
            for c in range(nchunks):
                gs.append({"part": "DX", "manager": which, "maxlen": maxlen, "chunk": c, "nchunks": nchunks, "histories": len(range(c, nh, nchunks))})
        return gs

    def run_group(self, group, tier, seed, ctx):
        from vmc import sched

        which = group["manager"]
        mgr = get_mgr(which, 2)
        names = mgr.names
        if group["part"] == "DX":
            hs = dx_histories(names, 2, group["maxlen"])
            landed = set()
            for hist in hs[group["chunk"]::group["nchunks"]]:
                outs = dx_run(mgr, 2, names[0], hist)
                dx_judge(which, hist, outs, ctx, names[0])
                ctx.states += 1
                ctx.traces += 1
                ctx.transitions += len(hist)
                ctx.count("DX:histories", 1)
                obs = tuple(o[0] for o in outs)
                landed.add(obs)
                ctx.outcome("DX:threads-observe-" + ("different-backends" if len(set(obs)) > 1 else "same-backend"))
                if len(set(obs)) > 1:
                    ctx.nontrivial.add(canon_key(("DX", which, hist)))
            return
        progs = sx_programs(names, group["family"])
        prog = progs[group["program"]]
        assert [c[0] for c in prog] == group["names"]
        threads_ops = expand_ops(prog)
        n = len(threads_ops)
        g0 = names[0]
        S = sched.Scheduler(TARGET_FILES, opcode=group["opcode"])
        outcomes = set()

        def make_bodies():
            mgr.reset(g0)
            return sx_bodies(mgr, threads_ops)

        def on_exec(ex):
            ctx.evaluations += 1
            ctx.transitions += ex.steps
            ctx.traces += 1
            obs = tuple(sorted((p[1], p[2]) for (_, _, p) in ex.events if p[0] == "res"))
            outcomes.add(obs)
            ok, why = linearizable(n, g0, ex.events)
            if not ok:
                # determinism: the same schedule must fail again, identically
                ex2 = S.run(make_bodies(), ex.choices)
                if [e[1:] for e in ex2.events] != [e[1:] for e in ex.events]:
                    raise HarnessError(f"nondeterministic replay of schedule {ex.choices} for program {group}")
                ctx.violation(sx_signature(which, prog, ex.events),
                              f"program {[(c[0], threads_ops[i]) for i, c in enumerate(prog)]} default {g0}; schedule {ex.choices}; "
                              f"events {[(c, t, p) for c, t, p in ex.events]}",
                              case={"part": "SX", "manager": which, "ops": threads_ops, "g0": g0, "schedule": ex.choices,
                                    "opcode": group["opcode"], "names": group["names"]})

        count, capped = sched.explore(S, make_bodies, group["bound"], on_exec, max_executions=200000)
        if capped:
            raise HarnessError(f"SX execution cap hit for {group}")
        ctx.states += count
        ctx.count(f"SX:schedules:bound{group['bound']}:{'opcode' if group['opcode'] else 'line'}", count)
        ctx.outcome(f"SX:distinct-observation-vectors:{min(len(outcomes), 9)}")
        if len(outcomes) > 1:
            ctx.nontrivial.add(canon_key(("SX", which, group["family"], group["names"], group["opcode"])))
        if group["program"] == 3 and which == "backend" and group["family"].startswith("pairs"):
            ctx.sample({"part": "SX", "manager": which, "program": [(c[0], threads_ops[i]) for i, c in enumerate(prog)],
                        "schedules": count, "distinct_observation_vectors": len(outcomes)})

    def configs(self, tier):
        # (manager, threads, backends, max context nesting, max history length or None = run to the fixpoint)
        if tier == "quick":
            return [("backend", 2, 2, 2, 5), ("tenalg", 2, 2, 2, 5)]
        return [("backend", 2, 2, 1, None), ("tenalg", 2, 2, 1, None), ("backend", 2, 2, 2, 6), ("tenalg", 2, 2, 2, 6),
                ("backend", 3, 2, 1, 5), ("tenalg", 3, 2, 1, 5), ("backend", 2, 3, 2, 5)]

    def parent_run(self, tier, seed, pool):
        for (which, nthreads, nb, depth, maxlevel) in self.configs(tier):
            yield self.hx_bfs(which, nthreads, nb, depth, pool, tier, maxlevel)
        for (which, nthreads, nb, depth) in ([("backend", 2, 2, 1), ("tenalg", 2, 2, 1)] if tier == "quick" else
                                             [("backend", 2, 2, 1), ("tenalg", 2, 2, 1), ("backend", 2, 2, 2), ("backend", 3, 2, 1), ("tenalg", 3, 2, 1)]):
            yield self.tx_replay(which, nthreads, nb, depth, pool)

    def tx_replay(self, which, nthreads, nb, depth, pool):
        """TLC enumerates the TLA+ spec; its graph must equal the Python spec's graph; then every labelled spec edge (BFS-tree path
        of its source + the event) is replayed on the real manager and judged by trace inclusion."""
        mgr = get_mgr(which, nb)
        names = mgr.names
        g0 = names[0]
        ctx = Ctx({"part": "TX", "manager": which, "threads": nthreads, "backends": nb, "depth": depth})
        t_states, t_pairs, (generated, distinct) = tlc_graph(names, nthreads, depth, g0)
        order, edges, path = python_spec_graph(names, nthreads, depth, g0)
        p_states = set(order)
        p_pairs = {(a, b) for a, _, b in edges}
        if t_states != p_states or t_pairs != p_pairs or distinct != len(p_states):
            raise HarnessError(f"TX {which}: TLA+ spec graph and Python spec graph differ: states {len(t_states)} vs {len(p_states)} "
                               f"(only TLC: {list(t_states - p_states)[:2]}, only Python: {list(p_states - t_states)[:2]}), "
                               f"transition pairs {len(t_pairs)} vs {len(p_pairs)}")
        # distinct tree paths (several spec states can share one event path: the spec is nondeterministic)
        tree_paths = {}
        for s in order:
            tree_paths.setdefault(tuple(path[s]), []).append(s)
        children = {}
        for hp in tree_paths:
            if hp:
                children.setdefault(hp[:-1], []).append(hp)
        S_of = {(): (bk.spec_init(nthreads, g0),)}
        d_of = {(): (0,) * nthreads}
        frontier = [()]
        while frontier:
            jobs = [(which, nthreads, nb, depth, g0, [(t, tuple(ev)) for t, ev in hp], S_of[hp], d_of[hp]) for hp in frontier]
            nxt = []
            for hp, outs in zip(frontier, pool.imap(hx_expand, jobs, chunksize=max(1, len(jobs) // 64))):
                res_by_ev = {}
                for (t, ev, key, S2, d2, viol, res) in outs:
                    ctx.traces += 1
                    ctx.transitions += 1
                    ctx.evaluations += 1
                    h2 = [(a, list(b)) for a, b in hp] + [(t, list(ev))]
                    for sig, detail in viol:
                        ctx.violation(sig, detail + f" | TX replay of spec path (thread, op): {h2} from default {g0}",
                                      case={"part": "HX", "manager": which, "threads": nthreads, "backends": nb, "g0": g0, "history": h2})
                    res_by_ev[(t, ev)] = (S2, d2)
                for ch in children.get(hp, []):
                    S2, d2 = res_by_ev.get((ch[-1][0], tuple(ch[-1][1])), ((), None))
                    if S2:
                        S_of[ch] = S2
                        d_of[ch] = d2
                        nxt.append(ch)
            frontier = nxt
        ctx.states = len(p_states)
        tag = f"TX:{which}:{nthreads}thr:{nb}bk:depth{depth}"
        ctx.counters[f"{tag}:tlc_states_generated"] = generated
        ctx.counters[f"{tag}:tlc_distinct_states"] = distinct
        ctx.counters[f"{tag}:spec_transition_pairs"] = len(p_pairs)
        ctx.counters[f"{tag}:labelled_spec_edges"] = len(edges)
        ctx.counters[f"{tag}:tree_paths_replayed"] = len(S_of)
        ctx.nontrivial.add(canon_key(("TX", which, nthreads, nb, depth)))
        ctx.sample({"part": "TX", "manager": which, "tlc_distinct_states": distinct, "spec_transition_pairs": len(p_pairs),
                    "example_tree_path": [list(x) for x in max(tree_paths, key=len)]})
        r = ctx.result()
        r["group"] = ctx.group
        return r

    def hx_bfs(self, which, nthreads, nb, depth, pool, tier, maxlevel=None):
        mgr = get_mgr(which, nb)
        names = mgr.names
        g0s = names[:1] if tier == "quick" else names
        ctx = Ctx({"part": "HX", "manager": which, "threads": nthreads, "backends": nb, "depth": depth})
        seen = {}
        frontier = []
        for g0 in g0s:
            S0 = (bk.spec_init(nthreads, g0),)
            res, probes, ob, oa, snap, cst = replay_last(mgr, None, nthreads, g0, [])
            obs = [p[0] for p in probes]
            if any(o != g0 for o in obs) or any(not (p[0] == p[1] == p[2]) for p in probes):
                ctx.violation(f"{which}/initial/fresh-thread-does-not-observe-default", f"default {g0}, fresh threads observe {probes}")
                continue
            key = canon_key((snap, tuple(p[3] for p in probes), cst, S0))
            seen[key] = True
            frontier.append((g0, [], S0, (0,) * nthreads))
        level = 0
        cap = 400000
        while frontier and (maxlevel is None or level < maxlevel):
            level += 1
            jobs = [(which, nthreads, nb, depth, g0, hist, S, depths) for (g0, hist, S, depths) in frontier]
            nxt = []
            for (g0, hist, S, depths), outs in zip(frontier, pool.imap(hx_expand, jobs, chunksize=max(1, len(jobs) // 64))):
                for (t, ev, key, S2, d2, viol, res) in outs:
                    ctx.transitions += 1
                    ctx.traces += 1
                    ctx.evaluations += 1
                    ctx.outcomes[f"{ev[0]}:{res[0]}"] += 1
                    h2 = hist + [(t, list(ev))]
                    for sig, detail in viol:
                        ctx.violation(sig, detail + f" | history (thread, op): {h2} from default {g0}",
                                      case={"part": "HX", "manager": which, "threads": nthreads, "backends": nb, "g0": g0, "history": h2})
                    if not S2:
                        continue  # oracle lost track after a violation: do not extend this history
                    k = key
                    if k not in seen:
                        seen[k] = True
                        ctx.nontrivial.add(k)
                        nxt.append((g0, h2, S2, d2))
                        if len(ctx.samples) < 1 and len(h2) >= 4:
                            ctx.sample({"part": "HX", "manager": which, "history": h2, "spec_candidates": len(S2)})
            frontier = nxt
            if os.environ.get("VERIF_DEBUG"):
                print(f"  HX {which} level {level}: states={len(seen)} frontier={len(nxt)} transitions={ctx.transitions} t={time.time():.0f}", flush=True)
            if len(seen) > cap:
                # stop criterion, reported (not an error): every history of length <= level has been executed and judged;
                # the states of the last level stay unexpanded (counter unexpanded_frontier_states)
                ctx.counters[f"HX:{which}:{nthreads}thr:{nb}bk:depth{depth}:state_cap_{cap}_hit_at_level"] = level
                break
        ctx.states = len(seen)
        tag = f"HX:{which}:{nthreads}thr:{nb}bk:depth{depth}"
        ctx.counters[f"{tag}:fixpoint_reached"] = int(not frontier)
        ctx.counters[f"{tag}:unexpanded_frontier_states"] = len(frontier)
        ctx.counters[f"HX:{which}:{nthreads}thr:{nb}bk:depth{depth}:states"] = len(seen)
        ctx.counters[f"HX:{which}:{nthreads}thr:{nb}bk:depth{depth}:levels"] = level
        r = ctx.result()
        r["group"] = ctx.group
        return r

    def extra_coverage(self, merged):
        c = merged["counters"]
        fix = {k: v for k, v in c.items() if k.endswith("fixpoint_reached")}
        return {
            "exhaustive": True,
            "bounds": "every count below is a complete enumeration inside its stated bound: HX = all operation-level histories up to the "
                      "configured length (or to the fixpoint of the reachable state set where *:fixpoint_reached = 1), state-deduplicated; "
                      "SX = all schedules of each program with at most the stated number of pre-emptions at line (or bytecode) granularity",
            "hx_fixpoints": fix,
            "states_note": "states = HX canonical states + SX complete executions (each SX execution ends in one terminal state) + TX specification states (TLC); "
                           "transitions = HX events executed on the real managers + SX scheduling steps + TX spec edges replayed; "
                           "traces_validated_against_impl = HX histories + SX schedules + TX spec paths executed on the real code and judged against the specification",
            "tx": "models/BackendStack.tla checked by TLC (TypeOK, LocalIsolation, Restoration); its state graph equals the Python spec graph (states and transition pairs); "
                  "every labelled spec edge is replayed (BFS-tree path of the source + event) on the real manager",
        }

    # replay of a stored counterexample (a history): re-run and re-judge every step
    def run_case(self, case, ctx):
        if case.get("part") == "HX":
            which, n, nb = case["manager"], case["threads"], case["backends"]
            mgr = get_mgr(which, nb)
            other = get_mgr(other_of(which), 2)
            S = {bk.spec_init(n, case["g0"])}
            hist = [(t, tuple(ev)) for t, ev in case["history"]]
            for i in range(1, len(hist) + 1):
                res, probes, ob, oa, snap, cst = replay_last(mgr, other, n, case["g0"], hist[:i])
                t, ev = hist[i - 1]
                S, viol = judge(which, n, S, t, ev, res, probes, ob, oa)
                for sig, d in viol:
                    ctx.violation(sig, d + f" | after {hist[:i]}")
                if not S:
                    return
            return
        if case.get("part") == "DX":
            mgr = get_mgr(case["manager"], 2)
            hist = [(t, tuple(ev)) for t, ev in case["history"]]
            dx_judge(case["manager"], hist, dx_run(mgr, case["threads"], case["g0"] or mgr.names[0], hist), ctx, case["g0"])
            return
        if case.get("part") == "SX":
            from vmc import sched

            mgr = get_mgr(case["manager"], 2)
            ops = [[tuple(o) for o in th] for th in case["ops"]]
            S = sched.Scheduler(TARGET_FILES, opcode=case.get("opcode", False))
            mgr.reset(case["g0"])
            ex = S.run(sx_bodies(mgr, ops), list(case["schedule"]))
            ok, why = linearizable(len(ops), case["g0"], ex.events)
            if not ok:
                ctx.violation(f"{case['manager']}/SX/{'+'.join(case['names'])}/not-linearizable", f"schedule {case['schedule']} events {ex.events}")
            return
        raise HarnessError(f"unknown case {case}")


CHECK = C17()
