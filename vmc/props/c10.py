"""C10 — non-negative decompositions return entrywise non-negative factors (every iterate, k = 0..K).

Iteration machines: for every configuration the chain s_0 (initialisation) … s_K of the real algorithm is
produced by prefix runs; the state invariant `all entries finite and >= 0 on exactly the declared modes`
(factors, weights, core) is evaluated in every state, and additionally in the state reached through the
convergence exit.
"""
import numpy as np

from vmc import itm
from vmc.runner import Check


def variants(algo, tier):
    q = tier == "quick"
    out = []
    if algo == "non_negative_parafac":
        for init in ("svd", "random", "user", "user-zeros"):
            out.append((f"{init}", {"init": init}))
        out.append(("random-normalize", {"init": "random", "normalize_factors": True}))
        out.append(("svd-normalize", {"init": "svd", "normalize_factors": True}))
        out.append(("mask", {"init": "random", "mask": "MASK"}))
        out.append(("fixed0", {"init": "user", "fixed_modes": [0]}))
        out.append(("einsum-random-normalize", {"init": "random", "normalize_factors": True, "tenalg": "einsum"}))
        out.append(("class-mask-fixed0", {"init": "random", "mask": "MASK", "fixed_modes": [0], "api": "class"}))
    elif algo == "non_negative_parafac_hals":
        for init in ("svd", "random", "user", "user-zeros"):
            out.append((f"{init}", {"init": init}))
        out.append(("svd-normalize", {"init": "svd", "normalize_factors": True}))
        out.append(("sparsity", {"init": "svd", "sparsity_coefficients": "PERMODE:0.5"}))
        out.append(("exact", {"init": "random", "exact": True}))
        for nn in ([0], [1], [0, 1], "LASTONLY"):
            out.append((f"nn_modes-{nn}", {"init": "random", "nn_modes": nn}))
            out.append((f"nn_modes-{nn}-svd", {"init": "svd", "nn_modes": nn}))
        out.append(("nn_modes-ALL-as-list-svd", {"init": "svd", "nn_modes": "ALLLIST"}))
        out.append(("svd-fixed0", {"init": "svd", "fixed_modes": [0]}))
        out.append(("svd-fixed-last", {"init": "svd", "fixed_modes": "LASTONLY"}))
        out.append(("nn_modes-[0, 1]-svd-fixed0", {"init": "svd", "nn_modes": [0, 1], "fixed_modes": [0]}))
        # a fixed mode in front of / between updated modes, with a strict subset of declared modes (position in the update sequence != mode number)
        for fx in ([0], [1]):
            for nn in ("MODES:LAST", "MODES:0,LAST", "MODES:0", "MODES:1,LAST"):
                out.append((f"fixed{fx}-nn-{nn[6:]}", {"init": "random", "fixed_modes": fx, "nn_modes": nn}))
        out.append(("einsum-svd", {"init": "svd", "tenalg": "einsum"}))
        out.append(("class-fixed[0]-nn-0,LAST", {"init": "random", "fixed_modes": [0], "nn_modes": "MODES:0,LAST", "api": "class"}))
        out.append(("class-nn_modes-[1]-normalize", {"init": "svd", "nn_modes": [1], "normalize_factors": True, "api": "class"}))
        out.append(("einsum-nn_modes-[1]", {"init": "random", "nn_modes": [1], "tenalg": "einsum"}))
    elif algo == "non_negative_tucker":
        for init in ("svd", "random"):
            out.append((init, {"init": init}))
            out.append((init + "-normalize", {"init": init, "normalize_factors": True}))
    elif algo == "non_negative_tucker_hals":
        for alg in ("fista", "active_set"):
            for init in ("svd", "random"):
                out.append((f"{alg}-{init}", {"init": init, "algorithm": alg}))
            out.append((f"{alg}-normalize", {"init": "random", "algorithm": alg, "normalize_factors": True}))
            out.append((f"{alg}-sparsity", {"init": "svd", "algorithm": alg, "sparsity_coefficients": "PERMODE:0.3", "core_sparsity_coefficient": 0.2}))
        out.append(("fista-exact", {"init": "random", "algorithm": "fista", "exact": True}))
        out.append(("einsum-fista-svd", {"init": "svd", "algorithm": "fista", "tenalg": "einsum"}))
        out.append(("einsum-active_set-random", {"init": "random", "algorithm": "active_set", "tenalg": "einsum"}))
    elif algo == "constrained_parafac":
        out.append(("all-svd", {"init": "svd", "non_negative": True}))
        out.append(("all-random", {"init": "random", "non_negative": True}))
        out.append(("dict-0", {"init": "svd", "non_negative": {0: True}}))
        out.append(("dict-0-last", {"init": "random", "non_negative": "DICT:0,LAST"}))
        out.append(("all-inner1", {"init": "svd", "non_negative": True, "n_iter_max_inner": 1}))
        out.append(("einsum-dict-0-last", {"init": "svd", "non_negative": "DICT:0,LAST", "tenalg": "einsum"}))
        out.append(("class-dict-0-last", {"init": "random", "non_negative": "DICT:0,LAST", "api": "class"}))
        out.append(("dict-0-negative-key", {"init": "svd", "non_negative": "DICT:0,NEG1"}))  # {0: True, -1: True}: Python indexing, the last mode
    elif algo == "parafac2-linesearch-seam":
        # the accepted extrapolated step of PARAFAC2's line search, driven directly (narrowest seam): every subset of declared modes
        for nn in ([0], [2], [0, 2], [0, 1], [1, 2], [0, 1, 2], [2, 0]):
            out.append((f"nn-{nn}", {"nn_modes": nn}))
    elif algo == "parafac2":
        for nn in ([0], [2], [0, 2], "all"):
            for init in ("random", "svd"):
                out.append((f"nn-{nn}-{init}", {"init": init, "nn_modes": nn, "linesearch": False}))
        out.append(("nn-[0, 2]-linesearch", {"init": "random", "nn_modes": [0, 2], "linesearch": True}))
        out.append(("nn-[2]-linesearch", {"init": "random", "nn_modes": [2], "linesearch": True}))
        out.append(("nn-[0]-linesearch", {"init": "random", "nn_modes": [0], "linesearch": True}))
        out.append(("nn-[0]-linesearch-svd", {"init": "svd", "nn_modes": [0], "linesearch": True}))
        out.append(("nn-[0, 2]-linesearch-svd", {"init": "svd", "nn_modes": [0, 2], "linesearch": True}))
        out.append(("nn-[0]-normalize", {"init": "random", "nn_modes": [0], "linesearch": False, "normalize_factors": True}))
        out.append(("nn-all-linesearch", {"init": "random", "nn_modes": "all", "linesearch": True}))
        out.append(("einsum-nn-[0, 2]", {"init": "random", "nn_modes": [0, 2], "linesearch": False, "tenalg": "einsum"}))
        out.append(("class-nn-[0, 2]-linesearch", {"init": "random", "nn_modes": [0, 2], "linesearch": True, "api": "class"}))
        out.append(("class-nn-all", {"init": "random", "nn_modes": "all", "api": "class"}))
    return out


ALGOS = ["non_negative_parafac", "non_negative_parafac_hals", "non_negative_tucker", "non_negative_tucker_hals", "constrained_parafac", "parafac2",
         "parafac2-linesearch-seam"]
FAMILIES = ["generic", "nonneg", "sparse-nonneg", "integer", "all-negative"]


def shapes_for(algo, tier):
    q = tier == "quick"
    if algo == "parafac2-linesearch-seam":
        return [(3, 4, 2), (4, 5, 3)] if q else [(3, 4, 2), (4, 5, 3), (6, 8, 6)]
    if algo == "parafac2":
        return [(3, 4, 2)] if q else [(3, 4, 2), (2, 3, 3), (4, 2, 3)]
    if algo == "constrained_parafac":
        return [(3, 4, 2)] if q else [(3, 4, 2), (2, 3, 2, 2), (3, 3, 3)]
    return [(4, 3), (3, 4, 2), (2, 3, 2, 2), (3, 1, 2)] if q else [(4, 3), (2, 2), (3, 4, 2), (3, 3, 3), (2, 3, 2, 2), (3, 1, 2), (1, 4, 3)]


def ranks_for(algo, shape, tier):
    if algo.startswith("non_negative_tucker"):
        n = len(shape)
        return [[1] * n, [2] * n]
    return [1, 2] if tier == "quick" else [1, 2, 3]


def K_for(algo, variant, tier):
    if "linesearch" in variant:
        return 11 if tier == "quick" else 15
    if algo in ("non_negative_parafac_hals", "non_negative_tucker_hals"):
        return 2 if tier == "quick" else 4
    return 3 if tier == "quick" else 6


def declared_modes(algo, cfg, ndim):
    """(modes whose factor must be >= 0, weights must be >= 0?, core must be >= 0?)"""
    if algo in ("non_negative_parafac",):
        return list(range(ndim)), True, False
    if algo == "non_negative_parafac_hals":
        nn = cfg.get("nn_modes", "all")
        return (list(range(ndim)) if nn == "all" else list(nn)), nn == "all", False
    if algo.startswith("non_negative_tucker"):
        return list(range(ndim)), False, True
    if algo == "constrained_parafac":
        nn = cfg.get("non_negative")
        return (list(range(ndim)) if nn is True else sorted({m % ndim for m in nn})), False, False
    if algo == "parafac2":
        nn = cfg.get("nn_modes")
        # mode 1: the factor B itself is non-negative when declared (documented); only the evolving B_i = P_i B are not
        modes = [0, 1, 2] if nn == "all" else list(nn)
        return modes, False, False
    raise ValueError(algo)


class C10(Check):
    pid = "C10"
    level = "model_checking"
    design_ref = "DESIGN.md §4 C10"
    rule = ("state = iterate s_k, k = 0..K, of a fixed (algorithm, option set, data family, shape, rank) configuration (prefix runs) plus the state "
            "reached through the convergence exit; invariant min(entry) >= 0 (exactly) and finite on the declared modes / weights / core; "
            "a state is non-trivial iff the run did not raise and the data tensor is not identically reproduced")
    assumptions = ["mode 1 of PARAFAC2: the factor B itself is demanded non-negative when mode 1 is declared (documented); the evolving factors B_i = P_i B are not (documented as impossible)",
                   "user initialisations are entrywise non-negative (with and without exact zeros)",
                   "exceptions on unsupported inputs are guarded out and counted"]

    def groups(self, tier, seed):
        return [{"algo": a, "variant": v[0], "family": f} for a in ALGOS for v in variants(a, tier) for f in FAMILIES]

    def cases(self, group, tier, seed):
        algo = group["algo"]
        var = [v for v in variants(algo, tier) if v[0] == group["variant"]][0]
        heavy = "exact" in var[0]  # exact inner solves run tens of thousands of inner sweeps: smallest scope only
        if algo == "parafac2" and "linesearch" in var[0] and group["family"] == "generic":
            # larger noisy PARAFAC2 data with a mixed-sign A: extrapolated line-search steps overshoot below zero here
            for off in ((0, 4) if tier == "quick" else (0, 4, 10, 12, 29)):
                for nip in (1, 5):
                    yield {"algo": algo, "variant": var[0], "cfg": dict(var[1], n_iter_parafac=nip), "family": f"parafac2-model:{off}",
                           "shape": [6, 8, 6], "rank": 3, "K": 15, "seed": seed}
        for shape in (shapes_for(algo, tier)[1:2] if heavy else shapes_for(algo, tier)):
            for rank in (ranks_for(algo, shape, tier)[:1 if tier == "quick" else 2] if heavy else ranks_for(algo, shape, tier)):
                yield {"algo": algo, "variant": var[0], "cfg": var[1], "family": group["family"], "shape": list(shape), "rank": rank,
                       "K": 1 if heavy else K_for(algo, var[0], tier), "seed": seed, "heavy": heavy}

    def run_seam(self, case, ctx):
        """One accepted line-search step with factors that move towards negative values: the step that is kept must be
        non-negative on the declared modes (0 and 2; mode 1 cannot be constrained)."""
        import tensorly as tl
        from vmc import values as V

        try:
            from tensorly.decomposition._parafac2 import _BroThesisLineSearch as LS
        except Exception:
            ctx.count("guarded_out:internal-seam-unavailable")
            return
        I, J, K = case["shape"]
        R, seed = case["rank"], case["seed"]
        nn = list(case["cfg"]["nn_modes"])
        X = itm.parafac2_model_tensor(I, J, K, R, seed + 3)
        A = V.generic((I, R), seed + 1, signed=False)
        B = V.generic((R, R), seed + 2) + np.eye(R)
        C = V.generic((K, R), seed + 3, signed=False)
        last = [A, B, C]
        cur = [A - 0.5 * V.generic((I, R), seed + 5, signed=False), B, C - 0.5 * V.generic((K, R), seed + 6, signed=False)]
        cur = [np.clip(f, 0, None) if k in (0, 2) else f for k, f in enumerate(cur)]  # the ALS iterate itself is feasible
        projs = [np.linalg.qr(V.generic((J, R), seed + 20 + i))[0] for i in range(I)]
        ctx.states += 1
        for it in (6, 10, 20):
            try:
                ls = LS(float(np.linalg.norm(X)), "truncated_svd", nn_modes=nn)
                f2, p2, err = ls.line_step(it, [tl.tensor(x) for x in X], [tl.tensor(f) for f in last], tl.ones(R), [tl.tensor(f) for f in cur],
                                           [tl.tensor(p) for p in projs], float("inf"))
            except Exception as e:
                ctx.count(f"guarded_out:internal-seam-raises:{type(e).__name__}")
                return
            ctx.transitions += 1
            ctx.traces += 1
            ctx.nontriv([case, it])
            accepted = not all(np.array_equal(np.asarray(a), b) for a, b in zip(f2, cur))
            ctx.outcome(f"parafac2-linesearch-seam:{'accepted' if accepted else 'rejected'}")
            for m in nn:
                a = np.asarray(f2[m])
                if not np.all(np.isfinite(a)) or a.min() < 0:
                    ctx.violation(f"parafac2-linesearch-seam/negative-factor-{'ABC'[m]}/accepted-step",
                                  f"{case}: line_step(iteration={it}) with nn_modes={nn} keeps a step whose mode-{m} factor has min {a.min()}")
                    return

    def run_case(self, case, ctx):
        if case["algo"] == "parafac2-linesearch-seam":
            return self.run_seam(case, ctx)
        algo, shape, rank, seed = case["algo"], tuple(case["shape"]), case["rank"], case["seed"]
        ndim = len(shape)
        X = itm.data_tensor(case["family"], shape, rank if isinstance(rank, int) else 2, seed)
        cfg = {}
        for k, v in case["cfg"].items():
            if v == "MASK":
                v = itm.mask_tensor(shape, seed)
            elif isinstance(v, str) and v.startswith("PERMODE:"):
                v = [float(v.split(":")[1])] * ndim
            elif v == "LASTONLY":
                v = [ndim - 1]
            elif v == "ALLLIST":
                v = list(range(ndim))
            elif isinstance(v, str) and v.startswith("MODES:"):
                v = sorted({(ndim - 1 if t == "LAST" else int(t)) for t in v.split(":")[1].split(",")})
            elif isinstance(v, str) and v.startswith("DICT:"):
                v = {(ndim - 1 if t == "LAST" else (-1 if t == "NEG1" else int(t))): True for t in v.split(":")[1].split(",")}
            elif isinstance(v, dict):
                v = {int(a): b for a, b in v.items()}
            cfg[k] = v
        if cfg.get("init") in ("user", "user-zeros"):
            w, fs = itm.cp_init(shape, rank, seed, weights="none", nonneg=True)
            if cfg["init"] == "user-zeros":
                fs = [f.copy() for f in fs]
                for f in fs:
                    f[0, 0] = 0.0
                fs[-1][:, -1] = 0.0  # a whole zero column
            cfg["init"] = (w, fs)
        modes, wdecl, cdecl = declared_modes(algo, cfg, ndim)
        tag = f"{algo}/{case['variant']}"

        def go(n_iter, tol=None):
            c = {}
            for k, v in cfg.items():
                if k == "init" and isinstance(v, tuple):
                    v = (None if v[0] is None else v[0].copy(), [f.copy() for f in v[1]])
                elif isinstance(v, list):
                    v = list(v)
                elif isinstance(v, dict):
                    v = dict(v)
                c[k] = v
            np.random.seed(20260927)
            try:
                return itm.run(algo, X, rank, c, n_iter, tol), None
            except Exception as e:
                return None, f"{type(e).__name__}:{str(e)[:50]}"

        runs = []
        for k in range(0, case["K"] + 1):
            r, exc = go(k)
            if r is None:
                ctx.count(f"guarded_out:raises:{exc}")
                ctx.outcome(f"{algo}:raised")
                continue
            runs.append((k, "cap", r))
        if not case.get("heavy"):
            r, exc = go(40, 1e-2)
            if r is not None:
                runs.append((40, "tol1e-2", r))
        for (k, how, r) in runs:
            ctx.states += 1
            ctx.traces += 1
            ctx.transitions += k if how == "cap" else (len(r.errors) if r.errors else 0)
            d = r.decomp
            arrays = []
            if r.kind == "cp":
                for m in modes:
                    arrays.append((f"factor-mode{m if m < ndim - 1 else 'LAST'}", np.asarray(d[1][m])))
                if wdecl and d[0] is not None:
                    arrays.append(("weights", np.asarray(d[0])))
            elif r.kind == "tucker":
                for m in modes:
                    arrays.append((f"factor", np.asarray(d[1][m])))
                arrays.append(("core", np.asarray(d[0])))
            elif r.kind == "parafac2":
                for m in modes:
                    arrays.append((f"factor-{'A' if m == 0 else 'C'}", np.asarray(d[1][m])))
            bad = None
            for name, a in arrays:
                if not np.all(np.isfinite(a)):
                    bad = (name, "non-finite", a)
                    break
                if a.size and a.min() < 0:
                    bad = (name, "negative", a)
                    break
            stage = "init" if k == 0 else ("convergence-exit" if how != "cap" else "iterate")
            ctx.outcome(f"{algo}:{stage}:{'ok' if bad is None else bad[1]}")
            ctx.nontriv([case, k, how])
            if bad is not None:
                name = bad[0].split("-mode")[0]
                ctx.violation(f"{tag}/{bad[1]}-{name}/{stage}",
                              f"{case}: n_iter_max={k} ({how}): {bad[0]} has {bad[1]} entries: min={np.nanmin(bad[2]) if bad[2].size else None}\n{bad[2]}")
        if not ctx.samples:
            ctx.sample({"case": {k: v for k, v in case.items() if k != "cfg"}, "declared_modes": modes, "states": len(runs)})


CHECK = C10()
