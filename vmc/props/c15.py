"""C15 — library calls never modify caller-owned inputs.

Lattice (complete): catalogue entry point x option set (spec) x tensor size x argument kind, where argument kind =
memory layout of every array leaf {fresh C-ordered, transposed view, strided view into a larger buffer, read-only
(one parameter at a time)} x container kind of every factorised-tensor argument {tuple, list, wrapper object}.
Exits: normal return and exceptions (forced by invalid late arguments / raising callbacks, or simply raised by the
library) are both compared.

Oracle: deep snapshot of every argument before the call (vmc/ref/c15_snapshot.py: array bytes + dtype + shape +
strides + the buffer a view lives in; list / dict / wrapper slots by identity and by value) against the same objects
after the call.  A difference is a violation unless it lies under a parameter that is a documented in-place
exemption of that entry (copy=False mode products, the NNLS start matrix, index_update's tensor, and the
self-modifying ``normalize`` methods).  With read-only arrays a "... is read-only" ValueError coming out of the
library is itself the violation (control: the same call on writeable arrays does not raise it).

Deliberately NOT demanded: identity of slots when the value is bit-identical (a slot rebound to an equal value
compares equal to a deep copy: counted, not reported); anything about results; that a call succeeds.
"""
import contextlib
import io
import warnings

import numpy as np

from vmc.runner import Check
from vmc.ref import c15_snapshot as S

LAYOUTS = ("fresh", "tview", "strided")

# static cost weights (ms per call, rough) used ONLY to order groups so that the pool stays busy
_HEAVY = (("hals", 30.0), ("HALS", 30.0), ("onstrained", 12.0), ("arafac2", 10.0), ("robust", 4.0), ("PLSR", 4.0), ("Regressor", 4.0),
          ("tensor_ring_als", 3.0), ("TensorRingALS", 3.0), ("cross", 4.0))


def _weight(name):
    for k, w in _HEAVY:
        if k in name:
            return w
    return 1.0


def _catalogue():
    from vmc.ref.c15_catalogue import catalogue

    return catalogue()


def _sizes(spec, tier):
    return spec.sizes if tier == "thorough" else tuple(z for z in spec.sizes if z < 3)


def _offsets(tier, seed):
    return (seed, seed + 5, seed + 11) if tier == "thorough" else (seed,)


def _kinds_for(spec, off, sz, tier="quick"):
    """All (layout, container) argument kinds of one spec: every layout incl. read-only per array-bearing parameter,
    crossed with every container kind the factorised-tensor arguments admit."""
    _, params = spec.build(off, sz)
    decs = S.find_decs(list(params.values()))
    conts = []
    for d in decs:
        for c in d.containers():
            if c not in conts:
                conts.append(c)
    conts = conts or [None]
    layouts = list(LAYOUTS) + [f"readonly:{p}" for p, v in params.items() if S.has_arrays(v)] + ["array-hyperparameters"]
    if tier == "thorough":
        layouts += ["negstride"]
        if sum(1 for v in params.values() if S.has_arrays(v)) > 1:
            layouts += ["readonly:*"]
    return [(lay, c) for lay in layouts for c in conts]


def prepare(spec, off, sz, layout, container):
    """Build the call: returns (fn, params) with the requested argument kind applied."""
    fn, params = spec.build(off, sz)
    ro = None
    if layout == "array-hyperparameters":
        # argument kind: every real-valued hyper-parameter is handed over as a caller-owned array (0-d array for a scalar, 1-d array for
        # a per-mode list) - including those the spec leaves at their float default, which are then passed explicitly
        layout = "fresh"
        params = _array_hyperparameters(fn, params)
    if layout.startswith("readonly:"):
        ro = layout.split(":", 1)[1]
        lay = "fresh"
    else:
        lay = layout
    roles = {k: v.kind for k, v in params.items() if isinstance(v, S.Dec)}
    params = {k: S.map_arrays(v, lambda a: S.relayout(a, lay)) for k, v in params.items()}
    params = {k: S.materialise(v, container or "tuple") for k, v in params.items()}
    if ro == "*":
        for v in params.values():
            S.set_readonly(v)
    elif ro is not None:
        S.set_readonly(params[ro])
    prepare.roles = roles  # kinds of the factorised-tensor parameters of the call just prepared (used to name paths)
    return fn, params


def _array_hyperparameters(fn, params):
    import inspect

    def conv(v):
        if isinstance(v, float):
            return np.array(v)
        if isinstance(v, (list, tuple)) and v and all(isinstance(x, (int, float)) and not isinstance(x, bool) for x in v) and any(isinstance(x, float) for x in v):
            return np.array(v, dtype=float)
        return v

    out = {k: conv(v) for k, v in params.items()}
    try:
        if getattr(fn, "__module__", "").startswith("tensorly"):
            for name, prm in inspect.signature(fn).parameters.items():
                if name not in out and isinstance(prm.default, float) and prm.kind in (prm.POSITIONAL_OR_KEYWORD, prm.KEYWORD_ONLY):
                    out[name] = np.array(prm.default)
    except (TypeError, ValueError):
        pass
    return out


_ROLE_NAMES = {"cp": ("weights", "factors"), "tucker": ("core", "factors"), "parafac2": ("weights", "factors", "projections")}


def role_path(path, roles, params):
    """Name the components of a factorised-tensor argument by role, whatever container kind it was passed in:
    init[1][2] (tuple / list) and init.factors[2] (wrapper) both become init.factors[2]."""
    kind = roles.get(path[0])
    if kind is None or len(path) < 2:
        return path
    if kind in _ROLE_NAMES:
        if isinstance(path[1], int) and path[1] < len(_ROLE_NAMES[kind]):
            return [path[0], _ROLE_NAMES[kind][path[1]]] + list(path[2:])
        return path
    if isinstance(params[path[0]], (list, tuple)):  # tt / tr / tt-matrix passed as a bare sequence of cores
        return [path[0], "factors"] + list(path[1:])
    return path


def execute(spec, fn, params):
    """Run the real call. Returns (status, exception or None)."""
    import tensorly as tl

    switched = False
    try:
        if spec.tenalg:
            tl.tenalg.set_backend(spec.tenalg)
            switched = True
        with warnings.catch_warnings(), contextlib.redirect_stdout(io.StringIO()), np.errstate(all="ignore"):
            warnings.simplefilter("ignore")
            try:
                fn(**params)
                return "returned", None
            except Exception as e:  # the library's exceptions are outcomes, not harness errors
                return "raised", e
    finally:
        if switched:
            tl.tenalg.set_backend("core")


def diff_params(snaps):
    diffs, counters = [], {}
    for name, node in snaps.items():
        S.compare(node, [name], diffs, counters)
    return diffs, counters


def _entered_library(e):
    """True iff some frame of the exception's traceback is tensorly code (the call got past python's argument binding)."""
    tb = e.__traceback__
    while tb is not None:
        if "/tensorly/" in tb.tb_frame.f_code.co_filename.replace("\\", "/"):
            return True
        tb = tb.tb_next
    return False


def _is_readonly_error(e):
    return isinstance(e, ValueError) and "read-only" in str(e)


class C15(Check):
    pid = "C15"
    level = "exploration"
    design_ref = "DESIGN.md §4 C15"
    rule = ("complete product: catalogue entry point (vmc/ref/c15_catalogue.py) x option set x tensor size (quick: declared sizes among (3,4,2), (2,3,2,2), (4,3); "
            "thorough: additionally (5,4,3), and 3 value-table offsets) x array layout {fresh, transposed view, strided view, read-only one "
            "array-bearing parameter at a time} x container kind {tuple, list, wrapper} of factorised-tensor arguments; a case is "
            "(entry, option set, size, offset, layout, container); it is non-trivial iff the real call was executed (returned or raised "
            "from inside the library, not rejected for its signature) with at least one mutable caller-owned object (array with >= 2 "
            "entries, list, dict or wrapper) in the snapshot")
    assumptions = ["numpy ndarray.tobytes / dtype / shape / strides / flags and python `is` are trusted",
                   "exact comparison (bit for bit); no tolerance is used anywhere in this check",
                   "exemptions by entry point + parameter name only: copy=False mode products (factorised tensor argument), hals_nnls V, "
                   "index_update tensor, CPTensor.normalize / TuckerTensor.normalize self (documented self-modifying methods)",
                   "a slot rebound to a bit-identical value is not a difference (the statement demands equality with a deep copy)"]

    # ------------------------------------------------------------------------------------------
    def groups(self, tier, seed):
        cat = _catalogue()
        gs = []
        for name, e in cat.items():
            n = 0
            for spec in e.specs:
                for sz in _sizes(spec, tier):
                    n += len(_kinds_for(spec, seed, sz, tier)) * len(_offsets(tier, seed))
            gs.append(({"entry": name, "family": e.family}, n * _weight(name)))
        gs.sort(key=lambda t: -t[1])
        out = [g for g, _ in gs]
        out[0]["report_completeness"] = True
        return out

    def cases(self, group, tier, seed):
        e = _catalogue()[group["entry"]]
        first = bool(group.get("report_completeness"))
        for off in _offsets(tier, seed):
            for si, spec in enumerate(e.specs):
                for sz in _sizes(spec, tier):
                    for layout, container in _kinds_for(spec, off, sz, tier):
                        case = {"entry": e.name, "spec": si, "label": spec.label, "sz": sz, "off": off, "layout": layout, "container": container}
                        if first:
                            case["report_completeness"] = True
                            first = False
                        yield case

    # ------------------------------------------------------------------------------------------
    def run_case(self, case, ctx):
        e = _catalogue()[case["entry"]]
        spec = e.specs[case["spec"]]
        assert spec.label == case["label"], "catalogue changed under a stored case"
        if case.get("report_completeness"):
            self._report_completeness(ctx)
        layout, container = case["layout"], case["container"]
        fn, params = prepare(spec, case["off"], case["sz"], layout, container)
        roles = dict(prepare.roles)
        snaps = {k: S.snapshot(v) for k, v in params.items()}
        mutable = any(self._has_mutable(n) for n in snaps.values())
        status, exc = execute(spec, fn, params)
        ctx.count("calls")
        ctx.count(f"family:{e.family}")
        site = e.name + (f"@{spec.tenalg}" if spec.tenalg else "")
        tag = f"{site}[{spec.label}] size={case['sz']} off={case['off']} layout={layout} container={container}"

        if status == "raised" and isinstance(exc, TypeError) and not _entered_library(exc):
            ctx.count("guarded_out:call-rejected-by-signature")
            ctx.outcome("rejected-by-signature")
            return
        if mutable:
            ctx.nontriv([case["entry"], case["label"], case["sz"], case["off"], layout, container])

        diffs, counters = diff_params(snaps)
        diffs = [(role_path(p, roles, params), a, d) for p, a, d in diffs]
        for k, v in counters.items():
            ctx.count(k, v)
        viol, exempt_hits = [], 0
        for path, aspect, detail in diffs:
            if path[0] in spec.exempt:
                exempt_hits += 1
                continue
            if aspect == "array-flags-changed":
                continue
            viol.append((path, aspect, detail))
        if exempt_hits:
            ctx.count("exempt_parameter_changed(documented in-place)", exempt_hits)

        ro_param = layout.split(":", 1)[1] if layout.startswith("readonly:") else None
        exit_cls = "returned" if status == "returned" else f"raised:{type(exc).__name__}"
        if status == "raised":
            ctx.count(f"exit:raised:{type(exc).__name__}")
        else:
            ctx.count("exit:returned")

        for path, aspect, detail in viol:
            cls = spec.classes.get(path[0], "any")
            sig = f"{site}/{S.generic_path(path)}:{aspect}/{cls}"
            ctx.violation(sig, f"{tag}: argument {S.concrete_path(path)} {aspect} after the call {exit_cls}"
                               f"{' (' + str(exc)[:120] + ')' if exc is not None else ''}: {detail}")

        if ro_param is not None and status == "raised" and _is_readonly_error(exc):
            self._readonly_case(case, spec, site, ro_param, exc, tag, ctx)
            ctx.outcome("read-only-write-attempt" + ("/exempt" if ro_param in spec.exempt else ""))
        elif viol:
            ctx.outcome(f"{'returned' if status == 'returned' else 'raised'}/argument-changed")
        elif exempt_hits:
            ctx.outcome(f"{'returned' if status == 'returned' else 'raised'}/only-exempt-parameter-changed")
        else:
            ctx.outcome(f"{'returned' if status == 'returned' else 'raised'}/arguments-unchanged")
        if len(ctx.samples) < 2 and layout == "tview" and case["spec"] == min(2, len(e.specs) - 1):
            ctx.sample({"case": case, "params": {k: S._describe(v) if not hasattr(v, "__dict__") else type(v).__name__ for k, v in params.items()},
                        "exit": exit_cls, "differences": [f"{S.concrete_path(p)}:{a}" for p, a, _ in diffs]})

    # ------------------------------------------------------------------------------------------
    def _readonly_case(self, case, spec, site, ro_param, exc, tag, ctx):
        """The library raised '... read-only' while parameter `ro_param` was read-only."""
        # control: identical call on writeable arrays
        fn, params = prepare(spec, case["off"], case["sz"], "fresh", case["container"])
        roles = dict(prepare.roles)
        snaps = {k: S.snapshot(v) for k, v in params.items()}
        status, exc2 = execute(spec, fn, params)
        if status == "raised" and _is_readonly_error(exc2):
            ctx.count("guarded_out:library-internal-read-only-array")
            return
        if ro_param in spec.exempt:
            ctx.count("exempt_parameter_write_attempt(documented in-place)")
            return
        diffs, _ = diff_params(snaps)
        diffs = [(role_path(p, roles, params), a, d) for p, a, d in diffs]
        wr = [(p, a, d) for p, a, d in diffs if a in ("array-written", "array-buffer-written-outside-view") and (ro_param == "*" or p[0] == ro_param)]
        written = [t for t in wr if t[0][0] not in spec.exempt]
        if ro_param == "*" and not written and any(t[0][0] in spec.exempt for t in wr):
            ctx.count("exempt_parameter_write_attempt(documented in-place)")
            return
        if written:
            # same defect as seen through the byte comparison: same signature
            p, a, d = written[0]
            ctx.violation(f"{site}/{S.generic_path(p)}:{a}/{spec.classes.get(p[0], 'any')}",
                          f"{tag}: the library tried to write into read-only caller memory ({type(exc).__name__}: {exc}); on writeable "
                          f"arrays the same call changes {S.concrete_path(p)}: {d}")
        else:
            who = "any-argument" if ro_param == "*" else ro_param
            ctx.violation(f"{site}/{who}:write-attempt-on-read-only-array/{spec.classes.get(ro_param, 'any')}",
                          f"{tag}: the library tried to write into read-only caller memory reachable from argument '{ro_param}' "
                          f"({type(exc).__name__}: {exc}); the same call on writeable arrays does not raise and leaves the bytes of that argument unchanged")

    @staticmethod
    def _has_mutable(node, seen=None):
        seen = set() if seen is None else seen
        if node["id"] in seen:
            return False
        seen.add(node["id"])
        t = node["t"]
        if t == "arr":
            return node["ref"].size >= 2
        if t == "seq":
            return node["type"] is list or any(C15._has_mutable(n, seen) for n in node["items"])
        if t in ("map", "obj"):
            return True
        return False

    def _report_completeness(self, ctx):
        from vmc.ref.c15_catalogue import completeness

        cat, uncat, oos = completeness()
        ctx.count("public_callables_introspected", len(cat) + len(uncat) + len(oos))
        ctx.count("public_callables_catalogued", len(cat))
        ctx.count("public_callables_out_of_scope(no caller-owned array/list argument)", len(oos))
        ctx.count("public_callables_uncatalogued", len(uncat))
        for q in uncat:
            ctx.count(f"uncatalogued:{q}")

    def extra_coverage(self, merged):
        from vmc.ref.c15_catalogue import completeness, catalogue

        cat, uncat, oos = completeness()
        c = catalogue()
        return {"catalogue": {"entries": len(c), "option_sets": sum(len(e.specs) for e in c.values()),
                              "catalogued_public_callables": len(cat), "uncatalogued_public_callables": uncat,
                              "out_of_scope_public_callables": len(oos)},
                "tolerance_ladder_entry": "none (exact, bit-for-bit)"}


CHECK = C15()
