"""C13 — NNLS solvers return KKT-optimal non-negative solutions.

Bounded space (complete, no sampling): every *distinct Gram matrix* G = U'U of the integer designs U of a
family (solvers only ever see U'U and U'M, so designs with the same Gram matrix are the same input), a
complete right-hand-side set per design, every penalty pair, every solver, every start of the start set.

Oracle (per right-hand-side column, independent of the library): x finite, x >= 0, KKT conditions of
    min_{x>=0} 1/2 x'Gx - c'x + l1*sum(x) + l2*x'x
with the gradient recomputed by the harness, and the objective equal to the exact (Fraction) brute-force
optimum over all 2^n supports (vmc/ref/c13_nnls.py).  ADMM with n_const=None: x G = UtM and x equal to the
exact least-squares solution.
"""
import contextlib
import io
import itertools

import numpy as np

from vmc.ref import c13_nnls as R
from vmc.runner import Check, HarnessError

A3 = (-1, 0, 1)
A4 = (-1, 0, 1, 2)
COND_MAX = 50.0
PENS = [(None, None), (0.1, None), (1, None), (None, 0.1), (None, 1), (0.1, 0.1), (0.1, 1), (1, 0.1), (1, 1)]
KKT_TOL = 1e-6      # ladder entry "iterative solvers run to convergence"
OBJ_TOL = 1e-9      # objective gap relative to the problem scale
LS_TOL = 1e-9       # ADMM unconstrained LS (LAPACK solve, cond <= 50)
FISTA_EPS = 1e-8    # documented default floor of fista (x >= epsilon)
FISTA_ITERS = 3000
FISTA_RERUN_ITERS = 1500  # with the stopping rule disabled <= 600 iterations reach KKT 1e-6 on the whole lattice
HALS_SWEEP_CAP = 20000
NGROUPS = {"quick": 64, "thorough": 160}


# ----------------------------------------------------------------------------------------- enumeration
def _gram(U):
    m, n = len(U), len(U[0])
    return [[sum(U[r][i] * U[r][j] for r in range(m)) for j in range(n)] for i in range(n)]


def _utm(U, B):
    m, n, k = len(U), len(U[0]), len(B[0])
    return [[sum(U[r][i] * B[r][j] for r in range(m)) for j in range(k)] for i in range(n)]


def dense_designs(m, n, alpha):
    """One design per distinct Gram matrix: the lexicographically first U in alpha^(m x n) with that U'U."""
    A = np.array(list(itertools.product(alpha, repeat=m * n)), dtype=np.int64).reshape(-1, m, n)
    G = np.einsum("kij,kil->kjl", A, A).reshape(len(A), n * n)
    _, first = np.unique(G, axis=0, return_index=True)
    return [tuple(tuple(int(v) for v in row) for row in A[i]) for i in sorted(first.tolist())]


def toeplitz_designs(n, alpha):
    """n x n tridiagonal Toeplitz designs (sub, diag, super) in alpha^3, one per distinct Gram matrix."""
    out, seen = [], set()
    for a, d, c in itertools.product(alpha, repeat=3):
        U = tuple(tuple(d if i == j else (a if i == j + 1 else (c if j == i + 1 else 0)) for j in range(n)) for i in range(n))
        key = tuple(map(tuple, _gram(U)))
        if key not in seen:
            seen.add(key)
            out.append(U)
    return out


def orientation_classes(designs):
    """Group designs whose Gram matrices differ only by a simultaneous permutation of the unknowns."""
    classes = {}
    for U in designs:
        G = _gram(U)
        n = len(G)
        key = min(tuple(G[p[i]][p[j]] for i in range(n) for j in range(n)) for p in itertools.permutations(range(n)))
        classes.setdefault(key, []).append(U)
    return [classes[k] for k in sorted(classes)]


def guard_reason(G):
    """Independent conditioning guard: None if well conditioned."""
    if R.det_exact(G) == 0:
        return "singular"
    ev = np.linalg.eigvalsh(np.array(G, dtype=float))
    if ev[0] <= 0 or ev[-1] / ev[0] > COND_MAX:
        return "cond>50"
    return None


def two_piece(length, alpha):
    """All vectors over alpha that are constant or consist of two constant pieces."""
    out = []
    for a in alpha:
        out.append((a,) * length)
    for j in range(1, length):
        for a in alpha:
            for b in alpha:
                if a != b:
                    out.append((a,) * j + (b,) * (length - j))
    return out


def rhs_list(U, full):
    """Right-hand sides as (label, b) — inconsistent b in {-1,2}^m, consistent b = U x0 with x0 in {0,1,2}^n —
    deduplicated by U'b (what the solvers see)."""
    m, n = len(U), len(U[0])
    if full:
        bs = list(itertools.product((-1, 2), repeat=m))
        x0s = list(itertools.product((0, 1, 2), repeat=n))
    else:
        bs = two_piece(m, (-1, 2))
        x0s = two_piece(n, (0, 1, 2))
    out, seen = [], set()
    for b in bs:
        out.append(("b=" + ",".join(map(str, b)), tuple(b)))
    for x0 in x0s:
        out.append(("x0=" + ",".join(map(str, x0)), tuple(sum(U[r][j] * x0[j] for j in range(n)) for r in range(m))))
    ded = []
    for lab, b in out:
        key = tuple(sum(U[r][i] * b[r] for r in range(m)) for i in range(n))
        if key not in seen:
            seen.add(key)
            ded.append((lab, b))
    return ded


def families(tier):
    fams = [
        dict(name="dense3", m=1, n=1, alpha=A3, orient="all", full=True),
        dict(name="dense3", m=2, n=1, alpha=A3, orient="all", full=True),
        dict(name="dense3", m=2, n=2, alpha=A3, orient="all", full=True),
        dict(name="dense3", m=3, n=2, alpha=A3, orient="all", full=True),
    ]
    if tier == "quick":
        fams.append(dict(name="dense3", m=3, n=3, alpha=A3, orient="rep", full=True))
        # the direct solvers (active set, ADMM) cost almost nothing: a wider design alphabet is affordable for them
        fams += [
            dict(name="dense4", m=2, n=2, alpha=A4, orient="all", full=True, minus=A3, direct=True),
            dict(name="dense4", m=3, n=2, alpha=A4, orient="all", full=True, minus=A3, direct=True),
            dict(name="toeplitz", m=4, n=4, alpha=A4, orient="all", full=False, direct=True),
            dict(name="toeplitz", m=5, n=5, alpha=A4, orient="all", full=False, direct=True),
        ]
    else:
        fams += [
            dict(name="dense3", m=3, n=3, alpha=A3, orient="all", full=True),
            dict(name="dense3", m=4, n=2, alpha=A3, orient="all", full=True),
            dict(name="dense4", m=2, n=2, alpha=A4, orient="all", full=True, minus=A3),
            dict(name="dense4", m=3, n=2, alpha=A4, orient="all", full=True, minus=A3),
            dict(name="toeplitz", m=4, n=4, alpha=A4, orient="all", full=False),
            dict(name="toeplitz", m=5, n=5, alpha=A4, orient="all", full=False),
            dict(name="toeplitz", m=6, n=6, alpha=A4, orient="all", full=False),
            dict(name="toeplitz", m=8, n=8, alpha=A3, orient="all", full=False),
        ]
    return fams


_CASES = {}


def all_cases(tier, seed):
    """The complete, deterministic case list of a tier (cached; inherited by forked workers)."""
    key = (tier, seed)
    if key in _CASES:
        return _CASES[key]
    cases = []
    for fam in families(tier):
        m, n = fam["m"], fam["n"]
        if fam["name"] == "toeplitz":
            designs = toeplitz_designs(n, fam["alpha"])
        else:
            designs = dense_designs(m, n, fam["alpha"])
            if fam.get("minus"):
                base = {tuple(map(tuple, _gram(U))) for U in dense_designs(m, n, fam["minus"])}
                designs = [U for U in designs if tuple(map(tuple, _gram(U))) not in base]
        if fam["orient"] == "rep":  # one orientation per class; VERIF_SEED rotates which one
            designs = [cls[seed % len(cls)] for cls in orientation_classes(designs)]
        if fam.get("direct"):
            ks = ()
        elif (tier == "thorough" and n <= 2) or (fam["name"] == "toeplitz" and n == 4):
            ks = (2, 3, 5)
        elif tier == "thorough" and (m, n) == (3, 3):
            ks = (3,)
        else:
            ks = (2, 3)
        for U in designs:
            fid = f"{fam['name']}:{m}x{n}"
            if guard_reason(_gram(U)) is not None:
                cases.append(dict(plan="guard", fam=fid, U=U, B=[[0]] * m, rhs=["-"], cost=0))
                continue
            rl = rhs_list(U, fam["full"])
            rot = seed % len(rl)
            rl = rl[rot:] + rl[:rot]  # VERIF_SEED rotates the RHS table (changes which columns are stacked)
            starts = "all01" if n <= 3 else "structured"
            for lab, b in rl:
                if fam.get("direct"):
                    cases.append(dict(plan="direct", fam=fid, U=U, B=[[v] for v in b], rhs=[lab], starts=starts, cost=n))
                else:
                    cases.append(dict(plan="single", fam=fid, U=U, B=[[v] for v in b], rhs=[lab], starts=starts, cost=10 * n + 1))
            for k in ks:
                if len(rl) < k:
                    continue
                for i in range(0, len(rl), k):
                    cols = [rl[(i + j) % len(rl)] for j in range(k)]
                    B = [[c[1][r] for c in cols] for r in range(m)]
                    cases.append(dict(plan="multi", fam=fid, U=U, B=B, rhs=[c[0] for c in cols], starts="pair", cost=4 * n))
    order = sorted(range(len(cases)), key=lambda i: (cases[i]["cost"], i))  # simplest first, stable
    out = []
    for i in order:
        c = dict(cases[i])
        c.pop("cost")
        c["U"] = [list(r) for r in c["U"]]
        out.append(c)
    _CASES[key] = out
    return out


def start_vectors(n, mode):
    """(label, vector or None); None = cold start."""
    if mode == "all01":
        vs = list(itertools.product((0, 1), repeat=n))
    elif mode == "structured":
        vs = [(0,) * n, (1,) * n]
        vs += [tuple(1 if i == j else 0 for i in range(n)) for j in range(n)]
        vs += [tuple(0 if i == j else 1 for i in range(n)) for j in range(n)]
        vs = list(dict.fromkeys(vs))
    else:  # "pair"
        vs = [(1,) * n]
    return [("cold", None)] + [("warm=" + "".join(map(str, v)), v) for v in vs]


# ----------------------------------------------------------------------------------------- oracle
def pen_class(l1, l2):
    return {(False, False): "plain", (True, False): "l1", (False, True): "ridge", (True, True): "l1+ridge"}[(l1 is not None, l2 is not None)]


class SweepWatch:
    """hals_nnls callback: harness-side convergence detection.

    The sweep map of HALS is deterministic, so once a sweep changes V by no more than rounding noise
    (<= 1e-14 relative) the remaining sweeps of `exact=True` (50 000 of them) cannot move it; a non-finite V
    stays non-finite.  Returning True there yields the same result as running the loop to its end."""

    def __init__(self, blowup=float("inf")):
        self.blowup = blowup
        self.prev = None
        self.n = 0
        self.why = "library"

    def __call__(self, V, err):
        self.n += 1
        V = np.asarray(V)
        if not np.all(np.isfinite(V)):
            self.why = "non-finite"
            return True
        if self.prev is not None and np.max(np.abs(V - self.prev)) <= 1e-14 * max(1.0, float(np.max(np.abs(V)))):
            self.why = "fixed-point"
            return True
        self.prev = V.copy()
        if float(np.max(np.abs(V))) > self.blowup:  # coordinate descent never leaves the start's sublevel set
            self.why = "diverged"
            return True
        if self.n >= HALS_SWEEP_CAP:
            self.why = "cap"
            return True
        return None


def judge(G, C, X, l1, l2, refs, floor):
    """Return (aspect, text) of the first failed requirement, or (None, None).  G (n,n), C (n,k), X (n,k) float."""
    X = np.asarray(X, dtype=float)
    if X.shape != C.shape:
        return "shape", f"returned shape {X.shape}, expected {C.shape}"
    if not np.all(np.isfinite(X)):
        return "non-finite", f"x={X.T.tolist()}"
    if np.any(X < 0):
        return "negative", f"x={X.T.tolist()}"
    a1 = 0.0 if l1 is None else float(l1)
    a2 = 0.0 if l2 is None else float(l2)
    n, k = C.shape
    for j in range(k):
        x = X[:, j]
        c = C[:, j]
        g = G @ x - c + a1 + 2 * a2 * x
        scale = max(1.0, float(np.max(np.abs(c))), float(np.max(np.abs(G))) * float(np.max(np.abs(x))))
        tau = KKT_TOL * scale
        ref = refs[j]
        for i in range(n):
            if x[i] <= tau:
                if g[i] < -tau:
                    return "kkt", (f"dual feasibility: column {j} x[{i}]={x[i]:.3e} is at the bound but gradient g[{i}]={g[i]:.6g} < 0; "
                                   f"x={x.tolist()} g={g.tolist()} reference x*={[float(v) for v in ref['x']]}")
            elif abs(g[i]) > tau:
                return "kkt", (f"stationarity: column {j} x[{i}]={x[i]:.6g} > 0 but gradient g[{i}]={g[i]:.6g} != 0 (tol {tau:.1e}); "
                               f"x={x.tolist()} g={g.tolist()} reference x*={[float(v) for v in ref['x']]}")
        f = 0.5 * float(x @ G @ x) - float(c @ x) + a1 * float(x.sum()) + a2 * float(x @ x)
        fstar = float(ref["f"])
        fscale = max(1.0, abs(fstar), float(np.max(np.abs(c))) ** 2)
        # a documented floor x >= eps moves the optimum by at most eps * sum(g*_i) to first order
        allow = OBJ_TOL * fscale + floor * (sum(float(v) for v in ref["g"]) + n * n * float(np.max(np.abs(G))) + 2 * a2 * n)
        if abs(f - fstar) > allow:
            return "objective", f"column {j}: f(x)={f!r} but brute-force optimum f*={fstar!r}; x={x.tolist()} x*={[float(v) for v in ref['x']]}"
    return None, None


class C13(Check):
    pid = "C13"
    level = "exploration"
    design_ref = "DESIGN.md §4 C13"
    rule = ("complete product per tier: one integer design U per DISTINCT Gram matrix U'U (solvers only see U'U, U'M) of "
            "quick: {-1,0,1}^(m x n), (m,n) in {(1,1),(2,1),(2,2),(3,2)} and (3,3) with one orientation per class of Gram matrices "
            "equal up to a permutation of the unknowns (VERIF_SEED rotates the representative), plus - for the cheap direct solvers "
            "active_set_nnls/admm only, single columns - {-1,0,1,2}^(2x2,3x2) and the Toeplitz designs n = 4, 5; thorough: all orientations of "
            "(3,3), (4,2), {-1,0,1,2}^(2x2,3x2), tridiagonal-Toeplitz n x n designs (sub,diag,super) in {-1,0,1,2}^3 for n in "
            "{4,5,6,8}; guard cond(U'U) <= 50 recomputed by the harness (guarded-out Gram matrices are counted, one case each); "
            "x right-hand sides b in {-1,2}^m and b = U x0, x0 in {0,1,2}^n (two-piece-constant vectors for n >= 4), distinct by U'b, "
            "as single columns and stacked 2, 3 at a time (thorough: 3x3 only 3; n <= 2 and Toeplitz n = 4 also 5); x 9 penalty pairs (sparsity, ridge) in {None,0.1,1}^2; "
            "x solvers hals_nnls(exact=True), hals_nnls(user n_iter_max/tol), fista(tol=1e-12), active_set_nnls, admm(n_const=None); "
            "x starts: cold + every warm start in {0,1}^n (n<=3; zeros/ones/e_i/1-e_i for n>=4) for HALS-exact and active-set, "
            "{cold, ones} + (unpenalised: all starts) for FISTA and {cold, ones} for the user-tolerance HALS mode, {cold, ones} for stacked columns. A solve is non-trivial iff the exact "
            "reference solution of at least one column has both a zero and a positive entry (active and inactive constraints).")
    assumptions = [
        "reference optimum: exact Fraction brute force over all 2^n supports (vmc/ref/c13_nnls.py), self-checked by exact KKT",
        "gradient G x - c + l1 + 2 l2 x recomputed by the harness with numpy float64 matmul",
        "tolerances (DESIGN §1.6): KKT 1e-6 * max(1,|c|_inf,|G|_max*|x|_inf) per column; objective 1e-9 * scale (+ first-order "
        "allowance for fista's documented floor x >= 1e-8); ADMM 1e-9 * scale; non-negativity exact (x >= 0)",
        "conditioning guard cond(U'U) <= 50 via numpy.linalg.eigvalsh (trusted), singularity via exact determinant",
        "'run to convergence': hals exact=True / (n_iter_max=50000, tol=1e-16); fista n_iter_max=3000, tol=1e-12; active-set defaults. "
        "The hals callback stops the loop once a sweep moves V by <= 1e-14 relative (deterministic sweep map: further sweeps are no-ops), "
        "or aborts it when |V| exceeds 1e8 * max(1,|UtM|) (the returned iterate is then judged as it is)",
        "a fista result failing the oracle is re-run with tol=0 (own stopping rule disabled, 3000 iterations) only to classify the "
        "failure as premature stop vs. wrong fixed point (1500 iterations; <= 600 suffice on this lattice)",
    ]

    def groups(self, tier, seed):
        n = len(all_cases(tier, seed))
        ng = NGROUPS[tier]
        return [{"chunk": i, "of": ng, "cases": len(range(i, n, ng))} for i in range(ng)]

    def cases(self, group, tier, seed):
        yield from all_cases(tier, seed)[group["chunk"]::group["of"]]

    # ----------------------------------------------------------------------------------
    def run_case(self, case, ctx):
        with np.errstate(all="ignore"):
            self._run(case, ctx)

    def _run(self, case, ctx):
        from tensorly.solvers.admm import admm
        from tensorly.solvers.nnls import active_set_nnls, fista, hals_nnls

        U = [[int(v) for v in row] for row in case["U"]]
        B = [[int(v) for v in row] for row in case["B"]]
        Gi = _gram(U)
        n = len(Gi)
        reason = guard_reason(Gi)
        if case["plan"] == "guard" or reason is not None:
            ctx.count("guarded_out:" + str(reason))
            ctx.outcome("guarded_out:" + str(reason))
            return
        Ci = _utm(U, B)
        k = len(Ci[0])
        G = np.array(Gi, dtype=float)
        C = np.array(Ci, dtype=float)
        cols = [[Ci[i][j] for i in range(n)] for j in range(k)]
        ctx.count("problems")
        ctx.count(f"problems:{case['fam']}:k={k}")
        single = case["plan"] in ("single", "direct")
        direct = case["plan"] == "direct"
        starts = start_vectors(n, case["starts"])
        pair = [s for s in starts if s[1] is None or all(v == 1 for v in s[1])]

        # class of the cold start of hals_nnls (its initial guess is the clipped unconstrained LS solution)
        ls = [R.ls_exact(Gi, col) for col in cols]
        ls_all_nonpos = all(v <= 0 for x in ls for v in x)

        def start_class(sv):
            if sv is None:
                return "cold-start-ls-all-nonpositive" if ls_all_nonpos else "cold-start"
            return "warm-start"

        def mk(sv):
            return None if sv is None else np.array([[float(v)] * k for v in sv])

        def where(solver, opts, l1, l2, slab):
            return (f"{solver}({opts}) U={U} M={B} (UtU={Gi}, UtM={Ci}) sparsity={l1} ridge={l2} start={slab}: ")

        # documented-None probe (not part of the statement: counted, never a violation)
        try:
            if direct:
                raise KeyError
            fista(C.copy(), G.copy(), ridge_coef=None, n_iter_max=1)
            ctx.count("observed:fista_ridge_coef_None_accepted")
        except KeyError:
            pass
        except TypeError:
            ctx.count("observed:fista_ridge_coef_None_raises_TypeError")
        except Exception as e:  # noqa
            ctx.count("observed:fista_ridge_coef_None_raises_" + type(e).__name__)

        for l1, l2 in (PENS[:1] if direct else PENS):
            pc = pen_class(l1, l2)
            refs = []
            mixed = False
            for col in cols:
                ref = R.nnls_bruteforce(Gi, col, l1, l2)
                if not ref["kkt_ok"]:
                    raise HarnessError(f"reference optimum fails exact KKT: G={Gi} c={col} l1={l1} l2={l2} -> {ref}")
                refs.append(ref)
                xs, gs = ref["x"], ref["g"]
                if all(v == 0 for v in xs):
                    cls = "ref:zero-solution"
                elif all(v > 0 for v in xs):
                    cls = "ref:interior"
                elif any(xs[i] == 0 and gs[i] > 0 for i in range(n)):
                    cls = "ref:mixed-strictly-active"
                else:
                    cls = "ref:mixed-degenerate-active"
                ctx.outcome(cls + ":" + pc)
                if cls.startswith("ref:mixed"):
                    mixed = True

            def report(solver, opts, slab, sv, X, floor=0.0):
                ctx.evaluations += 1
                ctx.count("solves:" + solver)
                if mixed:
                    ctx.nontriv([Gi, Ci, l1, l2, solver, opts, slab])
                aspect, text = judge(G, C, X, l1, l2, refs, floor)
                if aspect is None:
                    ctx.count("pass:" + solver)
                    if mixed and len(ctx.samples) < 2 and k == 1:
                        ctx.sample({"solver": solver, "options": opts, "U": U, "M": B, "sparsity": l1, "ridge": l2, "start": slab,
                                    "x": np.asarray(X).T.tolist(), "x_ref": [str(v) for v in refs[0]["x"]],
                                    "multipliers_ref": [str(v) for v in refs[0]["g"]]})
                return aspect, text

            # ---------------- hals_nnls -------------------------------------------------------
            hals_modes = [("exact=True", dict(exact=True), starts if single else pair),
                          ("n_iter_max=50000,tol=1e-16", dict(n_iter_max=50000, tol=1e-16), pair if single else [])]
            if direct:
                hals_modes = []
            for opts, kw, sts in hals_modes:
                for slab, sv in sts:
                    watch = SweepWatch(blowup=1e8 * max(1.0, float(np.max(np.abs(C)))))
                    try:
                        with contextlib.redirect_stdout(io.StringIO()):
                            X = hals_nnls(C.copy(), G.copy(), V=mk(sv), sparsity_coefficient=l1, ridge_coefficient=l2,
                                          callback=watch, **kw)
                    except Exception as e:
                        ctx.evaluations += 1
                        ctx.violation(f"hals_nnls/raises-{type(e).__name__}/{start_class(sv)}",
                                      where("hals_nnls", opts, l1, l2, slab) + f"{type(e).__name__}: {e}")
                        continue
                    ctx.count("hals_loop_ended_by:" + watch.why)
                    ctx.count("hals_sweeps<=" + ("10" if watch.n <= 10 else "100" if watch.n <= 100 else "1000" if watch.n <= 1000 else "5000" if watch.n <= 5000 else "20000"))
                    aspect, text = report("hals_nnls", opts, slab, sv, X)
                    if aspect is not None:
                        sig = f"hals_nnls/{aspect}/{start_class(sv)}" + ("" if aspect in ("non-finite", "negative", "shape") else "/" + pc)
                        ctx.violation(sig, where("hals_nnls", opts, l1, l2, slab) + text + f" [{watch.n} sweeps, loop ended by {watch.why}]")

            # ---------------- fista -----------------------------------------------------------
            fsts = [] if direct else (starts if (single and pc == "plain") else pair)
            for slab, sv in fsts:
                opts = f"n_iter_max={FISTA_ITERS},tol=1e-12"
                try:
                    X = fista(C.copy(), G.copy(), x=mk(sv), sparsity_coef=l1, ridge_coef=0 if l2 is None else l2,
                              n_iter_max=FISTA_ITERS, tol=1e-12)
                except Exception as e:
                    ctx.evaluations += 1
                    ctx.violation(f"fista/raises-{type(e).__name__}/{'cold-start' if sv is None else 'warm-start'}",
                                  where("fista", opts, l1, l2, slab) + f"{type(e).__name__}: {e}")
                    continue
                aspect, text = report("fista", opts, slab, sv, X, floor=FISTA_EPS)
                if aspect is not None:
                    sc = "cold-start" if sv is None else "warm-start"
                    premature = False
                    if aspect in ("kkt", "objective"):
                        try:
                            X2 = fista(C.copy(), G.copy(), x=mk(sv), sparsity_coef=l1, ridge_coef=0 if l2 is None else l2,
                                       n_iter_max=FISTA_RERUN_ITERS, tol=0)
                            premature = judge(G, C, X2, l1, l2, refs, FISTA_EPS)[0] is None
                        except Exception:
                            premature = False
                        ctx.count("fista_reruns_with_stopping_rule_disabled")
                    if premature:
                        ctx.violation("fista/premature-stop/stopping-rule-fires-before-kkt",
                                      where("fista", opts, l1, l2, slab) + text +
                                      f" -- with tol=0 (stopping rule disabled, {FISTA_RERUN_ITERS} iterations) the same call reaches x={np.asarray(X2).T.tolist()}, "
                                      "which satisfies KKT: the |sum(x - x_new)| < tol*norm_0 rule stopped the iteration early")
                    else:
                        sig = f"fista/{aspect}/{sc}" + ("" if aspect in ("non-finite", "negative", "shape") else "/" + pc)
                        ctx.violation(sig, where("fista", opts, l1, l2, slab) + text)

            # ---------------- active set (no penalties offered; one column at a time) ---------
            if pc == "plain":
                for slab, sv in (starts if single else pair):
                    X = np.zeros((n, k))
                    err = None
                    for j in range(k):
                        try:
                            xj = active_set_nnls(C[:, j].copy(), G.copy(), x=None if sv is None else np.array([float(v) for v in sv]))
                            xj = np.asarray(xj, dtype=float)
                            if xj.shape != (n,):
                                err = ("shape", f"column {j}: returned shape {xj.shape}")
                                break
                            X[:, j] = xj
                        except Exception as e:
                            err = ("raises-" + type(e).__name__, f"column {j}: {type(e).__name__}: {e}")
                            break
                    sc = "cold-start" if sv is None else "warm-start"
                    if err is not None:
                        ctx.evaluations += 1
                        ctx.violation(f"active_set_nnls/{err[0]}/{sc}", where("active_set_nnls", "defaults", None, None, slab) + err[1])
                        continue
                    aspect, text = report("active_set_nnls", "defaults", slab, sv, X)
                    if aspect is not None:
                        sig = f"active_set_nnls/{aspect}/{sc}" + ("" if aspect in ("non-finite", "negative", "shape") else "/" + pc)
                        ctx.violation(sig, where("active_set_nnls", "defaults", None, None, slab) + text)

                # ------------ admm, n_const=None: x UtU = UtM (x is k x n) ---------------------
                for slab, fill in (("zeros", 0.0), ("ones", 1.0)):
                    ctx.evaluations += 1
                    ctx.count("solves:admm")
                    try:
                        out = admm(C.T.copy(), G.copy(), np.full((k, n), fill), np.full((k, n), fill), n_const=None)
                        X = np.asarray(out[0], dtype=float)
                    except Exception as e:
                        ctx.violation(f"admm/raises-{type(e).__name__}/n_const-None",
                                      where("admm", "n_const=None", None, None, slab) + f"{type(e).__name__}: {e}")
                        continue
                    if mixed:
                        ctx.nontriv([Gi, Ci, "admm", slab])
                    scale = max(1.0, float(np.max(np.abs(C))))
                    xls = np.array([[float(v) for v in x] for x in ls])  # k x n
                    if X.shape != (k, n) or not np.all(np.isfinite(X)):
                        ctx.violation("admm/unconstrained-ls/shape-or-non-finite", where("admm", "n_const=None", None, None, slab) + f"x={X.tolist()}")
                    elif np.max(np.abs(X @ G - C.T)) > LS_TOL * scale or np.max(np.abs(X - xls)) > LS_TOL * max(1.0, float(np.max(np.abs(xls)))):
                        ctx.violation("admm/unconstrained-ls/not-the-least-squares-solution",
                                      where("admm", "n_const=None", None, None, slab) + f"x={X.tolist()} but exact LS solution {xls.tolist()}; residual x UtU - UtM = {(X @ G - C.T).tolist()}")
                    else:
                        ctx.count("pass:admm")
        ctx.evaluations -= 1  # begin() counted the case itself once


CHECK = C13()
