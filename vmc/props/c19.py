"""C19 -- tensor regressors predict with exactly the weights they expose.

Lattice (complete product, no sampling):

* ``CPRegressor``    : n_samples x sample dims (order 1-3, dims in {2,3}) x target shape (scalar, (1,), vector,
                       order-2 tensor) x weight_rank x reg_W x random_state x n_iter_max
* ``TuckerRegressor``: n_samples x sample dims x target {scalar, (n,1) column} x weight_ranks tuple x reg_W x
                       random_state x n_iter_max
* ``CP_PLSR``        : n_samples x sample dims x target {(n,), (n,1), (n,2), (n,3)} x n_components x data table x
                       transformation in {base, X-shift k, Y-shift k, every permutation of the samples}

Oracle (only what the statement says):

* CP / Tucker: ``predict(X)[i] == <X_i, weight_tensor_>`` (explicit loop contraction, vmc.ref.core.inner) on the
  training set, a new F-ordered 3-sample set and a 1-sample set; ``weight_tensor_ == dense(cp_weight_|tucker_weight_)``
  (loop reference cp_dense / tucker_dense); ``vec_W_ == C-order vectorisation of weight_tensor_``.
* PLSR: ``transform(X_train[, Y_train])`` returns the fitted scores; loadings (``X_factors[1:]``, ``Y_factors[1]``)
  have unit-norm columns; loadings, scores and ``predict - Y_mean_`` unchanged under X + constant tensor and
  Y + constant; permuted consistently (scores permuted, loadings and predictions unchanged) under sample
  permutations.

Not demanded: that ``fit`` succeeds (exceptions are counted as guarded_out), any quality of the fit, anything about
``coef_``; the invariances are only demanded for components that are determined by the data (guard: residuals of X
and Y before every component, recomputed here from the exposed factors, are >= 1e-6 of the centred data).
"""
import itertools
import math

import numpy as np

from vmc import values as V
from vmc.ref import core as R
from vmc.runner import Check

TOL_EXACT = 1e-12   # one reconstruction (sum of a few products), relative to the absolute-value bound
TOL_PRED = 1e-9     # design: predict vs reference contraction
TOL_PLSR = 1e-8     # design: PLSR invariances (iterative fit run to tol=1e-12)
COLLAPSE = 1e-100  # CP/Tucker: fitted weights below this are in the underflow regime -> guarded out (counted)
GUARD_REL = 1e-6    # PLSR: residual before a component must be at least this fraction of the centred data


def xdims():
    out = []
    for k in (1, 2, 3):
        out += list(itertools.product((2, 3), repeat=k))
    return out


def cfg(tier):
    q = tier == "quick"
    return {
        "ns": (4, 6) if q else (4, 5, 6),
        "cp_yd": [(), (1,), (2,), (2, 3)] if q else [(), (1,), (2,), (3,), (2, 3), (3, 2)],
        "tk_yd": [(), (1,)],
        "pl_yd": [(), (1,), (2,), (3,)],
        "ranks": (1, 2, 3),
        "regs": (0.1, 1.0, 10.0),
        "rstates": (0, 1),
        "iters": (1, 30) if q else (1, 2, 3, 100),
        "offs": (0, 1),
        "xshifts": (0, 1) if q else (0, 1, 2),
        "yshifts": (0, 1) if q else (0, 1, 2),
    }


def tucker_ranks(k, tier):
    if tier == "quick":
        out = list(itertools.product((1, 2), repeat=k))
        out.append((3,) * k)
        if k >= 2:
            out.append(tuple((1, 2, 3)[:k]))
            out.append(tuple((3, 2, 1)[:k]))
        seen, res = set(), []
        for r in out:
            if r not in seen:
                seen.add(r)
                res.append(r)
        return res
    return list(itertools.product((1, 2, 3), repeat=k))


def perms_for(n, tier):
    """Every permutation of the samples (n<=4 always; n>4: thorough = all n!, quick = all transpositions + rotation
    + reversal, a fixed complete list -- never sampled)."""
    if n <= 4 or tier != "quick":
        return [list(p) for p in itertools.permutations(range(n))][1:]
    out = []
    for i in range(n):
        for j in range(i + 1, n):
            p = list(range(n))
            p[i], p[j] = p[j], p[i]
            out.append(p)
    out.append(list(range(1, n)) + [0])
    rev = list(range(n))[::-1]
    if rev not in out:
        out.append(rev)
    return out


def target_class(yd):
    if len(yd) == 0:
        return "scalar-target"
    if len(yd) == 1:
        return "column-target" if yd[0] == 1 else "vector-target"
    return "tensor-target"


def bad(d, tol):
    """True when d is not <= tol (NaN counts as bad)."""
    return not (d <= tol)


def maxabs(a):
    a = np.asarray(a, dtype=float)
    return float(np.max(np.abs(a))) if a.size else 0.0


def md(a, b):
    a, b = np.asarray(a, dtype=float), np.asarray(b, dtype=float)
    if a.shape != b.shape:
        return float("inf")
    if not a.size:
        return 0.0
    d = np.abs(a - b)
    return float("nan") if np.isnan(d).any() else float(np.max(d))


def lst(a):
    return np.round(np.asarray(a, dtype=float), 12).tolist()


# ----------------------------------------------------------------------------------------------
class C19(Check):
    pid = "C19"
    level = "exploration"
    design_ref = "DESIGN.md §4 C19"
    rule = ("complete product. CP/Tucker: (estimator, n_samples, sample dims in {2,3}^(1..3), target shape, rank(s), "
            "reg_W in {0.1,1,10}, random_state in {0,1}, n_iter_max) -> one fit, checked on 3 prediction sets; "
            "non-trivial iff the fit succeeded with finite, non-zero weights. PLSR: (n_samples, sample dims, target "
            "shape, n_components, data table, transformation) with transformation in {base, X-shift, Y-shift, every "
            "sample permutation (all n! ; quick tier for n=6: all 15 transpositions + rotation + reversal)}; "
            "non-trivial iff the transformation is not the identity and every component is data-determined (guard)")
    assumptions = [
        "reference contraction / CP / Tucker reconstruction: explicit python loops (vmc/ref/core.py inner, cp_dense, tucker_dense)",
        "tolerances (DESIGN §1.6): 1e-12 x absolute-value bound for weight_tensor_/vec_W_ vs factors; 1e-9 x ||X_i||_1 max|W| for "
        "predict vs contraction; 1e-8 for PLSR score/loading/prediction comparisons (fit run with tol=1e-12, n_iter_max=200)",
        "PLSR invariances are demanded only when every component is determined by the data: the residual of centred X and "
        "of centred Y before each component (recomputed by the harness from X_factors/Y_factors/coef_) is >= 1e-6 of the "
        "centred data; otherwise the component is rounding noise and the case is counted as guarded_out",
        "exceptions raised by fit() are counted (guarded_out:fit-raises:*), not violations: the statement starts 'after fitting'",
        "float64, NumPy backend; data from the deterministic tables vmc.values (generic irrationals; CP/Tucker targets are a planted "
        "small-integer linear model + 0.1 x generic residual); VERIF_SEED rotates the table offset",
        "CP/Tucker fits whose weights collapsed below 1e-100 (ridge penalty drives all factors to zero) are counted as "
        "guarded_out:weights-underflow: denormal products void the relative-error model of the tolerances",
    ]

    def __init__(self):
        self._plsr_cache = {}

    # ------------------------------------------------------------------ enumeration
    def groups(self, tier, seed):
        c = cfg(tier)
        gs = []
        for n in c["ns"]:
            for xd in xdims():
                for reg in c["regs"]:
                    gs.append({"est": "cp", "n": n, "xd": list(xd), "reg": reg})
                    gs.append({"est": "tucker", "n": n, "xd": list(xd), "reg": reg})
                for yd in c["pl_yd"]:
                    for nc in c["ranks"]:
                        for off in c["offs"]:
                            gs.append({"est": "plsr", "n": n, "xd": list(xd), "yd": list(yd), "nc": nc, "off": off})
                            if nc == c["ranks"][-1] and off == c["offs"][0] and n == c["ns"][0]:
                                # as many components as samples (rank-excessive request): unit-norm loadings and transform == scores still hold
                                gs.append({"est": "plsr", "n": n, "xd": list(xd), "yd": list(yd), "nc": n, "off": off})
                            if len(xd) >= 2 and off == c["offs"][0]:
                                # structured data: one channel of the last sample mode is identically zero (zero padding, a dead sensor)
                                gs.append({"est": "plsr", "n": n, "xd": list(xd), "yd": list(yd), "nc": nc, "off": off, "zero_channel": True})
        # a size class of its own: more samples than any plausible internal block / sub-sampling threshold (600), one and two responses
        for yd in ((), (2,)):
            gs.append({"est": "plsr", "n": 600, "xd": [3, 2], "yd": list(yd), "nc": 1, "off": c["offs"][0], "many": True})
        # simplest groups first (the first stored example of a violation is then a small one); the pool hands out
        # groups one at a time, so the tail is bounded by the single heaviest group
        def cost(g):
            base = g["n"] * int(np.prod(g["xd"]))
            if g.get("many"):
                return base * 4
            if g["est"] == "plsr":
                return base * (math.factorial(g["n"]) if (g["n"] <= 4 or tier != "quick") else 20) * g["nc"] / 20.0
            if g["est"] == "tucker":
                return base * 3 ** len(g["xd"])
            return base * 4
        order = sorted(range(len(gs)), key=lambda i: (cost(gs[i]), i))
        out = [gs[i] for i in order]
        # one small CP and one small Tucker group up front so that the evidence samples show every estimator
        front = []
        for est in ("cp", "tucker"):
            for g in out:
                if g["est"] == est and len(g["xd"]) == 2:
                    front.append(g)
                    break
        return front + [g for g in out if not any(g is f for f in front)]

    def cases(self, group, tier, seed):
        c = cfg(tier)
        est, n, xd = group["est"], group["n"], list(group["xd"])
        if est == "cp":
            for yd in c["cp_yd"]:
                for rank in c["ranks"]:
                    for rs in c["rstates"]:
                        for it in c["iters"]:
                            yield {"est": "cp", "n": n, "xd": xd, "yd": list(yd), "rank": rank, "reg": group["reg"],
                                   "rs": rs, "iters": it, "seed": seed}
                            if rs == c["rstates"][0]:
                                # the same estimator object first fitted (and used) on other data of the same shape, then refitted
                                yield {"est": "cp", "n": n, "xd": xd, "yd": list(yd), "rank": rank, "reg": group["reg"],
                                       "rs": rs, "iters": it, "seed": seed, "refit": True}
                                yield {"est": "cp", "n": n, "xd": xd, "yd": list(yd), "rank": rank, "reg": group["reg"],
                                       "rs": rs, "iters": it, "seed": seed, "failed_refit": True}
                                yield {"est": "cp", "n": n, "xd": xd, "yd": list(yd), "rank": rank, "reg": group["reg"],
                                       "rs": rs, "iters": it, "seed": seed, "tenalg": "einsum"}
        elif est == "tucker":
            for yd in c["tk_yd"]:
                for ranks in tucker_ranks(len(xd), tier):
                    for rs in c["rstates"]:
                        for it in c["iters"]:
                            yield {"est": "tucker", "n": n, "xd": xd, "yd": list(yd), "ranks": list(ranks),
                                   "reg": group["reg"], "rs": rs, "iters": it, "seed": seed}
                            if rs == c["rstates"][0]:
                                yield {"est": "tucker", "n": n, "xd": xd, "yd": list(yd), "ranks": list(ranks),
                                       "reg": group["reg"], "rs": rs, "iters": it, "seed": seed, "refit": True}
                                yield {"est": "tucker", "n": n, "xd": xd, "yd": list(yd), "ranks": list(ranks),
                                       "reg": group["reg"], "rs": rs, "iters": it, "seed": seed, "failed_refit": True}
                                yield {"est": "tucker", "n": n, "xd": xd, "yd": list(yd), "ranks": list(ranks),
                                       "reg": group["reg"], "rs": rs, "iters": it, "seed": seed, "tenalg": "einsum"}
        else:
            yd, nc = list(group["yd"]), group["nc"]
            base = {"est": "plsr", "n": n, "xd": xd, "yd": yd, "nc": nc, "off": group["off"], "seed": seed}
            if group.get("zero_channel"):
                base["zero_channel"] = True
            yield dict(base, xf=["base"])
            if not group.get("zero_channel"):
                yield dict(base, xf=["base"], verbose=True)
            for k in c["xshifts"]:
                yield dict(base, xf=["xshift", k])
            for k in c["yshifts"]:
                yield dict(base, xf=["yshift", k])
            if group.get("many"):
                half = n // 2
                for p in (list(range(half, n)) + list(range(half)), list(range(n))[::-1], list(range(1, n)) + [0]):
                    yield dict(base, xf=["perm", p])
                return
            for p in perms_for(n, tier):
                yield dict(base, xf=["perm", p])

    # ------------------------------------------------------------------ dispatch
    def run_case(self, case, ctx):
        st = np.random.get_state()
        try:
            if case["est"] == "plsr":
                self._run_plsr(case, ctx)
            else:
                self._run_lowrank(case, ctx)
        finally:
            np.random.set_state(st)

    # ------------------------------------------------------------------ CP / Tucker regressors
    def _run_lowrank(self, case, ctx):
        if case.get("tenalg"):  # configuration axis: the second tensor-algebra implementation
            import tensorly as tl

            with tl.tenalg.backend_context(case["tenalg"], local_threadsafe=True):
                return self._run_lowrank_(case, ctx)
        return self._run_lowrank_(case, ctx)

    def _run_lowrank_(self, case, ctx):
        from tensorly.regression import CPRegressor, TuckerRegressor

        est = case["est"]
        n, xd, yd = case["n"], tuple(case["xd"]), tuple(case["yd"])
        o = case.get("seed", 0) * 101 + 3 * len(xd) + len(yd)
        # planted linear model: y = <X, W_true> + small generic residual (keeps the ridge fit away from the all-zero solution)
        X = 4.0 * V.generic((n,) + xd, o + 1)
        w_true = V.ints(xd + yd, o + 5, 2, nonzero=True)
        y = np.tensordot(X, w_true, axes=len(xd)) + 0.1 * V.generic((n,) + yd, o + 2)
        name = "CPRegressor" if est == "cp" else "TuckerRegressor"
        tcls = target_class(yd)
        xcls = f"sample-order-{len(xd)}"
        if est == "cp":
            model = CPRegressor(weight_rank=case["rank"], reg_W=case["reg"], n_iter_max=case["iters"],
                                random_state=case["rs"], verbose=0)
        else:
            model = TuckerRegressor(weight_ranks=list(case["ranks"]), reg_W=case["reg"], n_iter_max=case["iters"],
                                    random_state=case["rs"], verbose=0)
        X0, y0 = X.copy(), y.copy()
        ctx.count("fits")
        if case.get("refit"):
            # history: fit + predict on other data first; everything checked below must describe the SECOND fit
            try:
                Xa = 4.0 * V.generic((n,) + xd, o + 31)
                ya = np.tensordot(Xa, V.ints(xd + yd, o + 35, 2, nonzero=True), axes=len(xd)) + 0.1 * V.generic((n,) + yd, o + 32)
                model.fit(Xa, ya)
                model.predict(Xa)
                ctx.count("refit-histories")
            except Exception as e:
                ctx.count(f"guarded_out:first-fit-raises:{name}/{type(e).__name__}")
                return
        try:
            model.fit(X, y)
        except Exception as e:
            ctx.count(f"guarded_out:fit-raises:{name}/{xcls}/{tcls}/{type(e).__name__}")
            ctx.outcome(f"{est}:fit-raises:{type(e).__name__}")
            return
        if case.get("failed_refit"):
            # history: good fit, then a fit that raises in its first sweep (sample counts of X and y differ) and is caught by the caller;
            # the estimator the caller keeps must still be consistent (all attributes of the good fit, or all of a new one)
            try:
                y_bad = np.concatenate([y, y[:1]], axis=0)
                model.fit(X, y_bad)
                ctx.count(f"guarded_out:inconsistent-refit-did-not-raise:{name}")
                return
            except Exception as e:
                ctx.count(f"failed-refit-histories:{type(e).__name__}")
        W = np.asarray(model.weight_tensor_)
        vecW = np.asarray(model.vec_W_)
        if est == "cp":
            weights, factors = model.cp_weight_
            parts = [np.asarray(weights)] + [np.asarray(f) for f in factors]
        else:
            core, factors = model.tucker_weight_
            parts = [np.asarray(core)] + [np.asarray(f) for f in factors]
        if not (np.isfinite(W).all() and np.isfinite(vecW).all() and all(np.isfinite(p).all() for p in parts)):
            ctx.count(f"guarded_out:nonfinite-fit:{name}")
            ctx.outcome(f"{est}:nonfinite-fit")
            return
        if maxabs(W) < COLLAPSE:
            # ridge penalty drove the weights into the underflow range: products of factor entries are denormal and
            # the relative-error model behind the tolerances does not apply
            ctx.count(f"guarded_out:weights-underflow:{name}")
            ctx.outcome(f"{est}:weights-underflow")
            return
        conv = "converged" if model.n_iterations_ < case["iters"] else "maxiter"
        ctx.outcome(f"{est}:{tcls}:{conv}")

        # (1) weight_tensor_ == dense(exposed factors), by loops
        if est == "cp":
            w_list = [float(v) for v in parts[0]]
            f_rt = [R.RT.from_np(f) for f in parts[1:]]
            dense = R.cp_dense(w_list, f_rt)
            bound = R.cp_dense([abs(v) for v in w_list], [R.RT(f.shape, [abs(v) for v in f.data]) for f in f_rt])
            attr = "cp_weight_"
        else:
            g_rt = R.RT.from_np(parts[0])
            f_rt = [R.RT.from_np(f) for f in parts[1:]]
            dense = R.tucker_dense(g_rt, f_rt)
            bound = R.tucker_dense(R.RT(g_rt.shape, [abs(v) for v in g_rt.data]),
                                   [R.RT(f.shape, [abs(v) for v in f.data]) for f in f_rt])
            attr = "tucker_weight_"
        scale = max(bound.data) if bound.data else 0.0
        exp_shape = xd + (yd if est == "cp" else ())
        ctx.count("compare:dense")
        if tuple(W.shape) != dense.shape:
            ctx.violation(f"{name}.weight_tensor_/shape-differs-from-{attr}/{tcls}",
                          f"{case}: weight_tensor_.shape={W.shape} but dense({attr}).shape={dense.shape}")
        else:
            d = R.maxabsdiff_np(dense, W)
            if bad(d, TOL_EXACT * max(scale, 1e-300)):
                ctx.violation(f"{name}.weight_tensor_/not-reconstruction-of-{attr}/{tcls}",
                              f"{case}: max|weight_tensor_ - dense({attr})| = {d:.3e} (scale {scale:.3e}); "
                              f"weight_tensor_={lst(W)} dense={lst(dense.to_np())}")
        if tuple(W.shape) != exp_shape:
            # the weight tensor must be contractible with a sample: leading dims = sample dims
            if tuple(W.shape[: len(xd)]) != xd:
                ctx.violation(f"{name}.weight_tensor_/leading-dims-not-sample-dims/{tcls}",
                              f"{case}: weight_tensor_.shape={W.shape}, sample dims {xd}")
                return
        # (2) vec_W_ == vectorised weight tensor
        ctx.count("compare:vec")
        if vecW.shape != (W.size,):
            ctx.violation(f"{name}.vec_W_/shape/{tcls}", f"{case}: vec_W_.shape={vecW.shape}, weight_tensor_.size={W.size}")
        else:
            wflat = R.vec(R.RT.from_np(W))
            d = R.maxabsdiff_np(wflat, vecW)
            if bad(d, TOL_EXACT * max(scale, 1e-300)):
                ctx.violation(f"{name}.vec_W_/not-vectorised-weight_tensor_/{tcls}",
                              f"{case}: max|vec_W_ - vec(weight_tensor_)| = {d:.3e}; vec_W_={lst(vecW)} vec(W)={lst(W.reshape(-1))}")

        # (3) predictions == contraction of each sample with weight_tensor_
        W_rt = R.RT.from_np(W)
        wmax = maxabs(W)
        sets = [("train", X0), ("new3F", np.asfortranarray(4.0 * V.generic((3,) + xd, o + 3))), ("new1", V.generic((1,) + xd, o + 4))]
        nonzero_pred = False
        for sname, Xt in sets:
            ctx.count("compare:predict")
            Xt_before = np.array(Xt, copy=True)
            try:
                p = np.asarray(model.predict(Xt))
            except Exception as e:
                ctx.violation(f"{name}.predict/raises/{tcls}", f"{case} set={sname}: {type(e).__name__}: {e}")
                continue
            ref = R.inner(R.RT.from_np(Xt_before), W_rt, len(xd))  # shape (n,) + trailing dims of W
            if tuple(p.shape) != ref.shape:
                ctx.violation(f"{name}.predict/shape/{tcls}",
                              f"{case} set={sname}: predict shape {p.shape}, contraction <X_i, weight_tensor_> has shape {ref.shape}")
                continue
            x1 = max(sum(abs(v) for v in Xt_before[i].reshape(-1).tolist()) for i in range(Xt_before.shape[0]))
            d = R.maxabsdiff_np(ref, p)
            if bad(d, TOL_PRED * x1 * wmax):  # |<x, W>| <= ||x||_1 max|W|
                ctx.violation(f"{name}.predict/not-contraction-with-weight_tensor_/{tcls}",
                              f"{case} set={sname}: max|predict - <X_i,W>| = {d:.3e}; predict={lst(p)} expected={lst(ref.to_np())} "
                              f"W={lst(W)}")
            if ref.data and max(abs(v) for v in ref.data) > 1e-9:
                nonzero_pred = True
        if wmax > 1e-9 and nonzero_pred:
            ctx.nontriv()
        if md(X, X0) != 0 or md(y, y0) != 0:
            ctx.count("note:fit-mutated-input")
        if len(ctx.samples) < 1:
            ctx.sample({"case": case, "weight_tensor_shape": list(W.shape), "n_iterations_": int(model.n_iterations_),
                        "predict_train": lst(np.asarray(model.predict(X0)).reshape(-1)[:4]),
                        "reference_train": lst(np.array(R.inner(R.RT.from_np(X0), W_rt, len(xd)).data[:4]))})

    # ------------------------------------------------------------------ CP_PLSR
    @staticmethod
    def _plsr_data(case):
        n, xd, yd = case["n"], tuple(case["xd"]), tuple(case["yd"])
        o = case.get("seed", 0) * 101 + case["off"] * 7 + 2 * len(xd)
        X = V.generic((n,) + xd, o + 1)
        Y = V.generic((n,) + yd, o + 2)
        Xt = V.generic((3,) + xd, o + 3)
        if case.get("zero_channel"):
            X, Xt = np.array(X, copy=True), np.array(Xt, copy=True)
            X[..., 0] = 0.0
            Xt[..., 0] = 0.0
        return o, X, Y, Xt

    @staticmethod
    def _fit_plsr(X, Y, nc, verbose=False):
        from tensorly.regression import CP_PLSR

        m = CP_PLSR(n_components=nc, tol=1e-12, n_iter_max=200, random_state=0, verbose=verbose)
        if verbose:  # the chatty switch is a configuration like any other; its output is discarded
            import contextlib
            import io

            with contextlib.redirect_stdout(io.StringIO()):
                m.fit(X, Y)
        else:
            m.fit(X, Y)
        return m

    @staticmethod
    def _snapshot(m, Xt):
        """Everything the statement talks about, as plain arrays."""
        return {
            "XF": [np.array(f, dtype=float) for f in m.X_factors],
            "YF": [np.array(f, dtype=float) for f in m.Y_factors],
            "pred_c": np.asarray(m.predict(Xt), dtype=float) - np.asarray(m.Y_mean_, dtype=float),
            "coef": np.array(m.coef_, dtype=float),
        }

    @staticmethod
    def _guard(X, Y, snap):
        """Smallest relative residual of centred X / centred Y before any component (harness-side recomputation)."""
        Xr = X - X.mean(axis=0)
        Yr = (Y.reshape(len(Y), -1) - Y.reshape(len(Y), -1).mean(axis=0)).astype(float)
        nx, ny = np.linalg.norm(Xr), np.linalg.norm(Yr)
        if not (nx > 0 and ny > 0):
            return 0.0
        nc = snap["XF"][0].shape[1]
        worst = 1.0
        T = snap["XF"][0]
        for c in range(nc):
            worst = min(worst, float(np.linalg.norm(Xr) / nx), float(np.linalg.norm(Yr) / ny),
                        float(np.linalg.norm(Yr[:, 0]) / ny))
            comp = snap["XF"][0][:, c]
            for f in snap["XF"][1:]:
                comp = np.multiply.outer(comp, f[:, c])
            Xr = Xr - comp
            Yr = Yr - np.outer(T @ snap["coef"][:, c], snap["YF"][1][:, c])
        return worst if np.isfinite(worst) else 0.0

    def _plsr_base(self, case):
        key = (case["n"], tuple(case["xd"]), tuple(case["yd"]), case["nc"], case["off"], case.get("seed", 0), bool(case.get("zero_channel")), bool(case.get("verbose")))
        hit = self._plsr_cache.get(key)
        if hit is not None:
            return hit
        o, X, Y, Xt = self._plsr_data(case)
        X0, Y0 = X.copy(), Y.copy()
        try:
            m = self._fit_plsr(X, Y, case["nc"], verbose=bool(case.get("verbose")))
            snap = self._snapshot(m, Xt)
            err = None
        except Exception as e:  # fit (or predict on the base model) raised
            m, snap, err = None, None, e
        ok = snap is not None and all(np.isfinite(a).all() for a in snap["XF"] + snap["YF"] + [snap["pred_c"]])
        guard = self._guard(X0, Y0, snap) if ok else 0.0
        res = {"o": o, "X": X0, "Y": Y0, "Xt": Xt, "model": m, "snap": snap, "err": err, "finite": ok, "guard": guard,
               "mutated": md(X, X0) != 0 or md(Y, Y0) != 0}
        self._plsr_cache = {key: res}  # keep only the latest base fit
        return res

    def _run_plsr(self, case, ctx):
        b = self._plsr_base(case)
        xd, yd, nc, n = tuple(case["xd"]), tuple(case["yd"]), case["nc"], case["n"]
        xf = case["xf"]
        kind = xf[0]
        ycls = target_class(yd)
        xcls = f"sample-order-{len(xd)}"
        if b["snap"] is None:
            if kind == "base":
                ctx.count(f"guarded_out:fit-raises:CP_PLSR/{xcls}/{ycls}/{type(b['err']).__name__}")
            ctx.outcome("plsr:fit-raises")
            return
        if not b["finite"]:
            if kind == "base":
                ctx.count(f"guarded_out:nonfinite-fit:CP_PLSR/{xcls}/{ycls}")
            ctx.outcome("plsr:nonfinite-fit")
            return
        X, Y, Xt, snap = b["X"], b["Y"], b["Xt"], b["snap"]

        def cmp(sig, what, got, exp):
            ctx.count("compare:plsr")
            d = md(got, exp)
            if bad(d, TOL_PLSR * max(1.0, maxabs(exp))):
                ctx.violation(sig, f"{case}: {what}: max abs difference {d:.3e}; got={lst(got)} expected={lst(exp)}")
                return False
            return True

        if kind == "base":
            ctx.count("fits")
            m = b["model"]
            if b["mutated"]:
                ctx.count("note:fit-mutated-input")
            # transform(X_train) == fitted scores
            try:
                xs = np.asarray(m.transform(X.copy()))
                xs2, ys2 = m.transform(X.copy(), Y.copy())
            except Exception as e:
                ctx.violation(f"CP_PLSR.transform/raises/{xcls}", f"{case}: {type(e).__name__}: {e}")
                return
            cmp(f"CP_PLSR.transform/x-scores-differ-from-X_factors0/{xcls}", "transform(X_train) vs X_factors[0]", xs, snap["XF"][0])
            cmp(f"CP_PLSR.transform/x-scores-differ-from-X_factors0/with-Y/{xcls}", "transform(X_train, Y_train)[0] vs X_factors[0]",
                xs2, snap["XF"][0])
            cmp(f"CP_PLSR.transform/y-scores-differ-from-Y_factors0/{ycls}", "transform(X_train, Y_train)[1] vs Y_factors[0]",
                ys2, snap["YF"][0])
            # the same identity for a fit stopped early by a loose tolerance (scores and loadings of the LAST inner iterate belong together)
            try:
                from tensorly.regression import CP_PLSR

                for loose in (1e-2, 0.3):
                    ml = CP_PLSR(n_components=nc, tol=loose, n_iter_max=50, random_state=0, verbose=False)
                    ml.fit(X.copy(), Y.copy())
                    lx, ly = ml.transform(X.copy(), Y.copy())
                    cmp(f"CP_PLSR.transform/x-scores-differ-from-X_factors0/loose-tol/{xcls}", f"tol={loose}: transform(X_train, Y_train)[0] vs X_factors[0]",
                        lx, np.array(ml.X_factors[0], dtype=float))
                    cmp(f"CP_PLSR.transform/y-scores-differ-from-Y_factors0/loose-tol/{ycls}", f"tol={loose}: transform(X_train, Y_train)[1] vs Y_factors[0]",
                        ly, np.array(ml.Y_factors[0], dtype=float))
            except Exception as e:
                ctx.violation(f"CP_PLSR.fit/raises/loose-tol/{xcls}", f"{case}: {type(e).__name__}: {e}")
            # unit-norm loadings (python-float norms)
            for mode, f in list(enumerate(snap["XF"]))[1:]:
                for c in range(nc):
                    nrm = math.sqrt(sum(v * v for v in f[:, c].tolist()))
                    ctx.count("compare:plsr")
                    if bad(abs(nrm - 1.0), TOL_PLSR):
                        ctx.violation(f"CP_PLSR.fit/x-loading-not-unit-norm/{xcls}",
                                      f"{case}: ||X_factors[{mode}][:, {c}]|| = {nrm!r}; column={lst(f[:, c])}")
            for c in range(nc):
                f = snap["YF"][1]
                nrm = math.sqrt(sum(v * v for v in f[:, c].tolist()))
                ctx.count("compare:plsr")
                if bad(abs(nrm - 1.0), TOL_PLSR):
                    ctx.violation(f"CP_PLSR.fit/y-loading-not-unit-norm/{ycls}",
                                  f"{case}: ||Y_factors[1][:, {c}]|| = {nrm!r}; column={lst(f[:, c])}")
            # predictions are per-sample: 1030 samples at once (more than any plausible internal block size) = the same rows one block at a time
            try:
                reps = 1030 // Xt.shape[0] + 1
                big = np.concatenate([Xt] * reps, axis=0)[:1030]
                pb = np.asarray(m.predict(big.copy()), dtype=float)
                ps = np.asarray(m.predict(Xt.copy()), dtype=float)
                exp_big = np.concatenate([ps] * reps, axis=0)[:1030]
                cmp(f"CP_PLSR.predict/many-samples-differ-from-per-sample-predictions/{ycls}", "predict(1030 samples) vs the same samples predicted 3 at a time",
                    pb.reshape(1030, -1), exp_big.reshape(1030, -1))
            except Exception as e:
                ctx.violation(f"CP_PLSR.predict/raises-on-many-samples/{type(e).__name__}", f"{case}: {type(e).__name__}: {e}")
            # history: fit_transform, the caller rescales the scores it was handed IN PLACE (they are the caller's arrays), then asks the
            # estimator to transform its training data again: the estimator must not have been changed through the returned arrays
            try:
                from tensorly.regression import CP_PLSR

                m2 = CP_PLSR(n_components=nc, tol=m.tol, n_iter_max=m.n_iter_max, random_state=m.random_state, verbose=False)
                got = m2.fit_transform(X.copy(), Y.copy())
                outs = list(got) if isinstance(got, (tuple, list)) else [got]
                for a in outs:
                    if isinstance(a, np.ndarray) and a.flags.writeable:
                        a *= 0.5
                        a += 7.0
                xs3, ys3 = m2.transform(X.copy(), Y.copy())
                ctx.count("fit_transform-then-caller-scribbles-histories")
                cmp(f"CP_PLSR.fit_transform/returned-scores-alias-estimator-state/x/{xcls}",
                    "after the caller modified the arrays returned by fit_transform in place: transform(X_train, Y_train)[0] vs X_factors[0]",
                    xs3, np.asarray(m2.X_factors[0], dtype=float))
                cmp(f"CP_PLSR.fit_transform/returned-scores-alias-estimator-state/y/{ycls}",
                    "after the caller modified the arrays returned by fit_transform in place: transform(X_train, Y_train)[1] vs Y_factors[0]",
                    ys3, np.asarray(m2.Y_factors[0], dtype=float))
            except Exception as e:
                ctx.count(f"guarded_out:fit_transform-history-raises:{type(e).__name__}")
            ctx.nontriv()
            ctx.outcome("plsr:base:data-determined" if b["guard"] >= GUARD_REL else "plsr:base:rank-exhausted")
            if len(ctx.samples) < 2:
                ctx.sample({"case": case, "guard_min_relative_residual": b["guard"], "scores": lst(snap["XF"][0]),
                            "transform": lst(xs), "loading_norms": [lst(np.linalg.norm(f, axis=0)) for f in snap["XF"][1:]]})
            return

        # --- invariances: only for data-determined components
        if b["guard"] < GUARD_REL:
            ctx.count(f"guarded_out:rank-exhausted:{kind}")
            ctx.outcome(f"plsr:{kind}:guarded-out")
            return
        Xn, Yn, Xtn = X, Y, Xt
        row = list(range(n))
        if kind == "xshift":
            k = xf[1]
            C = [V.generic(xd, b["o"] + 11) * 4.0, np.full(xd, 10.0), V.generic(xd, b["o"] + 12) - 100.0][k]
            Xn, Xtn = X + C, Xt + C
        elif kind == "yshift":
            dconst = [2.5, -100.0, 1000.0][xf[1]]
            Yn = Y + dconst
        elif kind == "perm":
            row = list(xf[1])
            Xn, Yn = X[row], Y[row]
        else:
            raise ValueError(kind)
        ctx.count("fits")
        try:
            m2 = self._fit_plsr(np.array(Xn, copy=True), np.array(Yn, copy=True), nc)
            s2 = self._snapshot(m2, Xtn)
        except Exception as e:
            ctx.violation(f"CP_PLSR.fit/raises-on-{kind}-of-fittable-data/{xcls}", f"{case}: {type(e).__name__}: {e}")
            return
        asp = {"xshift": "x-shift", "yshift": "y-shift", "perm": "sample-permutation"}[kind]
        ok = True
        ok &= cmp(f"CP_PLSR.fit/{asp}/x-scores", f"X_factors[0] after {kind} vs base (rows permuted by {row})",
                  s2["XF"][0], snap["XF"][0][row])
        ok &= cmp(f"CP_PLSR.fit/{asp}/y-scores", f"Y_factors[0] after {kind} vs base", s2["YF"][0], snap["YF"][0][row])
        for mode in range(1, len(snap["XF"])):
            ok &= cmp(f"CP_PLSR.fit/{asp}/x-loadings", f"X_factors[{mode}] after {kind} vs base", s2["XF"][mode], snap["XF"][mode])
        ok &= cmp(f"CP_PLSR.fit/{asp}/y-loadings", f"Y_factors[1] after {kind} vs base", s2["YF"][1], snap["YF"][1])
        ok &= cmp(f"CP_PLSR.predict/{asp}/prediction-minus-offset", f"predict(X_new) - Y_mean_ after {kind} vs base",
                  s2["pred_c"], snap["pred_c"])
        if kind == "perm":
            # predictions on the (permuted) training samples are permuted consistently
            try:
                p_base = np.asarray(b["model"].predict(X.copy()), dtype=float) - np.asarray(b["model"].Y_mean_, dtype=float)
                p_perm = np.asarray(m2.predict(np.array(Xn, copy=True)), dtype=float) - np.asarray(m2.Y_mean_, dtype=float)
                ok &= cmp(f"CP_PLSR.predict/{asp}/training-predictions-not-permuted",
                          "predict(X_train[perm]) - offset vs (predict(X_train) - offset)[perm]", p_perm, p_base[row])
            except Exception as e:
                ctx.violation(f"CP_PLSR.predict/raises/{xcls}", f"{case}: {type(e).__name__}: {e}")
                ok = False
        ctx.nontriv()
        ctx.outcome(f"plsr:{kind}:{'invariant' if ok else 'VIOLATED'}")


CHECK = C19()
