"""C04 — canonicalising / algebraic transforms preserve the represented tensor.

Nine complete lattices ("families"), each partitioned into groups:

cpcanon   CP tensor (shape x rank x per-(factor, column) kind in {G generic, Z all-zero, M zero-mean, N all-negative} x weight
          class {None, ones, positive, negative, mixed, with-zero}) -> cp_normalize, CPTensor.normalize, cp_flip_sign (every
          mode x {default mean, tl.sum}).  Dense tensor unchanged; unit column norms with the scale in the weights;
          weights >= 0 and column summaries >= 0 after the flip.
cpmdot    cp_mode_dot / CPTensor.mode_dot: every mode x {1-row matrix, (I+1)-row matrix, vector} x keep_dim x copy, exact.
tkmdot    tucker_mode_dot / TuckerTensor.mode_dot: same lattice on Tucker tensors, exact.
tknorm    tucker_normalize / TuckerTensor.normalize with zero / negative columns.
pf2norm   parafac2_normalise with zero / negative columns, uneven slice heights.
fromcp    Parafac2Tensor.from_CPTensor (QR of B), incl. zero / zero-mean / duplicated columns of B.
padtt     pad_tt_rank on TT (no boundary padding), TR (with and without boundary padding), TT-matrix cores.
svdcomp   svd_compress_tensor_slices -> svd_decompress_parafac2_tensor for every max_rank / threshold keeping all non-zero
          singular values.
cpperm    cp_permute_factors against every column-permuted, column-rescaled reference (single tensor and list).

Numerics (DESIGN 1.6): integer-valued inputs; sign flips, mode products and zero padding are compared exactly (==);
normalisations 1e-12 * scale; QR / SVD based transforms 1e-9 * scale.
"""
import contextlib
import functools
import io
import itertools

import numpy as np

from vmc import values as V
from vmc.ref import c04_ref as R4
from vmc.runner import Check

TOL12 = 1e-12
TOL9 = 1e-9
CHUNK = 256


def _chunks(n, size=CHUNK):
    return [(lo, min(n, lo + size)) for lo in range(0, n, size)]


def _quiet():
    return contextlib.redirect_stdout(io.StringIO())


# ------------------------------------------------------------------------------------------ CP pattern lattice
def kinds_for(size):
    return "GZMN" if size >= 2 else "GZN"  # a zero-mean column of height 1 is the zero column


class _Product:
    """Indexable full product of per-factor column-kind strings (itertools.product order, never materialised)."""

    def __init__(self, per):
        self.per = per
        self.n = 1
        for p in per:
            self.n *= len(p)

    def __len__(self):
        return self.n

    def __getitem__(self, i):
        out = []
        for p in reversed(self.per):
            i, d = divmod(i, len(p))
            out.append(p[d])
        return out[::-1]


@functools.lru_cache(maxsize=64)
def cp_patterns(shape, R, budget):
    """All per-(factor, column) kind assignments when their number is <= budget, otherwise the union of
    (a) every assignment on one factor / on every pair of factors with the other factors generic and
    (b) the same column pattern on every factor.  Deterministic order, no duplicates."""
    n = len(shape)
    per = [["".join(p) for p in itertools.product(kinds_for(s), repeat=R)] for s in shape]
    full = _Product(per)
    if len(full) <= budget:
        return full
    seen, out = set(), []

    def add(p):
        t = tuple(p)
        if t not in seen:
            seen.add(t)
            out.append(list(p))

    gen = "G" * R
    for k in range(n):
        for pk in per[k]:
            add([pk if j == k else gen for j in range(n)])
    for k1, k2 in itertools.combinations(range(n), 2):
        if len(per[k1]) * len(per[k2]) <= budget:
            for p1 in per[k1]:
                for p2 in per[k2]:
                    add([p1 if j == k1 else p2 if j == k2 else gen for j in range(n)])
    for pk in per[shape.index(min(shape))]:
        add([pk] * n)
    return out


def cpcanon_space(tier):
    """[(shape, R, budget)]"""
    if tier == "quick":
        return [((2, 3), 1, 4096), ((2, 3), 2, 4096), ((3, 2), 3, 4096), ((3, 1), 2, 4096),
                ((2, 3, 2), 1, 4096), ((2, 3, 2), 2, 4096), ((3, 1, 2), 2, 4096), ((2, 3, 2), 3, 64)]
    return [((2, 3), 1, 4096), ((2, 3), 2, 4096), ((3, 2), 3, 4096), ((3, 1), 2, 4096), ((1, 1), 2, 4096), ((4, 3), 2, 4096),
            ((2, 3, 2), 1, 4096), ((2, 3, 2), 2, 4096), ((3, 1, 2), 2, 4096), ((3, 2, 3), 2, 4096), ((2, 3, 2), 3, 262144),
            ((2, 2, 3, 2), 1, 4096), ((2, 2, 3, 2), 2, 65536)]


def build_cp(shape, R, pattern, wclass, seed):
    facs = [R4.factor(pattern[k], shape[k], seed * 17 + k * 3 + 1) for k in range(len(shape))]
    w = R4.weights(wclass, R, seed * 7 + 2)
    return w, facs


def int_matrix(shape, off):
    return V.ints(shape, off, 2)


# ------------------------------------------------------------------------------------------ the check
class C04(Check):
    pid = "C04"
    level = "exploration"
    design_ref = "DESIGN.md §4 C04"
    rule = ("complete products per family: [cpcanon] CP shape x rank x every per-(factor,column) kind assignment over {generic, "
            "all-zero, zero-mean, all-negative} (full product up to the stated budget, else every one-/two-factor assignment + "
            "uniform assignment) x 6 weight classes, each run through cp_normalize (object and tuple input), CPTensor.normalize "
            "and cp_flip_sign for every mode x {mean, sum}; [cpmdot]/[tkmdot] every shape over dims {1,2,3} x rank(s) x weight "
            "class x every mode x {1-row matrix, (I+1)-row matrix, vector} x keep_dim x copy x {function, method}; [tknorm] "
            "Tucker shape x ranks x every {generic, zero, negative} column assignment x 3 call forms; [pf2norm] (I, K, R) x "
            "slice-height profile x weight class x every column assignment of A, B, C; [fromcp] every (I, J, K) x R x weight "
            "class x every kind assignment of B's columns (incl. duplicated column); [padtt] every TT / TR / TT-matrix rank "
            "vector x n_padding x boundary option x input form; [svdcomp] PARAFAC2 data (I, K, R, heights, A-pattern) x every "
            "max_rank >= slice rank (and None) x {0, small threshold}; [cpperm] CP x every column permutation x every scaling "
            "in {1,-1,2,-2,1/2}^R x {single, list}. A case is one lattice point; the option loops run inside it and are counted "
            "as evaluations. Non-trivial: the transform has something to do (a column norm != 1, a sign to flip, a non-identity "
            "operand / permutation / scaling, a rank actually enlarged, a slice actually compressed).")
    assumptions = [
        "dense references: explicit python loops (vmc/ref/c04_ref.py, vmc/ref/core.py); numpy.linalg.svd trusted for the slice ranks / singular-value gaps of [svdcomp]",
        "integer-valued float64 inputs; exact comparison (==) for cp_flip_sign, mode products and zero padding",
        "tolerance ladder: 1e-12 * scale for normalisations (one sqrt / division per entry), 1e-9 * scale for QR / SVD based transforms; scale = sum of the absolute rank-one terms of the input (>= 1)",
        "exceptions on inputs outside the transforms' domain are counted (guarded_out:*), not reported: weights=None raw tuple passed to cp_flip_sign, contraction to an order-0 CP tensor or to a Tucker tensor with < 2 factors, from_CPTensor with fewer rows than components",
        "input mutation (copy=False, in-place list updates) is not judged here (C15)",
    ]

    # ------------------------------------------------------------------ groups / cases
    def groups(self, tier, seed):
        gs = []
        for shape, R, budget in cpcanon_space(tier):
            npat = len(cp_patterns(tuple(shape), R, budget))
            for w in R4.wclasses_for(R):
                for lo, hi in _chunks(npat, CHUNK if tier == "quick" else 4 * CHUNK):
                    gs.append({"fam": "cpcanon", "shape": list(shape), "R": R, "budget": budget, "w": w, "lo": lo, "hi": hi})
        for fam in FAMILIES:
            gs.extend(FAMILIES[fam]["groups"](tier))
        return gs

    def cases(self, group, tier, seed):
        fam = group["fam"]
        if fam == "cpcanon":
            shape = tuple(group["shape"])
            pats = cp_patterns(shape, group["R"], group["budget"])
            for i in range(group["lo"], group["hi"]):
                yield {"fam": fam, "shape": list(shape), "R": group["R"], "pattern": pats[i], "w": group["w"], "seed": seed}
        else:
            yield from FAMILIES[fam]["cases"](group, tier, seed)

    def run_case(self, case, ctx):
        fam = case["fam"]
        if fam == "cpcanon":
            run_cpcanon(case, ctx)
        else:
            FAMILIES[fam]["run"](case, ctx)
        ctx.evaluations -= 1  # begin() counted the case; the option loops count the calls


FAMILIES = {}


def scale_of_cp(w, facs):
    R = facs[0].shape[1]
    ww = [1.0] * R if w is None else [abs(float(x)) for x in w]
    tot = 0.0
    for r in range(R):
        v = ww[r]
        for f in facs:
            v *= float(np.abs(f[:, r]).max()) if f.shape[0] else 0.0
        tot += v
    return max(1.0, tot)


def well_formed_cp(out):
    """(weights, factors) as numpy arrays if `out` is a structurally sound CP tensor, else a string saying why not."""
    try:
        w, facs = out
        facs = [np.asarray(f) for f in facs]
    except Exception as e:
        return f"not unpackable: {type(e).__name__}: {e}"
    if not facs:
        return "no factors"
    if any(f.ndim != 2 for f in facs):
        return f"factor ndims {[f.ndim for f in facs]}"
    R = facs[0].shape[1]
    if any(f.shape[1] != R for f in facs):
        return f"factor shapes {[f.shape for f in facs]}"
    if w is not None:
        w = np.asarray(w)
        if w.shape != (R,):
            return f"weights shape {w.shape} for rank {R}"
    return w, facs


# ------------------------------------------------------------------------------------------ family: cpcanon
def run_cpcanon(case, ctx):
    import tensorly as tl
    from tensorly.cp_tensor import CPTensor, cp_flip_sign, cp_normalize

    shape, R, pattern, wclass, seed = tuple(case["shape"]), case["R"], case["pattern"], case["w"], case["seed"]
    n = len(shape)
    w0, f0 = build_cp(shape, R, pattern, wclass, seed)
    dense0 = R4.cp_dense(w0, f0)
    scale = scale_of_cp(w0, f0)
    wv = [1.0] * R if w0 is None else [float(x) for x in w0]
    norms0 = [R4.colnorms(f) for f in f0]
    zero_comp = [wv[r] == 0 or any(norms0[k][r] == 0 for k in range(n)) for r in range(R)]
    label = f"shape={shape} R={R} pattern={pattern} weights={None if w0 is None else w0.tolist()} factors={[f.tolist() for f in f0]}"
    wtag = "weights-" + wclass

    def fresh(as_tuple=False):
        facs = [f.copy() for f in f0]
        w = None if w0 is None else w0.copy()
        return (w, facs) if as_tuple else CPTensor((w, facs))

    # ---- normalisation ---------------------------------------------------------------------
    needs_norm = any(abs(norms0[k][r] - 1) > 1e-9 for k in range(n) for r in range(R)) or any(x != 1 for x in wv)
    forms = [("cp_normalize", "object"), ("CPTensor.normalize", "object")]
    if w0 is None:
        forms.append(("cp_normalize", "tuple"))
    for site, form in forms:
        ctx.evaluations += 1
        ctx.count("calls:" + site)
        try:
            if site == "cp_normalize":
                out = cp_normalize(fresh(form == "tuple"))
            else:
                out = fresh()
                out.normalize()
        except Exception as e:
            ctx.violation(f"{site}/raises/{wtag}", f"{label}: {type(e).__name__}: {e}")
            continue
        if needs_norm:
            ctx.nontriv([case, site, form])
        wf = well_formed_cp(out)
        if isinstance(wf, str):
            ctx.violation(f"{site}/malformed-result", f"{label}: {wf}")
            continue
        w1, f1 = wf
        cls = "zero-component" if any(zero_comp) else "regular"
        ctx.outcome(f"normalize:{cls}")
        err = R4.maxdiff(R4.cp_dense(w1, f1), dense0)
        if err > TOL12 * scale:
            ctx.violation(f"{site}/dense-changed/{cls}", f"{label}: reconstruction moved by {err!r} (scale {scale}); out weights={None if w1 is None else w1.tolist()} factors={[f.tolist() for f in f1]}")
            continue
        w1v = [1.0] * R if w1 is None else [float(x) for x in w1]
        for k in range(n):
            nk = R4.colnorms(f1[k])
            for r in range(R):
                unit = abs(nk[r] - 1.0) <= TOL12 * 10
                if unit or (zero_comp[r] and nk[r] == 0.0):
                    continue
                ctx.violation(f"{site}/column-not-unit-norm/{'zero-component' if zero_comp[r] else 'regular'}",
                              f"{label}: output factor {k} column {r} has norm {nk[r]!r}")
        for r in range(R):
            if zero_comp[r]:
                continue
            exp = abs(wv[r])
            for k in range(n):
                exp *= norms0[k][r]
            if abs(abs(w1v[r]) - exp) > TOL12 * max(1.0, exp):
                ctx.violation(f"{site}/scale-not-in-weights/{wtag}", f"{label}: |weights[{r}]| = {abs(w1v[r])!r}, expected |w|*prod(column norms) = {exp!r}")

    # ---- sign flip ---------------------------------------------------------------------------
    sums0 = [[float(sum(f0[k][:, r].tolist())) for r in range(R)] for k in range(n)]
    for mode in range(n):
        to_flip = any(sums0[k][r] < 0 for k in range(n) if k != mode for r in range(R)) or any(x < 0 for x in wv)
        zero_mean_hit = any(sums0[k][r] == 0 and norms0[k][r] != 0 and not zero_comp[r] for k in range(n) if k != mode for r in range(R))
        icls = "zero-mean-column" if zero_mean_hit else ("negative-weights" if any(x < 0 for x in wv) else
                                                           "negative-columns" if to_flip else "nothing-to-flip")
        for fname, as_tuple in itertools.product(("mean", "sum"), (False, True) if w0 is None else (False,)):
            func = None if fname == "mean" else tl.sum
            ctx.evaluations += 1
            ctx.count("calls:cp_flip_sign")
            opts = f"mode={mode} func={fname} input={'tuple' if as_tuple else 'CPTensor'}"
            try:
                out = cp_flip_sign(fresh(as_tuple), mode=mode, func=func)
            except Exception as e:
                if as_tuple and isinstance(e, TypeError):
                    ctx.count("guarded_out:cp_flip_sign-weights-None-tuple-TypeError")
                    ctx.outcome("flip:raised-on-None-weights-tuple")
                    continue
                ctx.violation(f"cp_flip_sign/raises/{wtag}", f"{label} {opts}: {type(e).__name__}: {e}")
                continue
            wf = well_formed_cp(out)
            if isinstance(wf, str):
                ctx.violation("cp_flip_sign/malformed-result", f"{label} {opts}: {wf}")
                continue
            w1, f1 = wf
            if to_flip or zero_mean_hit:
                ctx.nontriv([case, "flip", mode, fname, as_tuple])
            ctx.outcome("flip:" + icls)
            dense1 = R4.cp_dense(w1, f1)
            if not (dense1.shape == dense0.shape and np.array_equal(dense1, dense0)):
                ctx.violation(f"cp_flip_sign/dense-changed/{icls}",
                              f"{label} {opts}: dense before={dense0.tolist()} after={dense1.tolist()}; out weights={None if w1 is None else w1.tolist()} factors={[f.tolist() for f in f1]}")
            if w1 is not None and any(float(x) < 0 for x in w1):
                ctx.violation(f"cp_flip_sign/weights-negative/{wtag}", f"{label} {opts}: output weights {w1.tolist()}")
            for k in range(n):
                if k == mode:
                    continue
                for r in range(R):
                    s = float(sum(f1[k][:, r].tolist()))
                    if not s >= 0:
                        ctx.violation(f"cp_flip_sign/summary-negative/{icls}", f"{label} {opts}: {fname} of output factor {k} column {r} is {s!r} (< 0)")
    if len(ctx.samples) < 1 and R >= 2 and "M" in "".join(pattern):
        ctx.sample({"case": case, "dense": dense0.tolist()})


# ------------------------------------------------------------------------------------------ families: cpmdot / tkmdot
def mdot_shapes(tier, kind):
    if kind == "cp":
        orders = (1, 2, 3) if tier == "quick" else (1, 2, 3, 4)
        return [s for n in orders for s in itertools.product((1, 2, 3), repeat=n)]
    out = [s for n in (2, 3) for s in itertools.product((1, 2, 3), repeat=n)]
    if tier != "quick":
        out += list(itertools.product((1, 2), repeat=4))
    return out


def tk_ranks(shape, tier):
    vals = (1, 2) if tier == "quick" or len(shape) == 4 else (1, 2, 3)
    return list(itertools.product(vals, repeat=len(shape)))


OPERANDS = ["mat1", "matJ", "vec"]
MDOT_W = ["ones", "negative", "mixed", "zero"]


def operand(kind, I, off):
    if kind == "vec":
        return V.ints((I,), off, 2, nonzero=True)
    J = 1 if kind == "mat1" else I + 1
    return V.ints((J, I), off + 3, 2)


def cpmdot_groups(tier):
    return [{"fam": "cpmdot", "shape": list(s)} for s in mdot_shapes(tier, "cp")]


def cpmdot_cases(group, tier, seed):
    shape = group["shape"]
    for R in (1, 2, 3):
        for w in MDOT_W:
            if R == 1 and w == "mixed":
                continue
            for zc in (False, True):
                for mode in range(len(shape)):
                    for op in OPERANDS:
                        yield {"fam": "cpmdot", "shape": shape, "R": R, "w": w, "zerocol": zc, "mode": mode, "op": op, "seed": seed}


def tkmdot_groups(tier):
    return [{"fam": "tkmdot", "shape": list(s)} for s in mdot_shapes(tier, "tk")]


def tkmdot_cases(group, tier, seed):
    shape = group["shape"]
    for ranks in tk_ranks(shape, tier):
        for mode in range(len(shape)):
            for op in OPERANDS:
                yield {"fam": "tkmdot", "shape": shape, "ranks": list(ranks), "mode": mode, "op": op, "seed": seed}


def _mdot_expected(dense0, M, mode, keep_dim):
    """Reference mode product; a vector contracts the mode away unless keep_dim (then the mode has size 1)."""
    if M.ndim == 1 and keep_dim:
        return R4.mode_dot(dense0, M.reshape(1, -1), mode)
    return R4.mode_dot(dense0, M, mode)


def run_mdot(case, ctx):
    from tensorly.cp_tensor import CPTensor, cp_mode_dot
    from tensorly.tucker_tensor import TuckerTensor, tucker_mode_dot

    is_cp = case["fam"] == "cpmdot"
    site = "cp_mode_dot" if is_cp else "tucker_mode_dot"
    shape, mode, op, seed = tuple(case["shape"]), case["mode"], case["op"], case["seed"]
    n = len(shape)
    if is_cp:
        R = case["R"]
        f0 = [V.ints((s, R), seed * 13 + k * 5 + 2, 2, nonzero=True) for k, s in enumerate(shape)]
        if case["zerocol"]:
            f0[(mode + 1) % n][:, R - 1] = 0
        w0 = R4.weights(case["w"], R, seed * 7 + 1)
        dense0 = R4.cp_dense(w0, f0)
        desc = f"CP shape={shape} R={R} weights={w0.tolist()} factors={[f.tolist() for f in f0]}"
    else:
        ranks = tuple(case["ranks"])
        f0 = [V.ints((s, r), seed * 13 + k * 5 + 2, 2, nonzero=True) for k, (s, r) in enumerate(zip(shape, ranks))]
        core0 = V.ints(ranks, seed * 3 + 4, 3)
        dense0 = R4.tucker_dense(core0, f0)
        desc = f"Tucker shape={shape} ranks={ranks} core={core0.tolist()} factors={[f.tolist() for f in f0]}"
    M = operand(op, shape[mode], seed * 5 + mode)

    def fresh():
        if is_cp:
            return CPTensor((w0.copy(), [f.copy() for f in f0]))
        return TuckerTensor((core0.copy(), [f.copy() for f in f0]))

    for keep_dim in (False, True):
        contract = op == "vec" and not keep_dim
        expected = _mdot_expected(dense0, M, mode, keep_dim)
        for copy in (False, True):
            for api in ("function", "method"):
                ctx.evaluations += 1
                ctx.count(f"calls:{site}")
                opts = f"mode={mode} operand={op}{M.tolist()} keep_dim={keep_dim} copy={copy} api={api}"
                vk = op == "vec" and keep_dim
                icls = "vector-keep_dim" if vk else ("vector-contract" if contract else "matrix")
                t = fresh()
                try:
                    with _quiet():
                        if api == "function":
                            out = (cp_mode_dot if is_cp else tucker_mode_dot)(t, M.copy(), mode, keep_dim=keep_dim, copy=copy)
                        else:
                            out = t.mode_dot(M.copy(), mode, keep_dim=keep_dim, copy=copy)
                except Exception as e:
                    if contract and is_cp and n == 1:
                        ctx.count("guarded_out:cp_mode_dot-contraction-to-order-0")
                        ctx.outcome("mdot:guarded-order-0")
                        continue
                    if contract and not is_cp and n == 2 and isinstance(e, ValueError):
                        ctx.count("guarded_out:tucker_mode_dot-contraction-leaves-one-factor")
                        ctx.outcome("mdot:guarded-one-factor")
                        continue
                    if vk and isinstance(e, (ValueError, IndexError)):
                        # the wrapper constructor rejects the 1-D factor that keep_dim=True produces for a vector operand
                        ctx.outcome("mdot:vector-keep_dim-raises")
                        ctx.violation(f"{site}/vector-keep_dim/1d-factor", f"{desc} {opts}: {type(e).__name__}: {e}")
                    else:
                        ctx.violation(f"{site}/raises/{icls}", f"{desc} {opts}: {type(e).__name__}: {e}")
                    continue
                ctx.nontriv([case, keep_dim, copy, api])
                raw1d = False
                if copy:
                    # copy=True: the factorised input must still represent the tensor it represented (a caller goes on using it)
                    try:
                        tin = R4.cp_dense(np.asarray(t[0]), [np.asarray(f) for f in t[1]]) if is_cp else R4.tucker_dense(np.asarray(t[0]), [np.asarray(f) for f in t[1]])
                        same = tin.shape == dense0.shape and np.array_equal(tin, dense0)
                    except Exception:
                        same = False
                    if not same:
                        ctx.violation(f"{site}/input-tensor-changed-although-copy=True/{icls}", f"{desc} {opts}: after the call the input decomposition no longer represents its tensor")

                def sig(aspect):
                    return f"{site}/vector-keep_dim/1d-factor" if (vk and raw1d) else f"{site}/{aspect}/{icls}"

                # structural soundness of the result
                try:
                    a, facs = out
                    facs = [np.asarray(f) for f in facs]
                    a = np.asarray(a)
                    raw1d = any(f.ndim == 1 for f in facs)
                    if is_cp:  # tensorly accepts a 1-D factor as a single column (rank-1 CP tensor)
                        facs = [f.reshape(-1, 1) if f.ndim == 1 else f for f in facs]
                    bad = [f.ndim for f in facs if f.ndim != 2]
                    if is_cp and not bad and len({f.shape[1] for f in facs}) > 1:
                        bad = ["column counts differ"]
                except Exception as e:
                    ctx.violation(sig("malformed-result"), f"{desc} {opts}: {type(e).__name__}: {e}")
                    continue
                if bad:
                    ctx.outcome("mdot:malformed-factors")
                    ctx.violation(sig("malformed-result"), f"{desc} {opts}: result factor shapes {[np.shape(f) for f in out[1]]}, .shape={getattr(out, 'shape', None)}")
                    continue
                try:
                    got = R4.cp_dense(a, facs) if is_cp else R4.tucker_dense(a, facs)
                except Exception as e:
                    ctx.violation(sig("malformed-result"), f"{desc} {opts}: factors do not form a tensor: {type(e).__name__}: {e}; shapes {[f.shape for f in facs]} / {a.shape}")
                    continue
                ctx.outcome("mdot:" + icls)
                if not (got.shape == expected.shape and np.array_equal(got, expected)):
                    ctx.violation(sig("factors-wrong"), f"{desc} {opts}: factors {[np.shape(f) for f in out[1]]} represent {got.tolist()}, mode product of the dense tensor is {expected.tolist()}")
                    continue
                # what the library itself reconstructs from the returned object (stored shape is used for folding)
                try:
                    lib = np.asarray(out.to_tensor())
                except Exception as e:
                    ctx.violation(sig("result-to_tensor-raises"), f"{desc} {opts}: result factor shapes {[np.shape(f) for f in out[1]]}: to_tensor(): {type(e).__name__}: {e}")
                    continue
                if not (lib.shape == expected.shape and np.array_equal(lib, expected)):
                    ctx.violation(sig("result-to_tensor-wrong"), f"{desc} {opts}: to_tensor() gives shape {lib.shape} {lib.tolist()}, expected {expected.tolist()}; .shape={getattr(out, 'shape', None)}")
    if not ctx.samples and n == 3 and op == "vec":
        ctx.sample({"case": case, "operand": M.tolist(), "dense_in": dense0.tolist()})


FAMILIES["cpmdot"] = {"groups": cpmdot_groups, "cases": cpmdot_cases, "run": run_mdot}
FAMILIES["tkmdot"] = {"groups": tkmdot_groups, "cases": tkmdot_cases, "run": run_mdot}


# ------------------------------------------------------------------------------------------ family: mdotchain (HX: histories on ONE object)
# Every sequence of mode products (mode x {1-row, (I+1)-row} matrix x copy x function/method) of length 2 (thorough: 3) applied to one
# factorised-tensor object: each step continues on the object the previous step returned and - after a copy=False step, which updates
# its argument in place - also on the object that was passed in.  Every intermediate object must represent the mode product of what
# its predecessor represented (sizes change at every step, so any attribute cached at construction goes stale).
def mdotchain_groups(tier):
    shapes = [(2, 3), (3, 2, 2)] if tier == "quick" else [(2, 3), (3, 2, 2), (2, 2, 3), (1, 3, 2)]
    return [{"fam": "mdotchain", "kind": k, "shape": list(s), "len": 2 if (tier == "quick" or len(s) == 3 and k == "cp") else 3}
            for k in ("cp", "tk") for s in shapes]


def _chain_steps(n):
    return [(mode, op, copy, api) for mode in range(n) for op in ("mat1", "matJ") for copy in (False, True) for api in ("function", "method")]


def mdotchain_cases(group, tier, seed):
    n = len(group["shape"])
    steps = _chain_steps(n)
    for seq in itertools.product(range(len(steps)), repeat=group["len"]):
        # follow[j] = 1: after step j (which must be a copy=False step) the caller goes on with the object it passed in
        for follow in itertools.product((0, 1), repeat=group["len"] - 1):
            if any(f and steps[seq[j]][2] for j, f in enumerate(follow)):
                continue
            yield {"fam": "mdotchain", "kind": group["kind"], "shape": group["shape"], "seq": list(seq), "follow": list(follow), "seed": seed}


def run_mdotchain(case, ctx):
    from tensorly.cp_tensor import CPTensor, cp_mode_dot
    from tensorly.tucker_tensor import TuckerTensor, tucker_mode_dot

    is_cp = case["kind"] == "cp"
    site = "cp_mode_dot" if is_cp else "tucker_mode_dot"
    shape, seed = tuple(case["shape"]), case["seed"]
    n = len(shape)
    steps = _chain_steps(n)
    if is_cp:
        f0 = [V.ints((s, 2), seed * 13 + k * 5 + 2, 2, nonzero=True) for k, s in enumerate(shape)]
        w0 = R4.weights("mixed", 2, seed * 7 + 1)
        o = CPTensor((w0.copy(), [f.copy() for f in f0]))
        d = R4.cp_dense(w0, f0)
    else:
        ranks = tuple(min(2, s) for s in shape)
        f0 = [V.ints((s, r), seed * 13 + k * 5 + 2, 2, nonzero=True) for k, (s, r) in enumerate(zip(shape, ranks))]
        core0 = V.ints(ranks, seed * 3 + 4, 3)
        o = TuckerTensor((core0.copy(), [np.array(f) for f in f0]))
        d = R4.tucker_dense(core0, f0)

    def represented(x):
        a, facs = x
        facs = [np.asarray(f) for f in facs]
        return R4.cp_dense(np.asarray(a), facs) if is_cp else R4.tucker_dense(np.asarray(a), facs)

    hist, how = [], "start"
    for depth, si in enumerate(case["seq"]):
        mode, op, copy, api = steps[si]
        hist.append(f"{api}(mode={mode},{op},copy={copy})")
        M = operand(op, d.shape[mode], seed * 5 + mode + depth)
        expected = R4.mode_dot(d, M, mode)
        ctx.evaluations += 1
        ctx.count(f"calls:{site}:chain")
        label = f"{'CP' if is_cp else 'Tucker'} shape={shape} history {hist} (step {depth + 1} called on the {how}); operand {M.tolist()}"
        try:
            with _quiet():
                out = (cp_mode_dot if is_cp else tucker_mode_dot)(o, M.copy(), mode, copy=copy) if api == "function" else o.mode_dot(M.copy(), mode, copy=copy)
            got = represented(out)
        except Exception as e:
            ctx.violation(f"{site}/chain/raises/step{depth + 1}", f"{label}: {type(e).__name__}: {e}")
            return
        if not (got.shape == expected.shape and np.array_equal(got, expected)):
            ctx.violation(f"{site}/chain/factors-wrong/step{depth + 1}", f"{label}: result represents {got.tolist()}, expected {expected.tolist()}")
            return
        try:
            lib = np.asarray(out.to_tensor())
            ok = lib.shape == expected.shape and np.array_equal(lib, expected)
        except Exception as e:
            ok, lib = False, f"{type(e).__name__}: {e}"
        if not ok:
            ctx.violation(f"{site}/chain/result-to_tensor-wrong/step{depth + 1}", f"{label}: to_tensor() of the returned object gives {getattr(lib, 'tolist', lambda: lib)()}, expected {expected.tolist()}")
            return
        if depth < len(case["follow"]) and case["follow"][depth]:
            # copy=False updates its argument in place: if the argument now represents the product, the caller may go on with it
            try:
                same = np.array_equal(represented(o), expected)
            except Exception:
                same = False
            if not same or out is o:
                ctx.outcome("mdotchain:argument-not-a-separate-updated-object")
                ctx.count("guarded_out:mdotchain-argument-not-updated-in-place")
                return
            how = "argument updated in place"
        else:
            o, how = out, "returned object"
        d = expected
    ctx.nontriv()
    ctx.outcome("mdotchain:complete-" + ("with-in-place-continuation" if any(case["follow"]) else "on-returned-objects"))


FAMILIES["mdotchain"] = {"groups": mdotchain_groups, "cases": mdotchain_cases, "run": run_mdotchain}


# ------------------------------------------------------------------------------------------ family: tknorm
def tknorm_space(tier):
    if tier == "quick":
        return [((2, 3), (1, 2)), ((3, 2), (2, 2)), ((2, 1), (2, 1)), ((2, 3, 2), (1, 2, 1)), ((3, 2, 2), (2, 2, 2)), ((2, 2, 3), (2, 1, 3))]
    return [((2, 3), (1, 2)), ((3, 2), (2, 2)), ((2, 1), (2, 1)), ((3, 3), (3, 3)), ((2, 3, 2), (1, 2, 1)), ((3, 2, 2), (2, 2, 2)),
            ((2, 2, 3), (2, 1, 3)), ((3, 2, 3), (3, 2, 2)), ((2, 2, 2, 2), (2, 1, 2, 2))]


def tk_patterns(ranks):
    return [list(p) for p in itertools.product(*[["".join(q) for q in itertools.product("GZN", repeat=r)] for r in ranks])]


def tknorm_groups(tier):
    gs = []
    for shape, ranks in tknorm_space(tier):
        for lo, hi in _chunks(len(tk_patterns(ranks)), 128):
            gs.append({"fam": "tknorm", "shape": list(shape), "ranks": list(ranks), "lo": lo, "hi": hi})
    return gs


def tknorm_cases(group, tier, seed):
    pats = tk_patterns(group["ranks"])
    for i in range(group["lo"], group["hi"]):
        for coreclass in ("generic", "sparse"):
            yield {"fam": "tknorm", "shape": group["shape"], "ranks": group["ranks"], "pattern": pats[i], "core": coreclass, "seed": seed}


def run_tknorm(case, ctx):
    from tensorly.tucker_tensor import TuckerTensor, tucker_normalize

    shape, ranks, pattern, seed = tuple(case["shape"]), tuple(case["ranks"]), case["pattern"], case["seed"]
    n = len(shape)
    f0 = [R4.factor(pattern[k], shape[k], seed * 19 + k * 3 + 2) for k in range(n)]
    core0 = V.ints(ranks, seed * 3 + 1, 3, nonzero=(case["core"] == "generic"))
    dense0 = R4.tucker_dense(core0, f0)
    norms0 = [R4.colnorms(f) for f in f0]
    colmax = [[float(np.abs(f[:, r]).max()) for r in range(f.shape[1])] for f in f0]
    scale = 0.0
    for idx in itertools.product(*[range(r) for r in ranks]):
        v = abs(float(core0[idx]))
        for k in range(n):
            v *= colmax[k][idx[k]]
        scale += v
    scale = max(1.0, scale)
    label = f"shape={shape} ranks={ranks} pattern={pattern} core={core0.tolist()} factors={[f.tolist() for f in f0]}"
    has_zero = any(x == 0 for nk in norms0 for x in nk)
    cls = "zero-column" if has_zero else "regular"
    for site, form in (("tucker_normalize", "tuple"), ("tucker_normalize", "object"), ("TuckerTensor.normalize", "object")):
        ctx.evaluations += 1
        ctx.count("calls:" + site)
        arg = (core0.copy(), [f.copy() for f in f0])
        try:
            if form == "object":
                arg = TuckerTensor(arg)
            if site == "tucker_normalize":
                out = tucker_normalize(arg)
            else:
                arg.normalize()
                out = arg
            core1, f1 = out
            core1 = np.asarray(core1)
            f1 = [np.asarray(f) for f in f1]
        except Exception as e:
            ctx.violation(f"{site}/raises/{cls}", f"{label} form={form}: {type(e).__name__}: {e}")
            continue
        if any(abs(x - 1.0) > 1e-9 for nk in norms0 for x in nk):
            ctx.nontriv([case, site, form])
        ctx.outcome("tknorm:" + cls)
        if core1.shape != tuple(ranks) or [f.shape for f in f1] != [f.shape for f in f0]:
            ctx.violation(f"{site}/malformed-result", f"{label} form={form}: core {core1.shape}, factors {[f.shape for f in f1]}")
            continue
        err = R4.maxdiff(R4.tucker_dense(core1, f1), dense0)
        if err > TOL12 * scale:
            ctx.violation(f"{site}/dense-changed/{cls}", f"{label} form={form}: reconstruction moved by {err!r} (scale {scale}); core={core1.tolist()} factors={[f.tolist() for f in f1]}")
            continue
        for k in range(n):
            nk = R4.colnorms(f1[k])
            for r in range(ranks[k]):
                if abs(nk[r] - 1.0) <= TOL12 * 10 or (norms0[k][r] == 0 and nk[r] == 0.0):
                    continue
                ctx.violation(f"{site}/column-not-unit-norm/{'zero-column' if norms0[k][r] == 0 else 'regular'}",
                              f"{label} form={form}: output factor {k} column {r} has norm {nk[r]!r}")
        for idx in itertools.product(*[range(r) for r in ranks]):
            if any(norms0[k][idx[k]] == 0 for k in range(n)):
                continue  # this core entry multiplies a zero column: its value is immaterial
            exp = abs(float(core0[idx]))
            for k in range(n):
                exp *= norms0[k][idx[k]]
            if abs(abs(float(core1[idx])) - exp) > TOL12 * max(1.0, exp):
                ctx.violation(f"{site}/scale-not-in-core", f"{label} form={form}: |core{list(idx)}| = {abs(float(core1[idx]))!r}, expected {exp!r}")
                break
    if not ctx.samples and has_zero and n == 3:
        ctx.sample({"case": case, "dense": dense0.tolist()})


FAMILIES["tknorm"] = {"groups": tknorm_groups, "cases": tknorm_cases, "run": run_tknorm}


# ------------------------------------------------------------------------------------------ PARAFAC2 construction
def projection(J, R, off):
    """J x R matrix with exactly orthonormal columns: signed selection of R distinct rows of the identity."""
    assert J >= R
    rows = [(off + 2 * r + (r * r) % 3) % J for r in range(R)]
    used, sel = set(), []
    for x in rows:
        while x in used:
            x = (x + 1) % J
        used.add(x)
        sel.append(x)
    P = np.zeros((J, R))
    for r, x in enumerate(sel):
        P[x, r] = -1.0 if (off + r) % 2 else 1.0
    return P


def height_profiles(I, R, extra):
    """Slice-height vectors: all equal to R, all equal to R + extra, and one uneven profile."""
    profs = [[R] * I, [R + extra] * I, [R + (i * 2 + 1) % (extra + 1) for i in range(I)]]
    out = []
    for p in profs:
        if p not in out:
            out.append(p)
    return out


PF2_W = ["none", "positive", "mixed", "zero"]


def pf2norm_groups(tier):
    gs = []
    Is, Ks = ((2, 3), (1, 2, 3)) if tier == "quick" else ((1, 2, 3), (1, 2, 3))
    for I in Is:
        for K in Ks:
            for R in (1, 2):
                for w in PF2_W:
                    if R == 1 and w == "mixed":
                        continue
                    gs.append({"fam": "pf2norm", "I": I, "K": K, "R": R, "w": w})
    return gs


def pf2norm_cases(group, tier, seed):
    I, K, R = group["I"], group["K"], group["R"]
    kinds = "GZN"
    colpats = ["".join(p) for p in itertools.product(kinds, repeat=R)]
    for heights in height_profiles(I, R, 2):
        for pa in colpats:
            for pb in colpats:
                for pc in colpats:
                    yield {"fam": "pf2norm", "I": I, "K": K, "R": R, "w": group["w"], "heights": heights, "pattern": [pa, pb, pc], "seed": seed}


def build_pf2(I, K, R, heights, pattern, wclass, seed):
    A = R4.factor(pattern[0], I, seed * 23 + 1)
    B = R4.factor(pattern[1], R, seed * 23 + 4)
    C = R4.factor(pattern[2], K, seed * 23 + 7)
    P = [projection(h, R, seed + i) for i, h in enumerate(heights)]
    w = R4.weights(wclass, R, seed * 7 + 3)
    return w, [A, B, C], P


def run_pf2norm(case, ctx):
    from tensorly.parafac2_tensor import Parafac2Tensor, parafac2_normalise

    I, K, R, heights, pattern, seed = case["I"], case["K"], case["R"], case["heights"], case["pattern"], case["seed"]
    w0, f0, P0 = build_pf2(I, K, R, heights, pattern, case["w"], seed)
    dense0 = R4.pf2_dense(w0, f0, P0)
    wv = [1.0] * R if w0 is None else [float(x) for x in w0]
    norms0 = [R4.colnorms(f) for f in f0]
    zero_comp = [wv[r] == 0 or any(norms0[k][r] == 0 for k in range(3)) for r in range(R)]
    scale = scale_of_cp(w0, f0)
    label = f"I={I} K={K} R={R} heights={heights} pattern={pattern} weights={None if w0 is None else w0.tolist()} factors={[f.tolist() for f in f0]} projections={[p.tolist() for p in P0]}"
    cls = "zero-component" if any(zero_comp) else "regular"
    for form in ("tuple", "object"):
        ctx.evaluations += 1
        ctx.count("calls:parafac2_normalise")
        arg = (None if w0 is None else w0.copy(), [f.copy() for f in f0], [p.copy() for p in P0])
        try:
            if form == "object":
                arg = Parafac2Tensor(arg)
            out = parafac2_normalise(arg)
            w1, f1, P1 = out
            w1 = None if w1 is None else np.asarray(w1)
            f1 = [np.asarray(f) for f in f1]
            P1 = [np.asarray(p) for p in P1]
        except Exception as e:
            ctx.violation(f"parafac2_normalise/raises/{cls}", f"{label} form={form}: {type(e).__name__}: {e}")
            continue
        if any(abs(x - 1.0) > 1e-9 for nk in norms0 for x in nk) or any(x != 1 for x in wv):
            ctx.nontriv([case, form])
        ctx.outcome("pf2norm:" + cls)
        if [f.shape for f in f1] != [f.shape for f in f0] or [p.shape for p in P1] != [p.shape for p in P0] or (w1 is not None and w1.shape != (R,)):
            ctx.violation("parafac2_normalise/malformed-result", f"{label} form={form}: factors {[f.shape for f in f1]} projections {[p.shape for p in P1]}")
            continue
        err = R4.maxdiff(R4.pf2_dense(w1, f1, P1), dense0)
        if err > TOL12 * scale:
            ctx.violation(f"parafac2_normalise/dense-changed/{cls}", f"{label} form={form}: reconstruction moved by {err!r} (scale {scale}); weights={None if w1 is None else w1.tolist()} factors={[f.tolist() for f in f1]}")
            continue
        w1v = [1.0] * R if w1 is None else [float(x) for x in w1]
        for k in range(3):
            nk = R4.colnorms(f1[k])
            for r in range(R):
                if abs(nk[r] - 1.0) <= TOL12 * 10 or (zero_comp[r] and nk[r] == 0.0):
                    continue
                ctx.violation(f"parafac2_normalise/column-not-unit-norm/{'zero-component' if zero_comp[r] else 'regular'}",
                              f"{label} form={form}: output factor {k} column {r} has norm {nk[r]!r}")
        for r in range(R):
            if zero_comp[r]:
                continue
            exp = abs(wv[r]) * norms0[0][r] * norms0[1][r] * norms0[2][r]
            if abs(abs(w1v[r]) - exp) > TOL12 * max(1.0, exp):
                ctx.violation("parafac2_normalise/scale-not-in-weights", f"{label} form={form}: |weights[{r}]| = {abs(w1v[r])!r}, expected {exp!r}")
    if not ctx.samples and len(set(heights)) > 1 and R == 2:
        ctx.sample({"case": case, "dense": dense0.tolist()})


FAMILIES["pf2norm"] = {"groups": pf2norm_groups, "cases": pf2norm_cases, "run": run_pf2norm}


# ------------------------------------------------------------------------------------------ family: fromcp
def fromcp_groups(tier):
    dims = (1, 2, 3) if tier == "quick" else (1, 2, 3, 4)
    return [{"fam": "fromcp", "I": I, "J": J, "K": K} for I in (1, 2, 3) for J in dims for K in (1, 2, 3)]


def fromcp_cases(group, tier, seed):
    J = group["J"]
    for R in (1, 2, 3):
        kinds = kinds_for(J) + ("D" if R >= 2 else "")  # D: duplicate (collinear copy) of the previous column
        for pb in itertools.product(kinds, repeat=R):
            if pb[0] == "D":
                continue
            for w in ("none", "positive", "mixed", "zero"):
                if R == 1 and w == "mixed":
                    continue
                yield {"fam": "fromcp", "I": group["I"], "J": J, "K": group["K"], "R": R, "pb": "".join(pb), "w": w, "seed": seed}


def run_fromcp(case, ctx):
    from tensorly.cp_tensor import CPTensor
    from tensorly.parafac2_tensor import Parafac2Tensor

    I, J, K, R, pb, seed = case["I"], case["J"], case["K"], case["R"], case["pb"], case["seed"]
    A = V.ints((I, R), seed * 11 + 1, 3, nonzero=True)
    C = V.ints((K, R), seed * 11 + 5, 3, nonzero=True)
    B = R4.factor(pb.replace("D", "G"), J, seed * 11 + 9)
    for r, k in enumerate(pb):
        if k == "D":
            B[:, r] = -2 * B[:, r - 1]
    w0 = R4.weights(case["w"], R, seed * 7 + 4)
    dense0 = R4.cp_dense(w0, [A, B, C])
    scale = scale_of_cp(w0, [A, B, C])
    label = f"shape={(I, J, K)} R={R} B-columns={pb} weights={None if w0 is None else w0.tolist()} A={A.tolist()} B={B.tolist()} C={C.tolist()}"
    rankB = int(np.linalg.matrix_rank(B)) if B.size else 0
    cls = "B-full-column-rank" if rankB == R else "B-rank-deficient"
    for form in ("tuple", "object"):
        ctx.evaluations += 1
        ctx.count("calls:Parafac2Tensor.from_CPTensor")
        arg = (None if w0 is None else w0.copy(), [A.copy(), B.copy(), C.copy()])
        try:
            if form == "object":
                arg = CPTensor(arg)
            out = Parafac2Tensor.from_CPTensor(arg)
        except Exception as e:
            if J < R and isinstance(e, ValueError):
                ctx.count("guarded_out:from_CPTensor-fewer-rows-than-components")
                ctx.outcome("fromcp:guarded-J<R")
                continue
            ctx.violation(f"Parafac2Tensor.from_CPTensor/raises/{cls}", f"{label} form={form}: {type(e).__name__}: {e}")
            continue
        ctx.nontriv([case, form])
        ctx.outcome("fromcp:" + cls)
        try:
            w1, f1, P1 = out
            f1 = [np.asarray(f) for f in f1]
            P1 = [np.asarray(p) for p in P1]
            ok = len(f1) == 3 and len(P1) == I and all(p.shape == (J, R) for p in P1) and f1[1].shape == (R, R)
        except Exception as e:
            ok = False
        if not ok:
            ctx.violation("Parafac2Tensor.from_CPTensor/malformed-result", f"{label} form={form}: result {out!r}")
            continue
        worst = max(R4.maxdiff(p.T @ p, np.eye(R)) for p in P1)
        if worst > TOL9:
            ctx.violation(f"Parafac2Tensor.from_CPTensor/projection-not-orthonormal/{cls}", f"{label} form={form}: max |P^T P - I| = {worst!r}")
        err = R4.maxdiff(R4.pf2_dense(w1, f1, P1), dense0)
        if err > TOL9 * scale:
            ctx.violation(f"Parafac2Tensor.from_CPTensor/dense-changed/{cls}", f"{label} form={form}: PARAFAC2 reconstruction differs from the CP tensor by {err!r} (scale {scale})")
        # a PARAFAC2 tensor passed with parafac2_tensor_ok=True is taken as is
        if form == "object":
            ctx.evaluations += 1
            try:
                again = Parafac2Tensor.from_CPTensor(out, parafac2_tensor_ok=True)
                err2 = R4.maxdiff(R4.pf2_dense(again[0], [np.asarray(f) for f in again[1]], [np.asarray(p) for p in again[2]]), dense0)
                if err2 > TOL9 * scale:
                    ctx.violation("Parafac2Tensor.from_CPTensor/dense-changed/parafac2-input", f"{label}: differs by {err2!r}")
            except Exception as e:
                ctx.violation("Parafac2Tensor.from_CPTensor/raises/parafac2-input", f"{label}: {type(e).__name__}: {e}")
    if not ctx.samples and R == 2 and J == 3:
        ctx.sample({"case": case, "dense": dense0.tolist()})


FAMILIES["fromcp"] = {"groups": fromcp_groups, "cases": fromcp_cases, "run": run_fromcp}


# ------------------------------------------------------------------------------------------ family: padtt
def padtt_groups(tier):
    gs = []
    rv = (1, 2) if tier == "quick" else (1, 2, 3)
    for order in ((1, 2, 3) if tier == "quick" else (1, 2, 3, 4)):
        for ranks in itertools.product(rv, repeat=order - 1):
            gs.append({"fam": "padtt", "kind": "tt", "ranks": [1] + list(ranks) + [1]})
    for order in ((2, 3) if tier == "quick" else (2, 3, 4)):
        for ranks in itertools.product(rv, repeat=order):
            gs.append({"fam": "padtt", "kind": "tr", "ranks": list(ranks) + [ranks[0]]})
    for order in (1, 2, 3):
        for ranks in itertools.product((1, 2), repeat=order - 1):
            gs.append({"fam": "padtt", "kind": "ttm", "ranks": [1] + list(ranks) + [1]})
    return gs


def padtt_cases(group, tier, seed):
    kind, ranks = group["kind"], group["ranks"]
    order = len(ranks) - 1
    dimsets = list(itertools.product((1, 2), repeat=order)) if order >= 4 else list(itertools.product((1, 2, 3), repeat=order))
    for dims in dimsets:
        for npad in (1, 2):
            for pb in ((False,) if kind != "tr" else (False, True)):
                yield {"fam": "padtt", "kind": kind, "ranks": ranks, "dims": list(dims), "n_padding": npad, "pad_boundaries": pb, "seed": seed}


def run_padtt(case, ctx):
    from tensorly.tr_tensor import TRTensor
    from tensorly.tt_matrix import TTMatrix
    from tensorly.tt_tensor import TTTensor, pad_tt_rank

    kind, ranks, dims, npad, pb, seed = case["kind"], case["ranks"], case["dims"], case["n_padding"], case["pad_boundaries"], case["seed"]
    order = len(dims)
    if kind == "ttm":
        cores = [V.ints((ranks[k], dims[k], dims[k] % 2 + 1, ranks[k + 1]), seed * 5 + k * 3 + 1, 2, nonzero=True) for k in range(order)]
    else:
        cores = [V.ints((ranks[k], dims[k], ranks[k + 1]), seed * 5 + k * 3 + 1, 2, nonzero=True) for k in range(order)]
    closed = kind == "tr"
    dense0 = R4.chain_dense(cores, closed)
    wrapper = {"tt": TTTensor, "tr": TRTensor, "ttm": TTMatrix}[kind]
    label = f"{kind} ranks={ranks} dims={dims} n_padding={npad} pad_boundaries={pb} cores={[c.tolist() for c in cores]}"
    icls = "order-1" if order == 1 else kind  # a single core is both first and last: one input class for TT and TT-matrix
    for form in ("list", "object"):
        ctx.evaluations += 1
        ctx.count("calls:pad_tt_rank")
        arg = [c.copy() for c in cores]
        try:
            if form == "object":
                arg = wrapper(arg)
            out = pad_tt_rank(arg, n_padding=npad, pad_boundaries=pb)
            out = [np.asarray(c) for c in out]
        except Exception as e:
            ctx.violation(f"pad_tt_rank/raises/{icls}", f"{label} form={form}: {type(e).__name__}: {e}")
            continue
        ctx.nontriv([case, form])
        ctx.outcome(f"padtt:{icls}:{'boundaries' if pb else 'interior'}")
        exp_ranks = [r + (npad if (pb or 0 < k < order) else 0) for k, r in enumerate(ranks)]
        got_ranks = [c.shape[0] for c in out] + [out[-1].shape[-1]] if out else []
        shapes_ok = len(out) == order and all(c.ndim == cores[k].ndim and c.shape[1:-1] == cores[k].shape[1:-1] for k, c in enumerate(out))
        if not shapes_ok:
            ctx.violation(f"pad_tt_rank/malformed-result/{icls}", f"{label} form={form}: core shapes {[c.shape for c in out]}")
            continue
        if got_ranks != exp_ranks or any(out[k].shape[-1] != out[k + 1].shape[0] for k in range(order - 1)):
            aspect = "boundary-rank-changed" if (not pb and (got_ranks[0] != ranks[0] or got_ranks[-1] != ranks[-1])) else "ranks-not-enlarged"
            ctx.violation(f"pad_tt_rank/{aspect}/{icls}", f"{label} form={form}: core shapes {[c.shape for c in out]} give ranks {got_ranks}, expected {exp_ranks}")
            continue
        for k, c in enumerate(out):
            r1, r2 = cores[k].shape[0], cores[k].shape[-1]
            block = c[(slice(0, r1),) + (slice(None),) * (c.ndim - 2) + (slice(0, r2),)]
            rest = c.copy()
            rest[(slice(0, r1),) + (slice(None),) * (c.ndim - 2) + (slice(0, r2),)] = 0
            if not np.array_equal(block, cores[k]) or np.any(rest != 0):
                ctx.violation(f"pad_tt_rank/not-zero-padded-embedding/{icls}", f"{label} form={form}: core {k} = {c.tolist()}")
        dense1 = R4.chain_dense(out, closed)
        if not (dense1.shape == dense0.shape and np.array_equal(dense1, dense0)):
            ctx.violation(f"pad_tt_rank/dense-changed/{icls}", f"{label} form={form}: before {dense0.tolist()} after {dense1.tolist()}")
        try:
            wrapper(out)
        except Exception as e:
            ctx.violation(f"pad_tt_rank/result-rejected-by-wrapper/{icls}", f"{label} form={form}: {wrapper.__name__}(result): {type(e).__name__}: {e}")
    if not ctx.samples and order == 3 and kind == "tr":
        ctx.sample({"case": case, "dense": dense0.tolist()})


FAMILIES["padtt"] = {"groups": padtt_groups, "cases": padtt_cases, "run": run_padtt}


# ------------------------------------------------------------------------------------------ family: svdcomp
def svdcomp_groups(tier):
    gs = []
    for I in ((1, 2, 3) if tier != "quick" else (2, 3)):
        for K in (2, 3):
            for R in (1, 2):
                if R > K:
                    continue
                for apat in ("full", "zero-entry", "zero-row", "zero-column"):
                    gs.append({"fam": "svdcomp", "I": I, "K": K, "R": R, "apat": apat})
    return gs


def svdcomp_cases(group, tier, seed):
    I, K, R = group["I"], group["K"], group["R"]
    extra = 3 if tier == "quick" else 4
    profs = height_profiles(I, R, extra) + [[R + 1 + (i % 2) for i in range(I)]]
    seen = []
    for heights in profs:
        if heights in seen:
            continue
        seen.append(heights)
        for w in ("none", "mixed" if R > 1 else "negative"):
            for max_rank in [None] + list(range(1, K + 2)):
                for thr in ("zero", "small"):
                    yield {"fam": "svdcomp", "I": I, "K": K, "R": R, "apat": group["apat"], "heights": heights, "w": w,
                           "max_rank": max_rank, "threshold": thr, "seed": seed}


def run_svdcomp(case, ctx):
    from tensorly.parafac2_tensor import Parafac2Tensor
    from tensorly.preprocessing import svd_compress_tensor_slices, svd_decompress_parafac2_tensor

    I, K, R, heights, seed = case["I"], case["K"], case["R"], case["heights"], case["seed"]
    A = V.ints((I, R), seed * 11 + 2, 3, nonzero=True)
    if case["apat"] == "zero-entry":
        A[I - 1, 0] = 0
    elif case["apat"] == "zero-row":
        A[0, :] = 0
    elif case["apat"] == "zero-column":
        A[:, R - 1] = 0
    B = V.ints((R, R), seed * 11 + 6, 2, nonzero=True)
    if R == 2 and B[0, 0] * B[1, 1] == B[0, 1] * B[1, 0]:
        B[0, 0] += 3
    C = V.ints((K, R), seed * 11 + 8, 3, nonzero=True)
    if R == 2 and int(np.linalg.matrix_rank(C)) < 2:
        C[0, 0] += 5
    P = [projection(h, R, seed + i) for i, h in enumerate(heights)]
    w0 = R4.weights(case["w"], R, seed * 7 + 5)
    dense0 = R4.pf2_dense(w0, [A, B, C], P)
    slices = [dense0[i, : heights[i], :].copy() for i in range(I)]
    svals = [np.linalg.svd(s, compute_uv=False) for s in slices]
    sranks = [int(np.sum(sv > 1e-9 * max(1.0, sv[0]))) if sv.size else 0 for sv in svals]
    label = (f"I={I} K={K} R={R} heights={heights} A={A.tolist()} B={B.tolist()} C={C.tolist()} weights={None if w0 is None else w0.tolist()} "
             f"max_rank={case['max_rank']} threshold={case['threshold']} slice ranks={sranks}")
    ctx.evaluations += 1
    if case["max_rank"] is not None and case["max_rank"] < max(sranks + [0]):
        ctx.count("guarded_out:max_rank-below-slice-rank")
        ctx.outcome("svdcomp:guarded-lossy-max_rank")
        return
    ratios = [sv[r - 1] / sv[0] for sv, r in zip(svals, sranks) if r >= 1]
    thr = 0.0 if case["threshold"] == "zero" else 0.5 * min(ratios + [1e-3])
    scale = max(1.0, float(np.abs(dense0).max()))
    ctx.count("calls:svd_compress_tensor_slices")
    try:
        scores, loadings = svd_compress_tensor_slices([s.copy() for s in slices], compression_threshold=thr, max_rank=case["max_rank"])
    except Exception as e:
        ctx.violation("svd_compress_tensor_slices/raises", f"{label}: {type(e).__name__}: {e}")
        return
    compressed_any = False
    for i in range(I):
        S = np.asarray(scores[i])
        if loadings[i] is None:
            rec = S
        else:
            U = np.asarray(loadings[i])
            compressed_any = True
            if U.ndim != 2 or S.ndim != 2 or U.shape[0] != heights[i] or U.shape[1] != S.shape[0] or S.shape[1] != K:
                ctx.violation("svd_compress_tensor_slices/malformed-result", f"{label}: slice {i}: loading {U.shape}, score {S.shape}")
                return
            g = R4.maxdiff(U.T @ U, np.eye(U.shape[1]))
            if g > TOL9:
                ctx.violation("svd_compress_tensor_slices/loading-not-orthonormal", f"{label}: slice {i}: max |U^T U - I| = {g!r}")
            rec = U @ S
        err = R4.maxdiff(rec, slices[i])
        if err > TOL9 * scale:
            cls = "rank-deficient-slice" if sranks[i] < min(R, heights[i], K) else "full-rank-slice"
            ctx.violation(f"svd_compress_tensor_slices/loading-times-score-differs-from-slice/{cls}",
                          f"{label}: slice {i} = {slices[i].tolist()}, loading @ score = {np.asarray(rec).tolist()} (err {err!r})")
            return
    if compressed_any:
        ctx.nontriv()
    # end to end: a PARAFAC2 model of the compressed slices, decompressed, represents the original slices.  Such a model with
    # the same (A, B, C) exists whenever every slice has rank R (then col(P_i) = col(X_i) is inside col(U_i)).
    if any(r != R for r in sranks):
        ctx.count("guarded_out:end-to-end-needs-rank-R-slices")
        ctx.outcome("svdcomp:compress-only" + (":compressed" if compressed_any else ":untouched"))
        return
    Q = [P[i].copy() if loadings[i] is None else np.asarray(loadings[i]).T @ P[i] for i in range(I)]
    ctx.count("calls:svd_decompress_parafac2_tensor")
    try:
        model = Parafac2Tensor((None if w0 is None else w0.copy(), [A.copy(), B.copy(), C.copy()], Q))
        out = svd_decompress_parafac2_tensor(model, loadings)
        w1, f1, P1 = out
        dense1 = R4.pf2_dense(w1, [np.asarray(f) for f in f1], [np.asarray(p) for p in P1])
    except Exception as e:
        ctx.violation("svd_decompress_parafac2_tensor/raises", f"{label}: {type(e).__name__}: {e}")
        return
    ctx.outcome("svdcomp:end-to-end" + (":compressed" if compressed_any else ":untouched"))
    err = R4.maxdiff(dense1, dense0)
    if err > TOL9 * scale:
        ctx.violation("svd_decompress_parafac2_tensor/dense-changed", f"{label}: decompressed model differs from the data by {err!r} (scale {scale})")
    if not ctx.samples and compressed_any:
        ctx.sample({"case": case, "slices": [s.tolist() for s in slices], "score_shapes": [list(np.shape(s)) for s in scores]})


FAMILIES["svdcomp"] = {"groups": svdcomp_groups, "cases": svdcomp_cases, "run": run_svdcomp}


# ------------------------------------------------------------------------------------------ family: svdgen (compress level, generic slices)
def svdgen_groups(tier):
    return [{"fam": "svdgen", "K": K, "table": t} for K in ((2, 3, 4) if tier == "quick" else (2, 3, 4, 5)) for t in ("int", "generic")]


def svdgen_cases(group, tier, seed):
    """Ragged lists of GENERIC slices (not generated by a PARAFAC2 model): every ordered tuple of 1-3 heights from 1..K+1, so that
    short slices (fewer rows than columns) precede taller ones and vice versa; default arguments must keep every singular value."""
    K = group["K"]
    hs = range(1, K + 2)
    for n in (1, 2, 3):
        for heights in itertools.product(hs, repeat=n):
            for max_rank in (None, K + 1):
                yield {"fam": "svdgen", "K": K, "table": group["table"], "heights": list(heights), "max_rank": max_rank, "seed": seed}


def run_svdgen(case, ctx):
    from tensorly.preprocessing import svd_compress_tensor_slices

    K, heights, seed = case["K"], case["heights"], case["seed"]
    mk = (lambda sh, o: V.ints(sh, o, 3)) if case["table"] == "int" else (lambda sh, o: V.generic(sh, o) * 2)
    slices = [mk((h, K), seed * 17 + 3 + i) for i, h in enumerate(heights)]
    ctx.evaluations += 1
    try:
        scores, loadings = svd_compress_tensor_slices([s.copy() for s in slices], max_rank=case["max_rank"])
    except Exception as e:
        ctx.violation("svd_compress_tensor_slices/raises/generic-slices", f"heights={heights} K={K}: {type(e).__name__}: {e}")
        return
    ctx.nontriv()
    order = "ascending" if heights == sorted(heights) else ("descending" if heights == sorted(heights, reverse=True) else "mixed")
    for i, sl in enumerate(slices):
        S = np.asarray(scores[i])
        rec = S if loadings[i] is None else np.asarray(loadings[i]) @ S
        if loadings[i] is not None:
            U = np.asarray(loadings[i])
            if R4.maxdiff(U.T @ U, np.eye(U.shape[1])) > TOL9:
                ctx.violation("svd_compress_tensor_slices/loading-not-orthonormal/generic-slices", f"heights={heights} K={K} slice {i}")
                return
        err = R4.maxdiff(rec, sl) if rec.shape == sl.shape else float("inf")
        if err > TOL9 * max(1.0, float(np.abs(sl).max())):
            ctx.outcome("svdgen:lossy")
            ctx.violation(f"svd_compress_tensor_slices/loading-times-score-differs-from-slice/generic-slices-{order}-heights",
                          f"heights={heights} K={K} max_rank={case['max_rank']} table={case['table']}: slice {i} is not reproduced (err {err!r}) although every singular value must be kept")
            return
    ctx.outcome("svdgen:lossless")


FAMILIES["svdgen"] = {"groups": svdgen_groups, "cases": svdgen_cases, "run": run_svdgen}


# ------------------------------------------------------------------------------------------ family: cpscale (extreme but finite scales)
SCALES = [1e-19, 1e-9, 1.0, 1e9, 1e19]


def cpscale_groups(tier):
    return [{"fam": "cpscale", "shape": list(sh), "R": R} for sh in ((3, 2), (2, 3, 2)) + (((2, 2, 2, 2),) if tier != "quick" else ()) for R in (1, 2)]


def cpscale_cases(group, tier, seed):
    n = len(group["shape"])
    for pattern in itertools.product(range(len(SCALES)), repeat=n):
        for wk in ("none", "ones", "huge", "tiny"):
            yield {"fam": "cpscale", "shape": group["shape"], "R": group["R"], "pattern": list(pattern), "w": wk, "seed": seed}


def run_cpscale(case, ctx):
    """Normalisation of CP tensors whose factors live on very different (but representable) scales: a non-zero column is
    non-zero however small its norm is."""
    from tensorly.cp_tensor import CPTensor, cp_normalize

    shape, R, seed = tuple(case["shape"]), case["R"], case["seed"]
    facs = [V.ints((s_, R), seed * 13 + 5 * k + 1, 2, nonzero=True) * SCALES[p] for k, (s_, p) in enumerate(zip(shape, case["pattern"]))]
    w0 = {"none": None, "ones": np.ones(R), "huge": np.array([1e20, -3e20][:R]), "tiny": np.array([2e-20, 1e-20][:R])}[case["w"]]
    total = float(np.prod([SCALES[p] for p in case["pattern"]])) * (1.0 if w0 is None else float(np.abs(w0).max()))
    if not (1e-250 < total < 1e250):
        ctx.count("guarded_out:product-of-scales-out-of-range")
        return
    dense0 = itm_cp_dense(w0, facs)
    ref = float(np.abs(dense0).max())
    ctx.evaluations += 1
    for api in ("function", "method"):
        try:
            if api == "function":
                out = cp_normalize(CPTensor((None if w0 is None else w0.copy(), [f.copy() for f in facs])))
            else:
                out = CPTensor((None if w0 is None else w0.copy(), [f.copy() for f in facs]))
                out.normalize()
            w1, f1 = np.asarray(out[0]), [np.asarray(f) for f in out[1]]
        except Exception as e:
            ctx.violation(f"cp_normalize/raises/extreme-scale", f"{case}: {type(e).__name__}: {e}")
            return
        ctx.nontriv([case, api])
        for k, f in enumerate(f1):
            cn = np.sqrt((f * f).sum(axis=0))
            if np.any(np.abs(cn - 1) > 1e-9):
                ctx.outcome("cpscale:not-unit")
                ctx.violation("cp_normalize/columns-not-unit-norm/extreme-scale",
                              f"{case} ({api}): factor {k} (scale {SCALES[case['pattern'][k]]:g}) has column norms {cn.tolist()} after normalisation")
                return
        dense1 = itm_cp_dense(w1, f1)
        if not np.all(np.isfinite(dense1)) or np.abs(dense1 - dense0).max() > 1e-9 * ref:
            ctx.outcome("cpscale:dense-changed")
            ctx.violation("cp_normalize/dense-changed/extreme-scale", f"{case} ({api}): max|dense - dense0| = {np.abs(dense1 - dense0).max()!r} at scale {ref!r}")
            return
    ctx.outcome("cpscale:ok")


def itm_cp_dense(w, fs):
    from vmc import itm

    return itm.cp_dense(w, fs)


FAMILIES["cpscale"] = {"groups": cpscale_groups, "cases": cpscale_cases, "run": run_cpscale}


# ------------------------------------------------------------------------------------------ family: cpperm
SCALES = (1.0, -1.0, 2.0, -2.0, 0.5)


def cpperm_groups(tier):
    shapes = [(3, 4), (3, 3, 4)] if tier == "quick" else [(3, 4), (2, 3), (3, 3, 4), (4, 3, 2, 3)]
    gs = []
    for shape in shapes:
        for R in (1, 2, 3):
            for pi in itertools.permutations(range(R)):
                gs.append({"fam": "cpperm", "shape": list(shape), "R": R, "perm": list(pi)})
    return gs


def cpperm_cases(group, tier, seed):
    R = group["R"]
    for s in itertools.product(SCALES, repeat=R):
        for where in ("factor", "weights"):
            yield {"fam": "cpperm", "shape": group["shape"], "R": R, "perm": group["perm"], "scales": list(s), "where": where, "seed": seed}


def _cosines(a, b):
    """|cos| between corresponding columns of two matrices (python floats)."""
    al, bl = np.asarray(a).tolist(), np.asarray(b).tolist()
    out = []
    for r in range(len(al[0])):
        dot = sum(x[r] * y[r] for x, y in zip(al, bl))
        na = sum(x[r] * x[r] for x in al) ** 0.5
        nb = sum(y[r] * y[r] for y in bl) ** 0.5
        out.append(abs(dot) / (na * nb) if na and nb else float("nan"))
    return out


def run_cpperm(case, ctx):
    from tensorly.cp_tensor import CPTensor, cp_permute_factors

    shape, R, pi, scales, seed = tuple(case["shape"]), case["R"], case["perm"], case["scales"], case["seed"]
    n = len(shape)
    # tensor to permute: distinct positive weights, pairwise non-collinear generic columns
    f0 = [V.generic((s, R), seed * 3 + k + 1) + 0.1 * np.arange(1, R + 1)[None, :] * ((-1.0) ** np.arange(s))[:, None] for k, s in enumerate(shape)]
    w0 = np.array([1.0 + r for r in range(R)])
    for k in range(n):  # guard of the construction itself: the matching must be unique in every mode
        c = np.abs((f0[k] / np.linalg.norm(f0[k], axis=0)).T @ (f0[k] / np.linalg.norm(f0[k], axis=0)))
        if any(c[i, j] > 1 - 1e-3 for i in range(R) for j in range(R) if i != j):
            ctx.count("guarded_out:cpperm-construction-nearly-collinear")
            return
    dense0 = R4.cp_dense(w0, f0)
    # reference: column pi[j] of the tensor sits at position j, rescaled by scales[j]
    fr = [f[:, pi].copy() for f in f0]
    wr = w0[pi].copy()
    for j, s in enumerate(scales):
        if case["where"] == "factor":
            fr[j % n][:, j] *= s
        else:
            wr[j] *= abs(s)
            fr[(j + 1) % n][:, j] *= (1.0 if s > 0 else -1.0)
    label = f"shape={shape} R={R} perm={pi} scales={scales} where={case['where']}"
    trivial = list(pi) == sorted(pi) and all(s == 1.0 for s in scales)
    cls = "permuted-only" if all(s == 1.0 for s in scales) else ("sign-flipped" if all(abs(s) == 1.0 for s in scales) else "rescaled")
    for form in ("single", "list"):
        ctx.evaluations += 1
        ctx.count("calls:cp_permute_factors")
        ref = CPTensor((wr.copy(), [f.copy() for f in fr]))
        t = CPTensor((w0.copy(), [f.copy() for f in f0]))
        try:
            if form == "single":
                out, perms = cp_permute_factors(ref, t)
                outs = [out]
            else:
                t2 = CPTensor((w0[::-1].copy(), [f[:, ::-1].copy() for f in f0]))  # same tensor, components listed backwards
                outs, perms = cp_permute_factors(ref, [t, t2])
                if not isinstance(outs, list):
                    outs = [outs]
        except Exception as e:
            ctx.violation(f"cp_permute_factors/raises/{form}", f"{label}: {type(e).__name__}: {e}")
            continue
        if not trivial or form == "list":
            ctx.nontriv([case, form])
        ctx.outcome(f"cpperm:{cls}:{form}")
        if len(outs) != (1 if form == "single" else 2) or len(perms) != len(outs):
            ctx.violation(f"cp_permute_factors/wrong-number-of-results/{form}", f"{label}: {len(outs)} tensors, {len(perms)} permutations")
            continue
        for i, o in enumerate(outs):
            wf = well_formed_cp(o)
            if isinstance(wf, str):
                ctx.violation(f"cp_permute_factors/malformed-result/{form}", f"{label}: output {i}: {wf}")
                continue
            w1, f1 = wf
            err = R4.maxdiff(R4.cp_dense(w1, f1), dense0)
            if err > TOL12 * scale_of_cp(w0, f0):
                ctx.violation(f"cp_permute_factors/dense-changed/{form}", f"{label}: output {i} differs from its input by {err!r}; weights={w1.tolist()} permutation={list(np.asarray(perms[i]).tolist())}")
                continue
            worst = min(min(_cosines(f1[k], fr[k])) for k in range(n))
            if not worst >= 1 - 1e-9:
                ctx.violation(f"cp_permute_factors/not-aligned/{cls}-{form}", f"{label}: output {i}: smallest |cos| between output and reference columns = {worst!r}; permutation={list(np.asarray(perms[i]).tolist())}")
    if not ctx.samples and R == 3 and not trivial:
        ctx.sample({"case": case})


FAMILIES["cpperm"] = {"groups": cpperm_groups, "cases": cpperm_cases, "run": run_cpperm}


CHECK = C04()
