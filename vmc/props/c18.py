"""C18 — results stay in the numeric context (dtype) of the input.

Lattice (complete): catalogue of array-returning entry points (vmc/ref/c18_catalogue.py) x option /
initialisation variants that select different allocation paths x dtype in {float32, float64,
complex128 where the entry point supports complex} x tensor-algebra backend {core, einsum}.

Oracle: every numpy array found anywhere in the returned structure (factors, weights, cores,
projections, reconstructions; CP/Tucker/TT/TR/TT-matrix/PARAFAC2 wrappers, tuples, lists, dicts)
must have exactly the floating dtype of the input data.  Not demanded: error lists / losses
(exempt by role name), integer / bool outputs (index and count outputs), python scalars; the
leverage-score distribution must be float64 (documented exception); for complex input a role that is
mathematically real (singular values, norms, eigenvalues, CP weights = column norms) may be real
of the same precision (float64).  Library exceptions are counted as guarded-out, never violations.
"""
import contextlib
import io

import numpy as np

from vmc.runner import Check
from vmc.ref import c18_catalogue as CAT

_BY_NAME = {}

# Offsets into the deterministic value tables are an explicit, completely enumerated axis of the lattice (NOT chosen by VERIF_SEED):
# some allocation paths are reached only for particular data (e.g. the restart branch of active_set_nnls after a singular solve), so
# letting the seed rotate the tables would make the set of reachable paths - and of violation signatures - depend on the seed.
OFFSETS = {"quick": [0], "thorough": [0, 1, 7]}


def entries():
    if not _BY_NAME:
        for e in CAT.build():
            _BY_NAME[e["name"]] = e
    return _BY_NAME


def walk(obj, path, out, depth=0):
    """Collect (path, kind, obj) leaves; kind in {"arr", "npscalar", "py", "none", "opaque"}."""
    if depth > 8:
        out.append((path, "opaque", obj))
        return
    if obj is None:
        out.append((path, "none", None))
    elif isinstance(obj, np.ndarray):
        out.append((path, "arr", obj))
    elif isinstance(obj, np.generic):
        out.append((path, "npscalar", obj))
    elif isinstance(obj, (bool, int, float, complex, str)):
        out.append((path, "py", obj))
    elif isinstance(obj, dict):
        for k in obj:
            walk(obj[k], f"{path}.{k}" if path else str(k), out, depth + 1)
    elif hasattr(obj, "projections") and hasattr(obj, "factors") and hasattr(obj, "weights"):  # Parafac2Tensor
        walk(obj.weights, path + ".weights", out, depth + 1)
        walk(list(obj.factors), path + ".factors", out, depth + 1)
        walk(list(obj.projections), path + ".projections", out, depth + 1)
    elif hasattr(obj, "core") and hasattr(obj, "factors"):  # TuckerTensor
        walk(obj.core, path + ".core", out, depth + 1)
        walk(list(obj.factors), path + ".factors", out, depth + 1)
    elif hasattr(obj, "weights") and hasattr(obj, "factors"):  # CPTensor
        walk(obj.weights, path + ".weights", out, depth + 1)
        walk(list(obj.factors), path + ".factors", out, depth + 1)
    elif hasattr(obj, "factors") and not isinstance(obj, (list, tuple)):  # TTTensor / TRTensor / TTMatrix
        walk(list(obj.factors), path + ".factors", out, depth + 1)
    elif isinstance(obj, (list, tuple)):
        for i, x in enumerate(obj):
            walk(x, f"{path}[{i}]", out, depth + 1)
    else:
        out.append((path, "opaque", obj))


def role_of(path):
    """Path with the running indices removed: 'cp.factors[2]' -> 'cp.factors'."""
    out, skip = [], False
    for ch in path:
        if ch == "[":
            skip = True
        elif ch == "]":
            skip = False
        elif not skip:
            out.append(ch)
    return "".join(out)


def real_ok_role(path):
    head = path.split(".")[0].split("[")[0]
    if head.endswith("@real"):
        return True
    return False


class C18(Check):
    pid = "C18"
    level = "exploration"
    design_ref = "DESIGN.md §4 C18"
    rule = ("complete product: catalogued array-returning entry point x option/initialisation variant (allocation path; thorough tier adds the "
            "full cross product of the option axes of the main algorithms) x input dtype "
            "(float32, float64, complex128 where the variant supports complex) x tensor-algebra backend (core, einsum where the result "
            "depends on tenalg) x value-table offset (quick {0}, thorough {0,1,7}); a case is (entry, variant, dtype, tenalg, offset); it is non-trivial iff the real call returned at least one "
            "non-empty floating/complex numpy array whose dtype was compared with the input's (distinct by (entry, variant, dtype, tenalg, offset))")
    assumptions = [
        "numpy's ndarray.dtype attribute is trusted; comparison is exact dtype equality (no tolerance is involved in this property)",
        "inputs come from the deterministic tables of vmc/values.py cast to the case dtype; complex inputs have non-zero imaginary parts; "
        "the table offset is an enumerated axis of the case, VERIF_SEED is deliberately ignored (data-dependent branches would otherwise make "
        "the set of reachable allocation paths depend on the seed)",
        "numeric options are python scalars; masks and user initialisations are given in the dtype of the data",
        "exempt by role: error lists/losses; integer/bool arrays (index/count outputs); python scalars; leverage_score_dist must be float64; "
        "for complex input, roles that are mathematically real and marked so in the catalogue (singular values, norms, eigenvalues) may be float64; "
        "CP weights are NOT exempt: every weights array the unchanged library returns for complex data is complex",
        "numpy scalars (0-d results of reductions) are compared like arrays but reported under the separate aspect 'scalar-dtype'",
        "library exceptions are counted (guarded_out:<entry>:<exception>) and are not violations of this property",
    ]

    # ------------------------------------------------------------------------------
    def groups(self, tier, seed):
        def nvar(e):
            return sum(1 for x in e["variants"] if tier == "thorough" or x["tier"] != "x")
        es = sorted(entries().values(), key=lambda e: (-e["cost"] * nvar(e), e["name"]))
        return [{"entry": e["name"], "family": e["family"]} for e in es]

    def cases(self, group, tier, seed):
        e = entries()[group["entry"]]
        for var in e["variants"]:
            if var["tier"] == "x" and tier != "thorough":
                continue
            cx = e["cx"] if var["cx"] is None else var["cx"]
            dts = ["float64", "float32"] + (["complex128"] if cx else [])
            tas = ["core", "einsum"] if e["ta"] else ["core"]
            for off in OFFSETS[tier]:
                for ta in tas:
                    for dt in dts:
                        yield {"entry": e["name"], "variant": var["label"], "dtype": dt, "tenalg": ta, "off": off}
                        if dt != "float64" and ta == "core" and off == OFFSETS[tier][0]:
                            # the same data in a tiny / large unit: numerical guards (floors, eps comparisons) must not change the dtype
                            for sc in (1e-9, 1e6):
                                yield {"entry": e["name"], "variant": var["label"], "dtype": dt, "tenalg": ta, "off": off, "scale": sc}

    # ------------------------------------------------------------------------------
    def run_case(self, case, ctx):
        import tensorly as tl
        from tensorly import tenalg

        e = entries()[case["entry"]]
        var = next(x for x in e["variants"] if x["label"] == case["variant"])
        dt = np.dtype(case["dtype"])
        d = CAT.Dat(dt, case.get("off", 0), case.get("scale", 1.0))
        name, label, ta = e["name"], var["label"], case["tenalg"]
        tag = f"{name}[{label}] dtype={dt} tenalg={ta} table-offset={d.off}" + (f" data-unit={case['scale']:g}" if "scale" in case else "")

        prev_ta = tenalg.get_backend()
        prev_be = tl.get_backend()
        rng_state = np.random.get_state()
        err = None
        try:
            tenalg.set_backend(ta)
            with np.errstate(all="ignore"), contextlib.redirect_stdout(io.StringIO()):
                try:
                    res = var["fn"](d)
                except Exception as ex:  # library exception on this input: counted, not a dtype verdict
                    err = ex
        finally:
            tenalg.set_backend(prev_ta)
            if tl.get_backend() != prev_be:
                tl.set_backend(prev_be)
            np.random.set_state(rng_state)
        ctx.count("calls")
        if err is not None:
            ctx.count(f"guarded_out:{name}:{type(err).__name__}")
            ctx.outcome(f"guarded_out:exception:{dt}")
            return

        leaves = []
        walk(res, "", leaves)
        checked = 0
        bad = 0
        seen = []
        for path, kind, obj in leaves:
            head = path.split(".")[0].split("[")[0]
            if head.endswith("~"):
                ctx.count("exempt:error-list-or-loss")
                continue
            if kind in ("none", "py"):
                ctx.count("skipped:python-scalar-or-None")
                continue
            if kind == "opaque":
                ctx.count(f"skipped:opaque:{type(obj).__name__}")
                continue
            got = obj.dtype
            if got.kind not in "fc":
                ctx.count("exempt:integer-or-bool-output")
                continue
            if kind == "arr" and obj.size == 0:
                ctx.count("skipped:empty-array")
                continue
            role = role_of(path) or "out"
            role_clean = role.replace("@real", "").replace("@f64", "")
            if head.endswith("@f64"):
                want_ok = got == np.float64
                want = "float64 (documented exception)"
            elif dt.kind == "c" and real_ok_role(path):
                want_ok = got in (np.dtype("complex128"), np.dtype("float64"))
                want = "complex128 or float64 (real-valued role)"
                if got == np.float64:
                    ctx.count(f"complex-input:real-valued-role-returned-as-float64:{name}:{role_clean}")
            else:
                want_ok = got == dt
                want = str(dt)
            checked += 1
            ctx.count("arrays_compared" if kind == "arr" else "numpy_scalars_compared")
            seen.append(f"{path}:{got}")
            if not want_ok:
                bad += 1
                aspect = f"{role_clean}-dtype" if kind == "arr" else f"{role_clean}-scalar-dtype"
                cls = f"{dt}->{got}/{label.split('|shape=')[0]}" + (f"/tenalg={ta}" if e["sigta"] and ta != "core" else "")
                ctx.violation(f"{name}/{aspect}/{cls}",
                              f"{tag}: returned {path or 'result'} has dtype {got} (shape {getattr(obj, 'shape', ())}), expected {want}; "
                              f"all arrays: {seen[:12]}")
        if checked:
            ctx.nontriv([name, label, str(dt), ta, d.off])
        else:
            ctx.count("no-floating-array-returned")
        ctx.outcome(("preserved" if not bad else "changed") + f":{dt}" if checked else f"nothing-to-compare:{dt}")
        if not bad and checked and len(ctx.samples) < 1 and dt == np.float32:
            ctx.sample({"case": case, "arrays": seen[:10]})

    def extra_coverage(self, merged):
        es = entries()
        fam = {}
        for e in es.values():
            fam[e["family"]] = fam.get(e["family"], 0) + 1
        return {"catalogue_entries": len(es), "catalogue_by_family": fam, "tolerance_ladder": "none (exact dtype equality)"}


CHECK = C18()
