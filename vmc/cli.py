import argparse
import os
import sys


def main():
    ap = argparse.ArgumentParser()
    ap.add_argument("pid")
    ap.add_argument("--tier", default=os.environ.get("VERIF_TIER") or "quick", choices=["quick", "thorough"])
    ap.add_argument("--replay", default=None)
    ap.add_argument("--seed", type=int, default=None)
    a = ap.parse_args()
    seed = a.seed if a.seed is not None else int(os.environ.get("VERIF_SEED", "0") or 0)
    from vmc.runner import run_check

    sys.exit(run_check(a.pid.upper(), a.tier, seed, a.replay))


if __name__ == "__main__":
    main()
