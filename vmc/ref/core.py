"""Boring reference semantics: explicit loops over index tuples, Python numbers only.

A reference tensor is a dict-free dense nested representation: (shape tuple, flat python list in
C order).  Entries are python ints / Fractions / floats / complex; with integer entries every
result is exact.  No reshape / moveaxis / einsum / BLAS is used anywhere in this file.
"""
from itertools import product as _product

import numpy as _np


class RT:
    """Reference tensor: shape + flat C-order list."""

    __slots__ = ("shape", "data")

    def __init__(self, shape, data):
        self.shape = tuple(int(s) for s in shape)
        self.data = list(data)
        n = 1
        for s in self.shape:
            n *= s
        assert n == len(self.data), (self.shape, len(self.data))

    @staticmethod
    def from_np(a):
        a = _np.asarray(a)
        flat = [x.item() for x in a.reshape(-1)] if a.size else []
        return RT(a.shape, flat)

    def to_np(self, dtype=None):
        if dtype is None:
            dtype = complex if any(isinstance(x, complex) for x in self.data) else float
        return _np.array(self.data, dtype=dtype).reshape(self.shape)

    def lin(self, idx):
        l = 0
        for i, s in zip(idx, self.shape):
            l = l * s + i
        return l

    def __getitem__(self, idx):
        return self.data[self.lin(idx)]

    def indices(self):
        return _product(*[range(s) for s in self.shape])

    @property
    def ndim(self):
        return len(self.shape)


def build(shape, fn):
    """RT with entry fn(idx) for each index tuple (C order)."""
    shape = tuple(shape)
    return RT(shape, [fn(idx) for idx in _product(*[range(s) for s in shape])])


def conj(x):
    return x.conjugate() if isinstance(x, complex) else x


# ------------------------------------------------------------------ layouts (C01 conventions)
def unfold(t, mode):
    rest = [k for k in range(t.ndim) if k != mode]
    ncol = 1
    for k in rest:
        ncol *= t.shape[k]
    out = [None] * (t.shape[mode] * ncol)
    for idx in t.indices():
        c = 0
        for k in rest:
            c = c * t.shape[k] + idx[k]
        out[idx[mode] * ncol + c] = t[idx]
    return RT((t.shape[mode], ncol), out)


def vec(t):
    return RT((len(t.data),), t.data)


# ------------------------------------------------------------------ multilinear products
def mode_dot(t, m, mode, transpose=False):
    """m is an RT of order 1 (vector, contracts the mode away) or 2 (J x I; with transpose: I x J, conjugated)."""
    I = t.shape[mode]
    if m.ndim == 1:
        assert m.shape[0] == I
        oshape = t.shape[:mode] + t.shape[mode + 1:]
        return build(oshape, lambda idx: sum(t[idx[:mode] + (i,) + idx[mode:]] * m[(i,)] for i in range(I)))
    if transpose:
        assert m.shape[0] == I
        J = m.shape[1]
        get = lambda j, i: conj(m[(i, j)])
    else:
        assert m.shape[1] == I
        J = m.shape[0]
        get = lambda j, i: m[(j, i)]
    oshape = t.shape[:mode] + (J,) + t.shape[mode + 1:]
    return build(oshape, lambda idx: sum(get(idx[mode], i) * t[idx[:mode] + (i,) + idx[mode + 1:]] for i in range(I)))


def kron(mats):
    """Kronecker product of a list of RT matrices (left to right)."""
    out = mats[0]
    for b in mats[1:]:
        a = out
        (p, q), (r, s) = a.shape, b.shape
        out = build((p * r, q * s), lambda idx, a=a, b=b, r=r, s=s: a[(idx[0] // r, idx[1] // s)] * b[(idx[0] % r, idx[1] % s)])
    return out


def khatri_rao(mats, weights=None, mask=None):
    """Column-wise Kronecker: rows vary with the *first* matrix slowest. weights: list len R; mask RT (rows, 1|R)."""
    R = mats[0].shape[1]
    rows = [m.shape[0] for m in mats]
    n = 1
    for r in rows:
        n *= r
    data = []
    for ridx in _product(*[range(r) for r in rows]):
        for c in range(R):
            v = 1
            for k, m in enumerate(mats):
                v = v * m[(ridx[k], c)]
            if weights is not None:
                v = v * weights[c]
            data.append(v)
    out = RT((n, R), data)
    if mask is not None:
        out = build((n, R), lambda idx: out[idx] * (mask[(idx[0], idx[1] if mask.shape[1] > 1 else 0)] if mask.ndim == 2 else mask[(idx[0],)]))
    return out


def outer(ts):
    out = ts[0]
    for b in ts[1:]:
        a = out
        out = build(a.shape + b.shape, lambda idx, a=a, b=b: a[idx[: a.ndim]] * b[idx[a.ndim:]])
    return out


def inner(a, b, n_modes=None):
    if n_modes is None:
        assert a.shape == b.shape
        return sum(x * y for x, y in zip(a.data, b.data))
    assert a.shape[a.ndim - n_modes:] == b.shape[:n_modes]
    cs = b.shape[:n_modes]
    oshape = a.shape[: a.ndim - n_modes] + b.shape[n_modes:]
    na = a.ndim - n_modes
    return build(oshape, lambda idx: sum(a[idx[:na] + c] * b[c + idx[na:]] for c in _product(*[range(s) for s in cs])))


def matmul(a, b):
    return build((a.shape[0], b.shape[1]), lambda idx: sum(a[(idx[0], k)] * b[(k, idx[1])] for k in range(a.shape[1])))


# ------------------------------------------------------------------ factorised tensors
def cp_dense(weights, factors):
    R = factors[0].shape[1]
    shape = tuple(f.shape[0] for f in factors)

    def ent(idx):
        s = 0
        for r in range(R):
            v = 1 if weights is None else weights[r]
            for k, f in enumerate(factors):
                v = v * f[(idx[k], r)]
            s = s + v
        return s

    return build(shape, ent)


def tucker_dense(core, factors):
    """factors[k]: (I_k x R_k)."""
    out = core
    for k, f in enumerate(factors):
        out = mode_dot(out, f, k)
    return out


def tt_dense(cores):
    """cores[k]: (r_k, I_k, r_{k+1}), r_0 = r_N = 1."""
    shape = tuple(c.shape[1] for c in cores)

    def ent(idx):
        v = [1]
        for k, c in enumerate(cores):
            v = [sum(v[a] * c[(a, idx[k], b)] for a in range(c.shape[0])) for b in range(c.shape[2])]
        assert len(v) == 1
        return v[0]

    return build(shape, ent)


def tr_dense(cores):
    shape = tuple(c.shape[1] for c in cores)
    r0 = cores[0].shape[0]

    def ent(idx):
        tot = 0
        for a0 in range(r0):
            v = [1 if a == a0 else 0 for a in range(r0)]
            for k, c in enumerate(cores):
                v = [sum(v[a] * c[(a, idx[k], b)] for a in range(c.shape[0])) for b in range(c.shape[2])]
            tot = tot + v[a0]
        return tot

    return build(shape, ent)


def mttkrp(t, weights, factors, mode):
    """unfold(t, mode) @ khatri_rao(factors except mode) (* weights column-wise)."""
    R = factors[0].shape[1]
    others = [k for k in range(t.ndim) if k != mode]

    def ent(idx):
        i, r = idx
        s = 0
        for full in t.indices():
            if full[mode] != i:
                continue
            v = t[full]
            for k in others:
                v = v * factors[k][(full[k], r)]
            s = s + v
        if weights is not None:
            s = s * weights[r]
        return s

    return build((t.shape[mode], R), ent)


def sqnorm(t):
    return sum((x * conj(x)).real if isinstance(x, complex) else x * x for x in t.data)


def eq_np(rt, arr):
    """Exact comparison of an RT with a numpy array (shape + every entry ==)."""
    arr = _np.asarray(arr)
    if tuple(arr.shape) != rt.shape:
        return False
    flat = arr.reshape(-1)
    return all(flat[i].item() == rt.data[i] for i in range(len(rt.data)))


def maxabsdiff_np(rt, arr):
    arr = _np.asarray(arr)
    if tuple(arr.shape) != rt.shape:
        return float("inf")
    if not rt.data:
        return 0.0
    return float(_np.max(_np.abs(arr.reshape(-1) - _np.array(rt.data, dtype=arr.dtype if arr.dtype.kind in "fc" else float))))
