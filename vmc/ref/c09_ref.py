"""C09 reference side: input families, independent spectra of unfoldings, dense reconstructions.

Nothing here imports tensorly.  Unfoldings are formed with explicit axis orders (np.transpose +
C-order reshape; singular values do not depend on the column order), spectra come from
numpy.linalg.svd (trusted base, DESIGN §1.5), reconstructions are plain chains of np.tensordot.
"""
import itertools

import numpy as np

from vmc import values

FAMILIES = ["generic", "integer", "lowtucker", "lowtt", "deficient"]


def frob(a):
    a = np.asarray(a, dtype=np.float64)
    return float(np.sqrt(np.sum(a * a)))


# ------------------------------------------------------------------------------ unfoldings / spectra
def rot_unfold(X, start, k):
    """Matrix whose rows are indexed by the k cyclically consecutive modes start, start+1, ... and whose
    columns are indexed by the remaining modes (cyclic order)."""
    d = X.ndim
    order = [(start + j) % d for j in range(d)]
    Y = np.ascontiguousarray(np.transpose(X, order))
    rows = 1
    for s in Y.shape[:k]:
        rows *= int(s)
    return Y.reshape(rows, -1)


def spectrum(M):
    """(singular values descending, tail) with tail[r] = sqrt(sum_{i>=r} s_i^2), tail[len(s)] = 0."""
    s = np.linalg.svd(M, compute_uv=False)
    sq = np.concatenate([np.cumsum((s * s)[::-1])[::-1], [0.0]])
    return s, np.sqrt(sq)


def tail_at(tail, r):
    return float(tail[min(int(r), len(tail) - 1)])


def numrank(s):
    """(numerical rank, ambiguous?) -- ambiguous when some singular value sits in the grey zone."""
    if len(s) == 0 or s[0] == 0:
        return 0, False
    rel = s / s[0]
    amb = bool(np.any((rel > 1e-13) & (rel < 1e-6)))
    return int(np.sum(rel >= 1e-6)), amb


# ------------------------------------------------------------------------------ dense reconstructions
def tucker_dense(core, factors):
    out = np.asarray(core)
    for k, U in enumerate(factors):
        out = np.moveaxis(np.tensordot(np.asarray(U), out, axes=(1, k)), 0, k)
    return out


def tt_dense(cores):
    out = np.asarray(cores[0])
    for c in cores[1:]:
        out = np.tensordot(out, np.asarray(c), axes=(out.ndim - 1, 0))
    assert out.shape[0] == 1 and out.shape[-1] == 1
    return out.reshape(out.shape[1:-1])


def tr_dense(cores):
    out = np.asarray(cores[0])
    for c in cores[1:]:
        out = np.tensordot(out, np.asarray(c), axes=(out.ndim - 1, 0))
    return np.trace(out, axis1=0, axis2=out.ndim - 1)


def ttm_dense_interleaved(cores):
    """cores[k]: (r_k, i_k, o_k, r_{k+1}) -> tensor indexed (i_1, o_1, i_2, o_2, ...)."""
    out = np.asarray(cores[0])
    for c in cores[1:]:
        out = np.tensordot(out, np.asarray(c), axes=(out.ndim - 1, 0))
    assert out.shape[0] == 1 and out.shape[-1] == 1
    return out.reshape(out.shape[1:-1])


def deinterleave(Z):
    """Z indexed (i_1, o_1, ..., i_n, o_n) -> X indexed (i_1..i_n, o_1..o_n); explicit index loop."""
    n = Z.ndim // 2
    ishape = [Z.shape[2 * k] for k in range(n)]
    oshape = [Z.shape[2 * k + 1] for k in range(n)]
    X = np.zeros(ishape + oshape, dtype=Z.dtype)
    for idx in np.ndindex(*Z.shape):
        X[tuple(idx[0::2]) + tuple(idx[1::2])] = Z[idx]
    return X


# ------------------------------------------------------------------------------ input families
def _tt_caps(shape):
    caps = []
    for k in range(1, len(shape)):
        l = int(np.prod(shape[:k]))
        r = int(np.prod(shape[k:]))
        caps.append(min(l, r))
    return caps


def _unit_scale(X):
    """Multiply by an exact power of two so that 1 <= |X| < 2 (bit-exact rescaling: ranks and relative spectrum are
    untouched).  The products of table values in the low-rank families would otherwise have norms down to 1e-4, where
    symeig_svd's *absolute* eigenvalue clip (eps) dominates; scale robustness of the SVD backends is not part of C09."""
    nrm = frob(X)
    if nrm == 0 or not np.isfinite(nrm):
        return X
    return X * 2.0 ** (-int(np.floor(np.log2(nrm))))


def make_tensor(shape, fam, off):
    X = _make_tensor(shape, fam, off)
    return _unit_scale(X) if fam in ("lowtucker", "lowtt") else X


def _make_tensor(shape, fam, off):
    shape = tuple(int(s) for s in shape)
    d = len(shape)
    if fam == "generic":
        return values.generic(shape, off)
    if fam == "integer":
        return values.ints(shape, off, 3)
    if fam == "lowtucker":
        ranks = [max(1, n - 1) for n in shape]
        core = values.generic(ranks, off + 3)
        facs = [values.generic((n, r), off + 5 + k) for k, (n, r) in enumerate(zip(shape, ranks))]
        return tucker_dense(core, facs)
    if fam == "lowtt":
        caps = _tt_caps(shape)
        rk = [1] + [min(2, max(1, c - 1)) for c in caps] + [1]
        cores = [values.generic((rk[k], shape[k], rk[k + 1]), off + 11 + k) for k in range(d)]
        return tt_dense(cores)
    if fam == "deficient":
        X = values.ints(shape, off + 2, 3, nonzero=True).copy()
        for n in range(d):
            last = [slice(None)] * d
            last[n] = shape[n] - 1
            first = [slice(None)] * d
            first[n] = 0
            kind = n % 3
            if kind == 0:  # duplicated slice
                X[tuple(last)] = X[tuple(first)]
            elif kind == 1:  # zero slice
                X[tuple(last)] = 0.0
            else:  # last slice = sum of the others
                tot = np.zeros_like(X[tuple(first)])
                for j in range(shape[n] - 1):
                    sl = [slice(None)] * d
                    sl[n] = j
                    tot = tot + X[tuple(sl)]
                X[tuple(last)] = tot
        return X
    raise ValueError(fam)


class TensorInfo:
    """Input tensor + everything the oracle needs about its spectrum (computed once, independently)."""

    def __init__(self, shape, fam, off, ttm=False):
        shape = tuple(int(s) for s in shape)
        self.shape = shape
        d = len(shape)
        if ttm:
            n = d // 2
            ish, osh = shape[:n], shape[n:]
            zshape = tuple(x for pair in zip(ish, osh) for x in pair)
            self.Z = np.ascontiguousarray(make_tensor(zshape, fam, off), dtype=np.float64)
            self.X = deinterleave(self.Z)
            self.merged_shape = tuple(a * b for a, b in zip(ish, osh))
            Mg = self.Z.reshape(self.merged_shape)
            self.norm = frob(self.X)
            self.seq = [spectrum(rot_unfold(Mg, 0, k)) for k in range(1, n)]
            self.maxrank = max([numrank(s)[0] for s, _ in self.seq] + [1 if self.norm > 0 else 0])
            return
        self.X = np.ascontiguousarray(make_tensor(shape, fam, off), dtype=np.float64)
        self.norm = frob(self.X)
        # interval (start a, length k) -> (s, tail); mode-n unfolding = (n, 1); sequential k = (0, k)
        self.iv = {}
        for a in range(d):
            for k in range(1, d):
                self.iv[(a, k)] = spectrum(rot_unfold(self.X, a, k))
        self.maxrank = max(numrank(s)[0] for s, _ in self.iv.values())

    def mode_tail(self, n, r):
        return tail_at(self.iv[(n, 1)][1], r)

    def seq_tail(self, k, r):
        return tail_at(self.iv[(0, k)][1], r)


def tt_rank_space(shape):
    """Every TT rank vector [1, r_1, ..., r_{d-1}, 1] with r_k from 1 to (size of k-th sequential unfolding)+1."""
    caps = _tt_caps(shape)
    for mid in itertools.product(*[range(1, c + 2) for c in caps]):
        yield [1] + list(mid) + [1]
