"""C18 catalogue, part 1: layout functions, backend numerics, tensor algebra, factorised-tensor conversions."""
import numpy as np


def register(E, v):
    import tensorly as tl
    from tensorly import base as B
    from tensorly import tenalg as A
    from tensorly.tenalg import core_tenalg, einsum_tenalg
    from tensorly import cp_tensor as CPM, tucker_tensor as TKM, tt_tensor as TTM, tr_tensor as TRM
    from tensorly import tt_matrix as TTMM, parafac2_tensor as P2M

    # ------------------------------------------------------------------ layout (tensorly.base)
    E("unfold", "base", 0.05, [v(f"mode={m}", lambda d, m=m: {"out": B.unfold(d.t3(), m)}) for m in range(3)], cx=True)
    E("fold", "base", 0.05, [v(f"mode={m}", lambda d, m=m: {"out": B.fold(d.a(((3, 4, 2)[m], 24 // (3, 4, 2)[m])), m, (3, 4, 2))})
                            for m in range(3)], cx=True)
    E("tensor_to_vec", "base", 0.05, [v("default", lambda d: {"out": B.tensor_to_vec(d.t3())})], cx=True)
    E("vec_to_tensor", "base", 0.05, [v("default", lambda d: {"out": B.vec_to_tensor(d.a((24,)), (3, 4, 2))})], cx=True)
    E("partial_unfold", "base", 0.05, [
        v("ravel=False", lambda d: {"out": B.partial_unfold(d.a((2, 3, 4, 2)), 1, 1, 0, False)}),
        v("ravel=True,skip_end", lambda d: {"out": B.partial_unfold(d.a((2, 3, 4, 2)), 0, 1, 1, True)})], cx=True)
    E("partial_fold", "base", 0.05, [v("default", lambda d: {"out": B.partial_fold(d.a((2, 4, 6)), 1, (2, 3, 4, 2), 1, 0)})], cx=True)
    E("partial_tensor_to_vec", "base", 0.05, [v("default", lambda d: {"out": B.partial_tensor_to_vec(d.a((2, 3, 4)), 1, 0)})], cx=True)
    E("partial_vec_to_tensor", "base", 0.05, [v("default", lambda d: {"out": B.partial_vec_to_tensor(d.a((2, 12)), (2, 3, 4), 1, 0)})], cx=True)
    E("matricize", "base", 0.05, [
        v("rows=[0,2]", lambda d: {"out": B.matricize(d.t3(), [0, 2])}),
        v("rows=[1],cols=[2,0]", lambda d: {"out": B.matricize(d.t3(), [1], [2, 0])})], cx=True)

    # ------------------------------------------------------------------ backend numerics (tensorly.backend)
    E("backend.tensor", "backend", 0.05, [
        v("from-list+context", lambda d: {"out": tl.tensor([[1.0, 2.0], [3.0, 4.0]], **d.ctx)}),
        v("from-float64-array+context", lambda d: {"out": tl.tensor(np.arange(6.0).reshape(2, 3), **d.ctx)}),
        v("context-of-array", lambda d: {"out": tl.tensor([1, 2, 3], **tl.context(d.a((2,))))})], cx=True)
    E("backend.creation", "backend", 0.05, [
        v("zeros", lambda d: {"out": tl.zeros((2, 3), **d.ctx)}),
        v("ones", lambda d: {"out": tl.ones((2, 3), **d.ctx)}),
        v("eye", lambda d: {"out": tl.eye(3, **d.ctx)}),
        v("eye-rect", lambda d: {"out": tl.eye(3, 2, **d.ctx)}),
        v("zeros_like", lambda d: {"out": tl.zeros_like(d.a((2, 3)))}),
        v("copy", lambda d: {"out": tl.copy(d.a((2, 3)))}),
        v("to_numpy", lambda d: {"out": tl.to_numpy(d.a((2, 3)))})], cx=True)
    E("backend.randn", "backend", 0.05, [v("context", lambda d: {"out": tl.randn((3, 2), seed=d.off, **d.ctx)})])
    E("backend.gamma", "backend", 0.05, [v("context", lambda d: {"out": tl.gamma(2.0, 1.5, size=(3, 2), seed=d.off, **d.ctx)})])
    E("backend.norm", "backend", 0.1,
      [v(f"order={o},axis={ax}", lambda d, o=o, ax=ax: {"out@real": tl.norm(d.t3(), o, axis=ax)})
       for o in (1, 2, "inf", 3) for ax in (None, 1, (0, 2))], cx=True)
    E("backend.linalg", "backend", 0.2, [
        v("solve", lambda d: {"out": tl.solve(d.a((3, 3), 1) + 3 * tl.eye(3, **d.ctx), d.a((3, 2), 2))}),
        v("lstsq", lambda d: (lambda r: {"x": r[0], "residuals@real": r[1], "s@real": r[3]})(tl.lstsq(d.a((5, 3), 1), d.a((5, 2), 2)))),
        v("qr", lambda d: dict(zip(("Q", "R"), tl.qr(d.a((5, 3), 1))))),
        v("svd", lambda d: (lambda r: {"U": r[0], "S@real": r[1], "V": r[2]})(tl.svd(d.a((4, 3), 1), full_matrices=False))),
        v("eigh", lambda d: (lambda m: (lambda r: {"w@real": r[0], "v": r[1]})(tl.eigh(m @ tl.conj(m.T))))(d.a((3, 4), 1))),
    ], cx=True)
    E("backend.elementwise", "backend", 0.1, [
        v("clip-min", lambda d: {"out": tl.clip(d.t3(), a_min=0)}),
        v("clip-both", lambda d: {"out": tl.clip(d.t3(), 0, 0.25)}),
        v("sign", lambda d: {"out": tl.sign(d.t3())}),
        v("sqrt", lambda d: {"out": tl.sqrt(d.pos((3, 2)))}),
        v("where", lambda d: (lambda x: {"out": tl.where(x > 0, x, tl.zeros(x.shape, **tl.context(x)))})(d.t3())),
        v("index_update", lambda d: (lambda x: {"out": tl.index_update(x, tl.index[:, 1], d.a((3, 2), 3))})(d.t3())),
        v("mean-axis", lambda d: {"out": tl.mean(d.t3(), axis=1)}),
        v("sum-axis", lambda d: {"out": tl.sum(d.t3(), axis=0)}),
        v("cumsum", lambda d: {"out": tl.cumsum(d.t3(), axis=1)}),
        v("sort", lambda d: {"out": tl.sort(d.a((4, 3)), axis=0)}),
        v("flip", lambda d: {"out": tl.flip(d.t3(), axis=0)}),
        v("diag", lambda d: {"out": tl.diag(d.a((3,)))}),
        v("logsumexp", lambda d: {"out": tl.logsumexp(d.a((4, 3)), axis=0)}),
        v("digamma", lambda d: {"out": tl.digamma(d.pos((3, 2)))}),
    ])
    E("backend.products", "backend", 0.1, [
        v("dot", lambda d: {"out": tl.dot(d.a((3, 4), 1), d.a((4, 2), 2))}),
        v("matmul-batched", lambda d: {"out": tl.matmul(d.a((2, 3, 4), 1), d.a((2, 4, 2), 2))}),
        v("kron", lambda d: {"out": tl.kron(d.a((2, 3), 1), d.a((3, 2), 2))}),
        v("einsum", lambda d: {"out": tl.einsum("ij,jk->ik", d.a((3, 4), 1), d.a((4, 2), 2))}),
        v("tensordot", lambda d: {"out": tl.tensordot(d.t3(1), d.t3(2), axes=([1, 2], [1, 2]))}),
        v("stack", lambda d: {"out": tl.stack([d.a((3, 2), 1), d.a((3, 2), 2)], axis=0)}),
        v("concatenate", lambda d: {"out": tl.concatenate([d.a((3, 2), 1), d.a((1, 2), 2)], axis=0)}),
        v("trace", lambda d: {"out": tl.trace(d.a((3, 3), 1))}),
    ], cx=True)

    # ------------------------------------------------------------------ tensor algebra (both tenalg backends)
    E("mode_dot", "tenalg", 0.1, [
        v("matrix", lambda d: {"out": A.mode_dot(d.t3(), d.a((5, 4), 3), 1)}),
        v("vector", lambda d: {"out": A.mode_dot(d.t3(), d.a((4,), 3), 1)}),
        v("transpose", lambda d: {"out": A.mode_dot(d.t3(), d.a((4, 5), 3), 1, transpose=True)}),
        v("matrix-order2", lambda d: {"out": A.mode_dot(d.a((3, 4)), d.a((2, 3), 3), 0)}, "t"),
    ], cx=True, sigta=True)
    E("multi_mode_dot", "tenalg", 0.15, [
        v("all-modes", lambda d: {"out": A.multi_mode_dot(d.t3(), [d.a((2, 3), 1), d.a((2, 4), 2), d.a((3, 2), 3)])}),
        v("modes-subset", lambda d: {"out": A.multi_mode_dot(d.t3(), [d.a((2, 3), 1), d.a((3, 2), 3)], modes=[0, 2])}),
        v("skip", lambda d: {"out": A.multi_mode_dot(d.t3(), [d.a((2, 3), 1), d.a((2, 4), 2), d.a((3, 2), 3)], skip=1)}),
        v("transpose", lambda d: {"out": A.multi_mode_dot(d.t3(), d.mats(), transpose=True)}),
        v("vectors", lambda d: {"out": A.multi_mode_dot(d.t3(), [d.a((3,), 1), d.a((4,), 2)], modes=[0, 1])}),
    ], cx=True, sigta=True)
    E("kronecker", "tenalg", 0.1, [
        v("default", lambda d: {"out": A.kronecker(d.mats())}),
        v("skip_matrix", lambda d: {"out": A.kronecker(d.mats(), skip_matrix=1)}),
        v("reverse", lambda d: {"out": A.kronecker(d.mats(), reverse=True)}),
        v("single", lambda d: {"out": A.kronecker(d.mats()[:1])}, "t"),
    ], cx=True, sigta=True)
    E("khatri_rao", "tenalg", 0.1, [
        v("default", lambda d: {"out": A.khatri_rao(d.mats())}),
        v("weights", lambda d: {"out": A.khatri_rao(d.mats(), weights=d.w())}),
        v("mask", lambda d: {"out": A.khatri_rao(d.mats(), mask=d.c((np.arange(24) % 3 != 0).reshape(24, 1)))}),
        v("mask-tensor-shaped", lambda d: {"out": A.khatri_rao(d.mats(), mask=d.c((np.arange(24) % 3 != 0).reshape(3, 4, 2)))}),
        v("skip_matrix", lambda d: {"out": A.khatri_rao(d.mats(), skip_matrix=0)}),
        v("two-matrices", lambda d: {"out": A.khatri_rao(d.mats()[:2])}),
        v("one-remaining+weights", lambda d: {"out": A.khatri_rao(d.mats()[:2], weights=d.w(), skip_matrix=0)}, "t"),
    ], cx=True, sigta=True)
    E("inner", "tenalg", 0.1, [
        v("full", lambda d: {"out": A.inner(d.t3(1), d.t3(2))}),
        v("n_modes=2", lambda d: {"out": A.inner(d.a((5, 4, 2), 1), d.a((4, 2, 3), 2), n_modes=2)}),
        v("n_modes=1", lambda d: {"out": A.inner(d.a((3, 4), 1), d.a((4, 2), 2), n_modes=1)}, "t"),
    ], cx=True, sigta=True)
    E("outer", "tenalg", 0.1, [
        v("vectors", lambda d: {"out": A.outer([d.a((3,), 1), d.a((4,), 2), d.a((2,), 3)])}),
        v("tensors", lambda d: {"out": A.outer([d.a((3, 2), 1), d.a((2,), 2)])}),
    ], cx=True, sigta=True)
    E("batched_outer", "tenalg", 0.1, [
        v("default", lambda d: {"out": A.batched_outer([d.a((2, 3), 1), d.a((2, 4), 2), d.a((2, 2), 3)])}),
    ], cx=True, sigta=True)
    E("tensordot", "tenalg", 0.1, [
        v("modes", lambda d: {"out": A.tensordot(d.t3(1), d.t3(2), modes=((1, 2), (1, 2)))}),
        v("batched", lambda d: {"out": A.tensordot(d.t3(1), d.t3(2), modes=(2, 2), batched_modes=(0, 0))}),
    ], cx=True, sigta=True)
    E("unfolding_dot_khatri_rao", "tenalg", 0.15,
      [v(f"no-weights,mode={m}", lambda d, m=m: {"out": A.unfolding_dot_khatri_rao(d.t3(), (None, d.mats()), m)}) for m in range(3)]
      + [v(f"weights,mode={m}", lambda d, m=m: {"out": A.unfolding_dot_khatri_rao(d.t3(), d.cp(), m)}) for m in (0, 2)]
      + [v("order2,weights", lambda d: {"out": A.unfolding_dot_khatri_rao(d.a((3, 4)), d.cp((3, 4)), 0)}, "t")],
      cx=True, sigta=True)
    E("unfolding_dot_khatri_rao_memory", "tenalg", 0.1, [
        v(f"mode={m}", lambda d, m=m: {"out": core_tenalg.unfolding_dot_khatri_rao_memory(d.t3(), d.cp(), m)}) for m in (0, 1)], cx=True)
    E("tenalg.tt_matrix_to_tensor", "tenalg", 0.1, [
        v("core_tenalg", lambda d: {"out": core_tenalg.tt_matrix_to_tensor(d.ttm())}),
        v("einsum_tenalg", lambda d: {"out": einsum_tenalg.tt_matrix_to_tensor(d.ttm())})], cx=True)
    E("higher_order_moment", "tenalg", 0.1, [
        v(f"order={o}", lambda d, o=o: {"out": A.higher_order_moment(d.a((5, 3)), o)}) for o in (2, 3)], sigta=True)

    # ------------------------------------------------------------------ CP format
    E("cp_to_tensor", "cp_tensor", 0.1, [
        v("weights", lambda d: {"out": tl.cp_to_tensor(d.cp())}),
        v("weights=None", lambda d: {"out": tl.cp_to_tensor(d.cp(weights=False))}),
        v("mask", lambda d: {"out": tl.cp_to_tensor(d.cp(), mask=d.c(np.arange(24).reshape(3, 4, 2) % 3 != 0))}),
        v("order2", lambda d: {"out": tl.cp_to_tensor(d.cp((3, 4)))}),
        v("rank1-order4", lambda d: {"out": tl.cp_to_tensor(d.cp((2, 3, 2, 2), 1))}, "t"),
        v("CPTensor-object", lambda d: {"out": tl.cp_to_tensor(CPM.CPTensor(d.cp()))}, "t"),
    ], cx=True, ta=True)
    E("cp_to_unfolded", "cp_tensor", 0.1, [v(f"mode={m}", lambda d, m=m: {"out": tl.cp_to_unfolded(d.cp(), m)}) for m in (0, 2)], cx=True, ta=True)
    E("cp_to_vec", "cp_tensor", 0.1, [v("default", lambda d: {"out": tl.cp_to_vec(d.cp())})], cx=True, ta=True)
    E("cp_norm", "cp_tensor", 0.1, [
        v("weights", lambda d: {"out@real": tl.cp_norm(d.cp())}),
        v("weights=None", lambda d: {"out@real": tl.cp_norm(d.cp(weights=False))})], cx=True, ta=True)
    E("cp_normalize", "cp_tensor", 0.1, [
        v("weights", lambda d: {"cp": tl.cp_normalize(d.cp())}),
        v("weights=None", lambda d: {"cp": tl.cp_normalize(d.cp(weights=False))}),
        v("zero-column", lambda d: (lambda w, f: {"cp": tl.cp_normalize((w, [f[0] * d.c([1, 0]), f[1], f[2]]))})(*d.cp())),
    ], cx=True, ta=True)
    E("cp_mode_dot", "cp_tensor", 0.1, [
        v("matrix", lambda d: {"cp": tl.cp_mode_dot(CPM.CPTensor(d.cp()), d.a((5, 4), 5), 1)}),
        v("vector", lambda d: {"cp": tl.cp_mode_dot(CPM.CPTensor(d.cp()), d.a((4,), 5), 1)}),
        v("vector-keep_dim", lambda d: {"cp": tl.cp_mode_dot(CPM.CPTensor(d.cp()), d.a((4,), 5), 1, keep_dim=True)}),
        v("matrix-copy,tuple-input", lambda d: {"cp": tl.cp_mode_dot(d.cp(), d.a((5, 4), 5), 1, copy=True)}),
        v("vector-copy,tuple-input", lambda d: {"cp": tl.cp_mode_dot(d.cp(), d.a((4,), 5), 1, copy=True)}),
    ], cx=True, ta=True)
    E("cp_flip_sign", "cp_tensor", 0.1, [
        v("mode=0", lambda d: {"cp": CPM.cp_flip_sign(d.cp(), mode=0)}),
        v("mode=1,func=sum", lambda d: {"cp": CPM.cp_flip_sign(d.cp(), mode=1, func=tl.sum)})])
    E("cp_lstsq_grad", "cp_tensor", 0.15, [
        v("default", lambda d: {"grad": CPM.cp_lstsq_grad(d.cp(), d.t3(12))}),
        v("return_loss", lambda d: (lambda r: {"grad": r[0], "loss~": r[1]})(CPM.cp_lstsq_grad(d.cp(), d.t3(12), return_loss=True))),
        v("mask", lambda d: {"grad": CPM.cp_lstsq_grad(d.cp(), d.t3(12), mask=d.c(np.arange(24).reshape(3, 4, 2) % 3 != 0))}),
    ], ta=True)
    E("cp_permute_factors", "cp_tensor", 0.3, [
        v("single", lambda d: (lambda r: {"cp": r[0], "perm": r[1]})(CPM.cp_permute_factors(CPM.CPTensor(d.cp(k=1)), CPM.CPTensor(d.cp(k=3))))),
        v("list", lambda d: (lambda r: {"cp": r[0], "perm": r[1]})(
            CPM.cp_permute_factors(CPM.CPTensor(d.cp(k=1)), [CPM.CPTensor(d.cp(k=3)), CPM.CPTensor(d.cp(k=5))]))),
    ])
    E("CPTensor.methods", "cp_tensor", 0.3, [
        v("to_tensor/to_vec/to_unfolded", lambda d: (lambda c: {"full": c.to_tensor(), "vec": c.to_vec(), "unf": c.to_unfolded(1)})(CPM.CPTensor(d.cp()))),
        v("weights=None-constructor", lambda d: (lambda c: {"cp": c})(CPM.CPTensor(d.cp(weights=False)))),
        v("mode_dot", lambda d: {"cp": CPM.CPTensor(d.cp()).mode_dot(d.a((5, 4), 5), 1)}),
        v("norm", lambda d: {"out@real": CPM.CPTensor(d.cp()).norm()}),
        v("normalize", lambda d: (lambda c: (c.normalize(), {"cp": c})[1])(CPM.CPTensor(d.cp()))),
    ], cx=True, ta=True)

    # ------------------------------------------------------------------ Tucker format
    E("tucker_to_tensor", "tucker_tensor", 0.1, [
        v("default", lambda d: {"out": tl.tucker_to_tensor(d.tucker())}),
        v("skip_factor", lambda d: {"out": tl.tucker_to_tensor(d.tucker(), skip_factor=1)}),
        v("transpose_factors", lambda d: (lambda c, f: {"out": tl.tucker_to_tensor((d.a((3, 4, 2), 7), f), transpose_factors=True)})(*d.tucker())),
        v("order2", lambda d: {"out": tl.tucker_to_tensor(d.tucker((3, 4), (2, 2)))}, "t"),
    ], cx=True, ta=True)
    E("tucker_to_unfolded", "tucker_tensor", 0.1, [
        v("mode=1", lambda d: {"out": tl.tucker_to_unfolded(d.tucker(), 1)}),
        v("mode=0,skip_factor", lambda d: {"out": tl.tucker_to_unfolded(d.tucker(), 0, skip_factor=2)})], cx=True, ta=True)
    E("tucker_to_vec", "tucker_tensor", 0.1, [v("default", lambda d: {"out": tl.tucker_to_vec(d.tucker())})], cx=True, ta=True)
    E("tucker_mode_dot", "tucker_tensor", 0.1, [
        v("matrix", lambda d: {"tk": tl.tucker_mode_dot(d.tucker(), d.a((5, 4), 5), 1)}),
        v("vector", lambda d: {"tk": tl.tucker_mode_dot(d.tucker(), d.a((4,), 5), 1)}),
        v("vector-keep_dim", lambda d: {"tk": tl.tucker_mode_dot(d.tucker(), d.a((4,), 5), 1, keep_dim=True)}),
        v("matrix-copy", lambda d: {"tk": tl.tucker_mode_dot(d.tucker(), d.a((5, 4), 5), 1, copy=True)}),
    ], cx=True, ta=True)
    E("tucker_normalize", "tucker_tensor", 0.1, [
        v("default", lambda d: {"tk": TKM.tucker_normalize(d.tucker())}),
        v("zero-column", lambda d: (lambda c, f: {"tk": TKM.tucker_normalize((c, [f[0] * d.c([1, 0]), f[1], f[2]]))})(*d.tucker())),
    ], cx=True, ta=True)
    E("TuckerTensor.methods", "tucker_tensor", 0.3, [
        v("to_tensor/to_vec/to_unfolded", lambda d: (lambda c: {"full": c.to_tensor(), "vec": c.to_vec(), "unf": c.to_unfolded(1)})(TKM.TuckerTensor(d.tucker()))),
        v("mode_dot", lambda d: {"tk": TKM.TuckerTensor(d.tucker()).mode_dot(d.a((5, 4), 5), 1)}),
        v("normalize", lambda d: (lambda c: (c.normalize(), {"tk": c})[1])(TKM.TuckerTensor(d.tucker()))),
    ], cx=True, ta=True)

    # ------------------------------------------------------------------ TT / TR / TT-matrix formats
    E("tt_to_tensor", "tt_tensor", 0.1, [
        v("order3", lambda d: {"out": tl.tt_to_tensor(d.tt())}),
        v("order2", lambda d: {"out": tl.tt_to_tensor(d.tt((3, 4), (1, 2, 1)))}, "t"),
        v("TTTensor-object", lambda d: {"out": TTM.TTTensor(d.tt()).to_tensor()})], cx=True, ta=True)
    E("tt_to_unfolded", "tt_tensor", 0.1, [v("mode=1", lambda d: {"out": tl.tt_to_unfolded(d.tt(), 1)})], cx=True, ta=True)
    E("tt_to_vec", "tt_tensor", 0.1, [v("default", lambda d: {"out": tl.tt_to_vec(d.tt())})], cx=True, ta=True)
    E("pad_tt_rank", "tt_tensor", 0.1, [
        v("default", lambda d: {"tt": tl.pad_tt_rank(d.tt(), n_padding=1)}),
        v("pad_boundaries", lambda d: {"tt": tl.pad_tt_rank(d.tt(), n_padding=2, pad_boundaries=True)})], cx=True)
    E("tr_to_tensor", "tr_tensor", 0.1, [
        v("order3", lambda d: {"out": tl.tr_to_tensor(d.tr())}),
        v("TRTensor-object", lambda d: {"out": TRM.TRTensor(d.tr()).to_tensor()})], cx=True, ta=True)
    E("tr_to_unfolded", "tr_tensor", 0.1, [v("mode=1", lambda d: {"out": tl.tr_to_unfolded(d.tr(), 1)})], cx=True, ta=True)
    E("tr_to_vec", "tr_tensor", 0.1, [v("default", lambda d: {"out": tl.tr_to_vec(d.tr())})], cx=True, ta=True)
    E("tt_matrix_to_tensor", "tt_matrix", 0.1, [
        v("default", lambda d: {"out": tl.tt_matrix_to_tensor(d.ttm())}),
        v("TTMatrix-object", lambda d: {"out": TTMM.TTMatrix(d.ttm()).to_tensor()})], cx=True, ta=True)
    E("tt_matrix_to_matrix", "tt_matrix", 0.1, [v("default", lambda d: {"out": tl.tt_matrix_to_matrix(d.ttm())})], cx=True, ta=True)
    E("tt_matrix_to_unfolded", "tt_matrix", 0.1, [v("mode=1", lambda d: {"out": tl.tt_matrix_to_unfolded(d.ttm(), 1)})], cx=True, ta=True)
    E("tt_matrix_to_vec", "tt_matrix", 0.1, [v("default", lambda d: {"out": tl.tt_matrix_to_vec(d.ttm())})], cx=True, ta=True)

    # ------------------------------------------------------------------ PARAFAC2 format
    E("parafac2_to_tensor", "parafac2_tensor", 0.2, [
        v("weights", lambda d: {"out": P2M.parafac2_to_tensor(d.pf2())}),
        v("weights=None", lambda d: {"out": P2M.parafac2_to_tensor(d.pf2(weights=False))})], cx=True, ta=True)
    E("parafac2_to_slices", "parafac2_tensor", 0.2, [
        v("validate", lambda d: {"out": P2M.parafac2_to_slices(d.pf2())}),
        v("no-validate", lambda d: {"out": P2M.parafac2_to_slices(d.pf2(), validate=False)})], cx=True, ta=True)
    E("parafac2_to_slice", "parafac2_tensor", 0.2, [v("slice=1", lambda d: {"out": P2M.parafac2_to_slice(d.pf2(), 1)})], cx=True, ta=True)
    E("parafac2_to_unfolded", "parafac2_tensor", 0.2, [v("mode=1", lambda d: {"out": P2M.parafac2_to_unfolded(d.pf2(), 1)})], cx=True, ta=True)
    E("parafac2_to_vec", "parafac2_tensor", 0.2, [v("default", lambda d: {"out": P2M.parafac2_to_vec(d.pf2())})], cx=True, ta=True)
    E("parafac2_normalise", "parafac2_tensor", 0.2, [
        v("weights", lambda d: {"pf2": P2M.parafac2_normalise(d.pf2())}),
        v("weights=None", lambda d: {"pf2": P2M.parafac2_normalise(d.pf2(weights=False))})], cx=True)
    E("apply_parafac2_projections", "parafac2_tensor", 0.2, [
        v("default", lambda d: (lambda r: {"weights": r[0], "factors": r[1]})(P2M.apply_parafac2_projections(d.pf2())))], cx=True)
    E("Parafac2Tensor.methods", "parafac2_tensor", 0.3, [
        v("constructor-weights=None", lambda d: {"pf2": P2M.Parafac2Tensor(d.pf2(weights=False))}),
        v("from_CPTensor", lambda d: {"pf2": P2M.Parafac2Tensor.from_CPTensor(CPM.CPTensor(d.cp((3, 4, 3))))}),
        v("to_tensor", lambda d: {"out": P2M.Parafac2Tensor(d.pf2()).to_tensor()}),
    ], cx=True, ta=True)
