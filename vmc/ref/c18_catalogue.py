"""C18 catalogue: array-returning public entry points of tensorly x option variants that select
different allocation paths.

An entry is a dict
    {"name", "family", "cost", "cx", "ta", "sigta", "variants": [ {"label", "fn", "tier", "cx"} ]}
* ``fn(d)`` builds its inputs from the data factory ``d`` (class Dat: dtype + table offset, no RNG),
  calls the REAL tensorly function and returns a dict {role: object}; the checker walks every
  array below every role.
* role-name conventions (interpreted by vmc/props/c18.py):
    "errors~"   trailing "~": exempt by name (error lists / losses), only counted
    "S@real"    trailing "@real": mathematically real quantity (singular values, norms) - for
                complex input a real array of the same precision is accepted there
    "dist@f64"  trailing "@f64": documented exception - must be float64 whatever the input
* "cx": the entry (or variant) supports complex input;  "ta": the result depends on the tensor-algebra
  backend (core / einsum), "sigta": the two tenalg backends are separate implementations of the
  entry itself, so the backend name is part of the violation signature.
* tier "q"/"t": curated variants (both tiers; "t" marks the secondary ones), "x": full option cross products
  (vmc/ref/c18_cat_cross.py), thorough tier only.

Only python scalars are passed as numeric options (a numpy float64 scalar would legitimately promote
a float32 array under NEP 50).  Masks and user initialisations are given in the dtype of the data.
"""
import numpy as np

from vmc import values as V

DTYPES = ("float32", "float64", "complex128")


class Dat:
    """Deterministic data in a requested dtype (tables of vmc.values; ``off`` = VERIF_SEED rotation)."""

    def __init__(self, dtype, off=0, scale=1.0):
        self.dtype = np.dtype(dtype)
        self.off = int(off)
        self.scale = float(scale)  # unit of the data (python float: does not promote); tiny units reach "guard" branches

    @property
    def ctx(self):
        return {"dtype": self.dtype}

    def a(self, shape, k=0, signed=True):
        shape = tuple(shape)
        x = V.generic(shape, self.off + k, signed=signed)
        if self.dtype.kind == "c":
            x = x + 1j * V.generic(shape, self.off + k + 41, signed=True)
        return np.ascontiguousarray((x * self.scale).astype(self.dtype))

    def pos(self, shape, k=0):
        return self.a(shape, k, signed=False)

    def c(self, x):
        return np.ascontiguousarray(np.asarray(x).astype(self.dtype))

    # ---- standard objects ----------------------------------------------------------------
    def t3(self, k=0, signed=True, shape=(3, 4, 2)):
        return self.a(shape, k, signed)

    def mats(self, shape=(3, 4, 2), rank=2, k=1, signed=True):
        return [self.a((s, rank), k + i, signed) for i, s in enumerate(shape)]

    def w(self, rank=2, k=9):
        return self.pos((rank,), k)

    def cp(self, shape=(3, 4, 2), rank=2, k=1, weights=True, signed=True):
        return (self.w(rank, k + 8) if weights else None, self.mats(shape, rank, k, signed))

    def tucker(self, shape=(3, 4, 2), ranks=(2, 3, 2), k=1):
        return (self.a(ranks, k + 7), [self.a((s, r), k + i) for i, (s, r) in enumerate(zip(shape, ranks))])

    def tt(self, shape=(3, 4, 2), ranks=(1, 2, 2, 1), k=1):
        return [self.a((ranks[i], s, ranks[i + 1]), k + i) for i, s in enumerate(shape)]

    def tr(self, shape=(3, 4, 2), ranks=(2, 2, 2, 2), k=1):
        return [self.a((ranks[i], s, ranks[i + 1]), k + i) for i, s in enumerate(shape)]

    def ttm(self, k=1):
        return [self.a((1, 2, 3, 2), k), self.a((2, 2, 3, 1), k + 1)]

    def slices(self, k=1, rows=(3, 4, 3), cols=3):
        return [self.a((r, cols), k + i) for i, r in enumerate(rows)]

    def pf2(self, k=1, rank=2, rows=(3, 4, 3), ncol=3, weights=True):
        """(weights, (A, B, C), projections) with orthonormal projection columns (QR computed in float64 /
        complex128 by the harness, then cast)."""
        A = self.a((len(rows), rank), k)
        B = self.a((rank, rank), k + 1)
        C = self.a((ncol, rank), k + 2)
        P = []
        for i, r in enumerate(rows):
            m = V.generic((r, rank), self.off + k + 3 + i)
            if self.dtype.kind == "c":
                m = m + 1j * V.generic((r, rank), self.off + k + 44 + i)
            q, _ = np.linalg.qr(m)
            P.append(self.c(q))
        return (self.w(rank, k + 8) if weights else None, [A, B, C], P)

    def gram(self, n=3, m=5, k=1):
        """(UtM, UtU) of a well conditioned non-negative least-squares problem, computed in the dtype."""
        U = self.pos((m + 2, n), k)
        M = self.pos((m + 2, m), k + 1)
        return self.c(U.T @ M), self.c(U.T @ U)


def _v(label, fn, tier="q", cx=None):
    return {"label": label, "fn": fn, "tier": tier, "cx": cx}


ENTRIES = []


def _e(name, family, cost, variants, cx=False, ta=False, sigta=False):
    ENTRIES.append({"name": name, "family": family, "cost": float(cost), "cx": cx, "ta": ta or sigta, "sigta": sigta,
                    "variants": variants})


def _np_rng_guard(fn):
    """Entry points that draw from numpy's GLOBAL generator: seed it deterministically, restore afterwards."""
    def wrapped(d):
        st = np.random.get_state()
        np.random.seed(1234 + d.off)
        try:
            return fn(d)
        finally:
            np.random.set_state(st)
    return wrapped


def build():
    """Populate ENTRIES (imports tensorly lazily so that VERIF_REPO is honoured)."""
    if ENTRIES:
        return ENTRIES
    from vmc.ref import c18_cat_algebra, c18_cat_decomp, c18_cat_misc, c18_cat_cross

    c18_cat_algebra.register(_e, _v)
    helpers = c18_cat_decomp.register(_e, _v, _np_rng_guard)
    c18_cat_misc.register(_e, _v, _np_rng_guard)
    c18_cat_cross.register(ENTRIES, _v, _np_rng_guard, helpers)
    names = [e["name"] for e in ENTRIES]
    assert len(names) == len(set(names)), "duplicate entry names"
    return ENTRIES
