"""Reference helpers for C04 (boring loops on python numbers; no reshape / einsum / BLAS).

* dense reconstructions on nested python lists / numpy arrays read entry by entry:
  CP, Tucker (via vmc.ref.core), PARAFAC2 (zero-padded uneven slices), generic chain contraction
  (TT, TT-matrix: open chain; TR: closed chain / trace),
* deterministic integer column builders for the degenerate column kinds
  G generic (non-zero entries, non-zero sum) / Z all-zero / M zero-mean but non-zero / N all-negative.
"""
from itertools import product as _product

import numpy as np

from vmc import values as V
from vmc.ref import core as RC


# ----------------------------------------------------------------------------------------- column / weight tables
def column(kind, size, off):
    """Integer column (python ints) of the requested kind; `off` rotates the value table."""
    base = [int(x) for x in V.ints((size,), off, 3, nonzero=True)]
    if kind == "Z":
        return [0] * size
    if kind == "N":
        return [-abs(x) for x in base]
    if kind == "G":
        if sum(base) == 0:
            base[0] += 1 if base[0] > 0 else -1
        return base
    if kind == "M":
        assert size >= 2
        head = base[: size - 1]
        return head + [-sum(head)]
    raise ValueError(kind)


def factor(kinds, size, off):
    """size x R float64 matrix whose r-th column has kind kinds[r]."""
    cols = [column(k, size, off * 5 + r * 11 + 1) for r, k in enumerate(kinds)]
    return np.array([[cols[r][i] for r in range(len(kinds))] for i in range(size)], dtype=np.float64).reshape(size, len(kinds))


WCLASSES = ["none", "ones", "positive", "negative", "mixed", "zero"]


def weights(wclass, R, off):
    """None or a length-R float64 vector of small integers of the requested sign class."""
    if wclass == "none":
        return None
    if wclass == "ones":
        return np.ones(R)
    mag = [int(x) for x in V.posints((R,), off, 3)]
    if wclass == "positive":
        return np.array(mag, dtype=np.float64)
    if wclass == "negative":
        return -np.array(mag, dtype=np.float64)
    if wclass == "mixed":
        return np.array([-m if r % 2 == 0 else m for r, m in enumerate(mag)], dtype=np.float64)
    if wclass == "zero":  # one exactly-zero weight, the others of mixed sign
        return np.array([0 if r == 0 else (-m if r % 2 == 0 else m) for r, m in enumerate(mag)], dtype=np.float64)
    raise ValueError(wclass)


def wclasses_for(R):
    return [w for w in WCLASSES if not (R == 1 and w == "mixed")]  # for R = 1 'mixed' coincides with 'negative'


# ----------------------------------------------------------------------------------------- dense references
def _lists(a):
    return np.asarray(a).tolist()


def cp_dense(weights_, factors):
    """sum_r w_r prod_k F_k[i_k, r] with python floats; factors: list of 2-D arrays; returns numpy array."""
    fl = [_lists(f) for f in factors]
    R = len(fl[0][0]) if fl[0] else np.asarray(factors[0]).shape[1]
    w = [1.0] * R if weights_ is None else [float(x) for x in np.asarray(weights_).reshape(-1)]
    shape = tuple(len(f) for f in fl)
    out = []
    for idx in _product(*[range(s) for s in shape]):
        s = 0.0
        for r in range(R):
            v = w[r]
            for k, i in enumerate(idx):
                v = v * fl[k][i][r]
            s = s + v
        out.append(s)
    return np.array(out, dtype=np.float64).reshape(shape)


def tucker_dense(core, factors):
    t = RC.tucker_dense(RC.RT.from_np(core), [RC.RT.from_np(f) for f in factors])
    return t.to_np(float)


def mode_dot(dense, m, mode):
    return RC.mode_dot(RC.RT.from_np(dense), RC.RT.from_np(m), mode).to_np(float)


def pf2_dense(weights_, factors, projections):
    """X[i, j, k] = sum_r w_r A[i, r] (P_i B)[j, r] C[k, r]; rows j >= height_i are zero (padding)."""
    A, B, C = [_lists(f) for f in factors]
    P = [_lists(p) for p in projections]
    R = len(B[0])
    w = [1.0] * R if weights_ is None else [float(x) for x in np.asarray(weights_).reshape(-1)]
    I, K = len(A), len(C)
    J = max(len(p) for p in P)
    out = np.zeros((I, J, K))
    for i in range(I):
        for j in range(len(P[i])):
            Bi = [sum(P[i][j][q] * B[q][r] for q in range(len(B))) for r in range(R)]
            for k in range(K):
                out[i, j, k] = sum(w[r] * A[i][r] * Bi[r] * C[k][r] for r in range(R))
    return out


def chain_dense(cores, closed):
    """Cores (r_k, *s_k, r_{k+1}).  Output shape = concatenation of all s_k (core order).
    open chain (closed=False): r_0 = r_N = 1;  closed chain: trace over r_0 = r_N."""
    cl = [np.asarray(c) for c in cores]
    mids = [c.shape[1:-1] for c in cl]
    shape = tuple(s for m in mids for s in m)
    r0 = cl[0].shape[0]
    out = []
    for multi in _product(*[_product(*[range(s) for s in m]) for m in mids]):
        tot = 0.0
        for a0 in (range(r0) if closed else [0]):
            v = [1.0 if a == a0 else 0.0 for a in range(r0)]
            for c, mi in zip(cl, multi):
                sl = c[(slice(None),) + tuple(mi) + (slice(None),)].tolist()
                v = [sum(v[a] * sl[a][b] for a in range(len(sl))) for b in range(c.shape[-1])]
            tot += v[a0]
        out.append(tot)
    return np.array(out, dtype=np.float64).reshape(shape)


def maxdiff(a, b):
    """max |a - b| (inf on shape mismatch or any non-finite entry)."""
    a = np.asarray(a, dtype=np.float64)
    b = np.asarray(b, dtype=np.float64)
    if a.shape != b.shape:
        return float("inf")
    if a.size == 0:
        return 0.0
    d = np.abs(a - b)
    if not np.all(np.isfinite(d)):
        return float("inf")
    return float(d.max())


def colnorms(f):
    fl = _lists(f)
    R = len(fl[0]) if fl else 0
    return [sum(row[r] * row[r] for row in fl) ** 0.5 for r in range(R)]
