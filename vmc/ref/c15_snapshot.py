"""C15 helpers: deep byte-level snapshots of call arguments, comparison after the call, and the
"argument kind" transforms (memory layout of every array leaf, container kind of every factorised
tensor, read-only arrays).

Nothing here knows about tensorly except `materialise` (which wraps a placeholder in the real wrapper
classes).  Keep it boring: explicit recursion, no cleverness.

Snapshot node (a dict):
  arr : ndarray       -> id, dtype, shape, strides, C-order bytes of the logical content, bytes of the root buffer
                         (the array `.base` chain ends in), reference to the array itself
  seq : list / tuple  -> id, type, child nodes (one per slot, remembering the id of the element in the slot)
  map : dict          -> id, {key: child}
  obj : object with __dict__ (tensorly wrapper classes)  -> id, type, {attribute: child}
  val : immutable scalar-like (int, float, str, None, bool, numpy scalar, slice, range, ...) -> repr
  opq : anything else (callables, RandomState, ...) -> not compared
The snapshot keeps a reference to every object it visited, so `id`s stay valid and the *original* objects
can be re-read after the call even when the library has rebound the slot that held them.
"""
import numpy as np

_SCALARS = (int, float, complex, str, bytes, bool, type(None), np.generic, slice, range, type(Ellipsis))


# --------------------------------------------------------------------------------------------
# placeholders used by the catalogue
class Dec:
    """Placeholder for a factorised tensor argument; `materialise` turns it into a tuple / list / wrapper object.

    kind  : "cp" (weights, [factors]) | "tucker" (core, [factors]) | "tt" [factors] | "tr" [factors] |
            "ttm" [factors] | "parafac2" (weights, [factors], [projections])
    parts : tuple of the components (arrays / lists of arrays / None)
    only  : restrict the container kinds that make sense for the call (e.g. methods need the wrapper)
    """

    def __init__(self, kind, parts, only=None):
        self.kind = kind
        self.parts = parts
        self.only = tuple(only) if only else None

    def containers(self):
        base = ("tuple", "list", "wrapper") if self.kind in ("cp", "tucker", "parafac2") else ("list", "tuple", "wrapper")
        return tuple(c for c in base if self.only is None or c in self.only)


def find_decs(obj, out=None):
    out = [] if out is None else out
    if isinstance(obj, Dec):
        out.append(obj)
        for p in obj.parts:
            find_decs(p, out)
    elif isinstance(obj, (list, tuple)):
        for o in obj:
            find_decs(o, out)
    elif isinstance(obj, dict):
        for o in obj.values():
            find_decs(o, out)
    return out


# --------------------------------------------------------------------------------------------
# array-kind transforms
SENTINEL = 7.0


def relayout(a, layout):
    """Array with the same logical content as `a` (same dtype) in the requested memory layout."""
    a = np.array(a, copy=True, order="C")
    if layout == "fresh" or a.ndim == 0:
        return a
    if layout == "tview":  # transposed view of a C-contiguous buffer (F-ordered, does not own its data)
        if a.ndim < 2:
            buf = np.full((a.shape[0], 2), SENTINEL if a.dtype.kind != "b" else True, dtype=a.dtype)
            buf[:, 0] = a
            return buf[:, 0]  # 1-D: column of a 2-column buffer (strided, not owning)
        buf = np.ascontiguousarray(a.transpose(tuple(reversed(range(a.ndim)))))
        return buf.transpose(tuple(reversed(range(a.ndim))))
    if layout == "negstride":  # reversed view of a reversed copy: negative strides on every axis
        rev = tuple(slice(None, None, -1) for _ in a.shape)
        return np.ascontiguousarray(a[rev])[rev]
    if layout == "strided":  # every other element of a larger buffer, offset 1, sentinel in between
        big = np.full(tuple(2 * s + 1 for s in a.shape), SENTINEL if a.dtype.kind != "b" else True, dtype=a.dtype)
        sl = tuple(slice(1, 2 * s + 1, 2) for s in a.shape)
        big[sl] = a
        return big[sl]
    raise ValueError(layout)


def map_arrays(obj, fn):
    """Rebuild `obj` (lists, tuples, dicts, Dec placeholders) with fn applied to every ndarray leaf."""
    if isinstance(obj, np.ndarray):
        return fn(obj)
    if isinstance(obj, Dec):
        return Dec(obj.kind, tuple(map_arrays(p, fn) for p in obj.parts), obj.only)
    if isinstance(obj, list):
        return [map_arrays(o, fn) for o in obj]
    if isinstance(obj, tuple):
        return tuple(map_arrays(o, fn) for o in obj)
    if isinstance(obj, dict):
        return {k: map_arrays(v, fn) for k, v in obj.items()}
    return obj


def has_arrays(obj):
    found = []
    map_arrays(obj, lambda a: found.append(1) or a)
    return bool(found)


def materialise(obj, container):
    """Replace every Dec placeholder by a real argument of the requested container kind."""
    if isinstance(obj, Dec):
        parts = tuple(materialise(p, container) for p in obj.parts)
        c = container if (obj.only is None or container in obj.only) else obj.containers()[0]
        if obj.kind in ("tt", "tr", "ttm"):
            factors = list(parts[0])
            if c == "list":
                return factors
            if c == "tuple":
                return tuple(factors)
            import tensorly as tl

            cls = {"tt": tl.tt_tensor.TTTensor, "tr": tl.tr_tensor.TRTensor, "ttm": tl.tt_matrix.TTMatrix}[obj.kind]
            return cls(factors)
        if c == "tuple":
            return tuple(parts)
        if c == "list":
            return list(parts)
        import tensorly as tl

        cls = {"cp": tl.cp_tensor.CPTensor, "tucker": tl.tucker_tensor.TuckerTensor,
               "parafac2": tl.parafac2_tensor.Parafac2Tensor}[obj.kind]
        return cls(tuple(parts))
    if isinstance(obj, list):
        return [materialise(o, container) for o in obj]
    if isinstance(obj, tuple):
        return tuple(materialise(o, container) for o in obj)
    if isinstance(obj, dict):
        return {k: materialise(v, container) for k, v in obj.items()}
    return obj


def set_readonly(obj, seen=None):
    """Clear the writeable flag of every array reachable from an (already materialised) argument."""
    seen = set() if seen is None else seen
    if id(obj) in seen:
        return 0
    seen.add(id(obj))
    n = 0
    if isinstance(obj, np.ndarray):
        root = obj
        while isinstance(root.base, np.ndarray):
            root = root.base
        root.setflags(write=False)
        obj.setflags(write=False)
        return 1
    if isinstance(obj, (list, tuple)):
        for o in obj:
            n += set_readonly(o, seen)
    elif isinstance(obj, dict):
        for o in obj.values():
            n += set_readonly(o, seen)
    elif hasattr(obj, "__dict__") and not callable(obj):
        for o in vars(obj).values():
            n += set_readonly(o, seen)
    return n


# --------------------------------------------------------------------------------------------
# snapshot
def _root(a):
    r = a
    while isinstance(r.base, np.ndarray):
        r = r.base
    return r


def snapshot(obj, memo=None):
    memo = {} if memo is None else memo
    if id(obj) in memo:
        return memo[id(obj)]
    if isinstance(obj, np.ndarray):
        root = _root(obj)
        node = {"t": "arr", "id": id(obj), "ref": obj, "dtype": obj.dtype.str, "shape": tuple(obj.shape),
                "strides": tuple(obj.strides), "bytes": obj.tobytes(order="C"), "writeable": bool(obj.flags.writeable),
                "root": root if root is not obj else None,
                "root_bytes": root.tobytes(order="C") if root is not obj else None,
                "root_meta": (root.dtype.str, tuple(root.shape), tuple(root.strides)) if root is not obj else None}
        memo[id(obj)] = node
        return node
    if isinstance(obj, _SCALARS):
        return {"t": "val", "v": _vrepr(obj), "id": id(obj), "ref": obj}
    if isinstance(obj, (list, tuple)):
        node = {"t": "seq", "type": type(obj), "id": id(obj), "ref": obj, "items": None}
        memo[id(obj)] = node
        node["items"] = [snapshot(o, memo) for o in obj]
        return node
    if isinstance(obj, dict):
        node = {"t": "map", "type": type(obj), "id": id(obj), "ref": obj, "items": None}
        memo[id(obj)] = node
        node["items"] = {k: snapshot(v, memo) for k, v in obj.items()}
        return node
    if hasattr(obj, "__dict__") and not callable(obj) and type(obj).__module__.startswith("tensorly"):
        node = {"t": "obj", "type": type(obj), "id": id(obj), "ref": obj, "items": None}
        memo[id(obj)] = node
        node["items"] = {k: snapshot(v, memo) for k, v in vars(obj).items()}
        return node
    return {"t": "opq", "id": id(obj), "ref": obj}


def _vrepr(v):
    if isinstance(v, (float, np.floating)):
        return f"{type(v).__name__}:{float(v).hex()}"
    if isinstance(v, (complex, np.complexfloating)):
        return f"{type(v).__name__}:{complex(v).real.hex()},{complex(v).imag.hex()}"
    return f"{type(v).__name__}:{v!r}"


def equals_snapshot(obj, node):
    """Bit-for-bit value equality of a live object with a snapshot node (what a deep copy would compare as)."""
    t = node["t"]
    if t == "arr":
        return (isinstance(obj, np.ndarray) and obj.dtype.str == node["dtype"] and tuple(obj.shape) == node["shape"]
                and obj.tobytes(order="C") == node["bytes"])
    if t == "val":
        return isinstance(obj, _SCALARS) and _vrepr(obj) == node["v"]
    if t == "seq":
        return (type(obj) is node["type"] and len(obj) == len(node["items"])
                and all(equals_snapshot(o, n) for o, n in zip(obj, node["items"])))
    if t == "map":
        return (type(obj) is node["type"] and list(obj.keys()) == list(node["items"].keys())
                and all(equals_snapshot(obj[k], n) for k, n in node["items"].items()))
    if t == "obj":
        return (type(obj) is node["type"] and hasattr(obj, "__dict__") and set(vars(obj)) == set(node["items"])
                and all(equals_snapshot(vars(obj)[k], n) for k, n in node["items"].items()))
    return obj is node["ref"]


def _short(x, n=140):
    s = repr(x)
    return s if len(s) <= n else s[: n - 3] + "..."


def _describe(obj):
    if isinstance(obj, np.ndarray):
        return f"ndarray{obj.shape}{obj.dtype} {_short(obj.tolist(), 100)}"
    return _short(obj, 100)


def compare(node, path, diffs, counters, seen=None):
    """Re-read every ORIGINAL object recorded in the snapshot and report differences.

    diffs gets tuples (path, aspect, detail); path is a list of components (param, 'factors', 3, ...).
    counters: dict of free counters (e.g. slots rebound to an equal value, which is not a difference).
    """
    seen = set() if seen is None else seen
    if node["id"] in seen and node["t"] != "val":
        return
    seen.add(node["id"])
    t = node["t"]
    ref = node["ref"]
    if t == "arr":
        meta_now = (ref.dtype.str, tuple(ref.shape), tuple(ref.strides))
        meta_then = (node["dtype"], node["shape"], node["strides"])
        if meta_now != meta_then:
            diffs.append((path, "array-meta-changed", f"(dtype, shape, strides) {meta_then} -> {meta_now}"))
            return
        now = ref.tobytes(order="C")
        if now != node["bytes"]:
            before = np.frombuffer(node["bytes"], dtype=ref.dtype).reshape(ref.shape)
            neq = ~((before == ref) | ((before != before) & (ref != ref))) if ref.dtype.kind in "fc" else (before != ref)
            nchanged = int(np.count_nonzero(neq)) or 1
            diffs.append((path, "array-written", f"{nchanged}/{ref.size} entries changed; before={_short(before.tolist(), 160)} "
                                                  f"after={_short(ref.tolist(), 160)}"))
        elif node["root"] is not None:
            root = node["root"]
            if (root.dtype.str, tuple(root.shape), tuple(root.strides)) != node["root_meta"] or root.tobytes(order="C") != node["root_bytes"]:
                diffs.append((path, "array-buffer-written-outside-view", "the buffer the view lives in changed outside the view"))
        if bool(ref.flags.writeable) != node["writeable"]:
            diffs.append((path, "array-flags-changed", f"writeable {node['writeable']} -> {bool(ref.flags.writeable)}"))
        return
    if t in ("val", "opq"):
        return
    if t == "seq":
        items = node["items"]
        if type(ref) is list:
            if len(ref) != len(items):
                diffs.append((path, "list-length-changed", f"len {len(items)} -> {len(ref)}; before=[{', '.join(_describe(n['ref']) for n in items)}] "
                                                            f"after=[{', '.join(_describe(o) for o in ref)}]"))
            else:
                for i, (o, n) in enumerate(zip(ref, items)):
                    _slot(o, n, path + [i], diffs, counters)
        for i, n in enumerate(items):
            compare(n, path + [i], diffs, counters, seen)
        return
    if t == "map":
        items = node["items"]
        if list(ref.keys()) != list(items.keys()):
            diffs.append((path, "dict-keys-changed", f"{list(items)} -> {list(ref)}"))
        for k, n in items.items():
            if k in ref:
                _slot(ref[k], n, path + [str(k)], diffs, counters)
            compare(n, path + [str(k)], diffs, counters, seen)
        return
    if t == "obj":
        items = node["items"]
        now = vars(ref)
        if set(now) != set(items):
            diffs.append((path, "attributes-changed", f"{sorted(items)} -> {sorted(now)}"))
        for k, n in items.items():
            if k in now:
                _slot(now[k], n, path + [str(k)], diffs, counters)
            compare(n, path + [str(k)], diffs, counters, seen)
        return


def _slot(o, n, path, diffs, counters):
    if o is n["ref"]:
        return
    if equals_snapshot(o, n):
        if n["t"] != "val":
            counters["slot_rebound_to_equal_value(not a difference)"] = counters.get("slot_rebound_to_equal_value(not a difference)", 0) + 1
        return
    diffs.append((path, "slot-rebound", f"slot now holds a different value: before={_describe(n['ref'])} after={_describe(o)}"))


def generic_path(path):
    """Stable textual form of a path: list indices become 'elem'."""
    out = []
    for p in path:
        out.append("elem" if isinstance(p, int) else str(p))
    return ".".join(out)


def concrete_path(path):
    s = ""
    for p in path:
        s += f"[{p}]" if isinstance(p, int) else (("." if s else "") + str(p))
    return s
