"""Brute-force reference minimisers for the prox problems of C12.

Everything works on python lists of python floats, with explicit loops; sums use math.fsum.
Each ``*_min`` function returns ``(objective, x)`` where ``objective = penalty(x) + 1/2 * ||x - v||^2`` is
the *exact minimum* of the prox problem over the enumerated candidate family, and the family
(a) contains only feasible points and (b) provably contains the true minimiser:

* separable problems (orthant, l1): per coordinate, the stationary point of every quadratic piece
  and every breakpoint;
* l2 (block) norm: the minimiser lies on the segment [0, v] -> the two stationary candidates;
* simplex / l1 ball: for every support S the KKT point "v - theta on S, 0 elsewhere" with theta fixed by
  the equality constraint (all 2^n supports);
* order cones (isotonic, unimodal): for every partition into contiguous blocks the vector of block
  means (all 2^(n-1) partitions) -- the projection on an order cone is constant on the connected
  components of its level sets with value the component mean -- filtered by feasibility;
* k-sparse / normalised k-sparse: every support of size min(k, n).
"""
from fractions import Fraction
from itertools import combinations
from math import fsum, sqrt


def sqdist(x, v):
    return fsum((a - b) * (a - b) for a, b in zip(x, v))


def obj_proj(x, v):
    return 0.5 * sqdist(x, v)


# ------------------------------------------------------------------ separable
def nonneg_min(v):
    x = []
    for a in v:
        cands = [0.0] + ([a] if a >= 0 else [])
        x.append(min(cands, key=lambda c: (c - a) * (c - a)))
    return obj_proj(x, v), x


def l1_min(v, t):
    """min t*|x|_1 + 1/2|x-v|^2, coordinate by coordinate over the candidates {0, v-t (if >=0), v+t (if <=0)}."""
    x = []
    for a in v:
        cands = [0.0]
        if a - t >= 0:
            cands.append(a - t)
        if a + t <= 0:
            cands.append(a + t)
        x.append(min(cands, key=lambda c: t * abs(c) + 0.5 * (c - a) * (c - a)))
    return l1_obj(x, v, t), x


def l1_obj(x, v, t):
    return t * fsum(abs(a) for a in x) + 0.5 * sqdist(x, v)


def norm2(x):
    return sqrt(fsum(a * a for a in x))


def l2_obj(x, v, t):
    return t * norm2(x) + 0.5 * sqdist(x, v)


def l2_min(v, t):
    """min t*|x|_2 + 1/2|x-v|^2: x = alpha*v, alpha in {0, 1 - t/|v|}."""
    nv = norm2(v)
    cands = [[0.0] * len(v)]
    if nv > 0 and nv - t >= 0:
        al = (nv - t) / nv
        cands.append([al * a for a in v])
    x = min(cands, key=lambda c: l2_obj(c, v, t))
    return l2_obj(x, v, t), x


def l2sq_obj(x, v, lam):
    return lam * fsum(a * a for a in x) + 0.5 * sqdist(x, v)


def l2sq_grad(x, v, lam):
    """gradient of lam*|x|^2 + 1/2|x-v|^2"""
    return [2 * lam * a + (a - b) for a, b in zip(x, v)]


# ------------------------------------------------------------------ smoothness (penalty defined by the banded system)
def smooth_apply(x, lam):
    """(I + lam * L) x,  L = tridiag(-1, 2, -1) (second differences, Dirichlet ends)."""
    n = len(x)
    out = []
    for i in range(n):
        s = (1 + 2 * lam) * x[i]
        if i > 0:
            s -= lam * x[i - 1]
        if i < n - 1:
            s -= lam * x[i + 1]
        out.append(s)
    return out


def smooth_obj(x, v, lam):
    """lam/2 * x^T L x + 1/2 |x - v|^2 with x^T L x = x_1^2 + x_n^2 + sum (x_{i+1} - x_i)^2."""
    n = len(x)
    if n == 0:
        return 0.0
    q = x[0] * x[0] + x[-1] * x[-1] + fsum((x[i + 1] - x[i]) ** 2 for i in range(n - 1))
    return 0.5 * lam * q + 0.5 * sqdist(x, v)


def smooth_min(v, lam):
    """Exact rational Gaussian elimination on (I + lam L) x = v."""
    n = len(v)
    lam_f = Fraction(lam)
    A = [[Fraction(0)] * n for _ in range(n)]
    for i in range(n):
        A[i][i] = 1 + 2 * lam_f
        if i > 0:
            A[i][i - 1] = -lam_f
        if i < n - 1:
            A[i][i + 1] = -lam_f
    b = [Fraction(a) for a in v]
    for c in range(n):
        p = A[c][c]
        assert p != 0
        for r in range(c + 1, n):
            f = A[r][c] / p
            if f:
                for k in range(c, n):
                    A[r][k] -= f * A[c][k]
                b[r] -= f * b[c]
    x = [Fraction(0)] * n
    for r in reversed(range(n)):
        s = b[r] - sum(A[r][k] * x[k] for k in range(r + 1, n))
        x[r] = s / A[r][r]
    xf = [float(a) for a in x]
    return smooth_obj(xf, v, lam), xf


# ------------------------------------------------------------------ simplex / l1 ball (all supports)
def _subsets(n):
    for mask in range(1, 1 << n):
        yield [i for i in range(n) if mask >> i & 1]


def simplex_min(v, r):
    """Projection on {x >= 0, sum x = r}, r > 0."""
    n = len(v)
    best = None
    for S in _subsets(n):
        theta = (fsum(v[i] for i in S) - r) / len(S)
        x = [0.0] * n
        ok = True
        for i in S:
            xi = v[i] - theta
            if xi < 0:
                ok = False
                break
            x[i] = xi
        if not ok:
            continue
        o = obj_proj(x, v)
        if best is None or o < best[0]:
            best = (o, x)
    assert best is not None
    return best


def l1ball_min(v, r):
    """Projection on {|x|_1 <= r}, r > 0."""
    n = len(v)
    if fsum(abs(a) for a in v) <= r:
        return 0.0, list(v)
    av = [abs(a) for a in v]
    sg = [(a > 0) - (a < 0) for a in v]
    best = None
    for S in _subsets(n):
        if any(av[i] == 0 for i in S):
            continue
        theta = (fsum(av[i] for i in S) - r) / len(S)
        if theta < 0:
            continue
        x = [0.0] * n
        ok = True
        for i in S:
            xi = av[i] - theta
            if xi < 0:
                ok = False
                break
            x[i] = sg[i] * xi
        if not ok:
            continue
        o = obj_proj(x, v)
        if best is None or o < best[0]:
            best = (o, x)
    assert best is not None
    return best


# ------------------------------------------------------------------ order cones (all contiguous partitions)
def _partitions(n):
    """Every partition of range(n) into contiguous blocks, as lists of (start, stop)."""
    if n == 0:
        yield []
        return
    for mask in range(1 << (n - 1)):
        blocks, start = [], 0
        for i in range(n - 1):
            if mask >> i & 1:
                blocks.append((start, i + 1))
                start = i + 1
        blocks.append((start, n))
        yield blocks


def _block_means(v, blocks):
    x = [0.0] * len(v)
    means = []
    for a, b in blocks:
        m = fsum(v[a:b]) / (b - a)
        means.append(m)
        for i in range(a, b):
            x[i] = m
    return x, means


def is_increasing(x, tol=0.0):
    return all(x[i] <= x[i + 1] + tol for i in range(len(x) - 1))


def is_decreasing(x, tol=0.0):
    return all(x[i] + tol >= x[i + 1] for i in range(len(x) - 1))


def is_unimodal(x, tol=0.0):
    """exists j: x_0 <= ... <= x_j >= ... >= x_{n-1}"""
    n = len(x)
    if n <= 2:
        return True
    return any(is_increasing(x[: j + 1], tol) and is_decreasing(x[j:], tol) for j in range(n))


def cone_min(v, kind):
    feas = {"increasing": is_increasing, "decreasing": is_decreasing, "unimodal": is_unimodal}[kind]
    best = None
    for blocks in _partitions(len(v)):
        x, means = _block_means(v, blocks)
        if not feas(means):
            continue
        o = obj_proj(x, v)
        if best is None or o < best[0]:
            best = (o, x)
    assert best is not None
    return best


# ------------------------------------------------------------------ sparsity (all supports)
def ksparse_min(v, k):
    n = len(v)
    k = max(0, min(k, n))
    best = None
    for S in combinations(range(n), k):
        x = [0.0] * n
        for i in S:
            x[i] = v[i]
        o = obj_proj(x, v)
        if best is None or o < best[0]:
            best = (o, x)
    return best


def normalized_ksparse_min(v, k):
    """Nearest point of {|x|_2 = 1, |x|_0 <= k}, k >= 1."""
    n = len(v)
    k = max(1, min(k, n))
    best = None
    for S in combinations(range(n), k):
        nS = sqrt(fsum(v[i] * v[i] for i in S))
        x = [0.0] * n
        if nS == 0:
            x[S[0]] = 1.0  # any unit vector on S is equally near
        else:
            for i in S:
                x[i] = v[i] / nS
        o = obj_proj(x, v)
        if best is None or o < best[0]:
            best = (o, x)
    return best
