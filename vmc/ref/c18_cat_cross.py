"""C18 catalogue, part 4 (thorough tier only): FULL cross products of the option axes of the main
algorithms, appended as tier-"x" variants to the entries registered by the other parts.

Every combination of every axis value is enumerated (itertools.product, no sampling).  Combinations the
library rejects raise and are counted as guarded-out by the checker.
"""
import itertools

import numpy as np


def register(ENTRIES, v, rng_guard, H):
    from tensorly import decomposition as D
    from tensorly.tenalg import svd as S
    from tensorly.solvers import nnls as NNLS

    by_name = {e["name"]: e for e in ENTRIES}

    def cross(entry, axes, call, cx_pred=None, guard_rng=False):
        """axes: [(axis_name, [(value_label, kwargs_dict), ...]), ...]"""
        names = [a for a, _ in axes]
        for combo in itertools.product(*[alts for _, alts in axes]):
            kw = {}
            for _, k in combo:
                kw.update(k)
            label = "x:" + ",".join(f"{n}={lab}" for n, (lab, _) in zip(names, combo))
            fn = (lambda d, kw=kw: call(d, **kw))
            if guard_rng:
                fn = rng_guard(fn)
            cxv = bool(cx_pred(kw)) if cx_pred else False
            by_name[entry]["variants"].append(v(label, fn, "x", cxv))

    B2 = lambda key, val=True: [("0", {}), ("1", {key: val})]
    SH = ((3, 4, 2), 2)

    # ---- parafac: 3*2^7 = 384 combinations
    cross("parafac", [
        ("init", [("svd", {"init": "svd"}), ("random", {"init": "random"}), ("user", {"_init": "user"})]),
        ("normalize", B2("normalize_factors")), ("orthogonalise", B2("orthogonalise")), ("mask", B2("_mask")),
        ("sparsity", B2("sparsity", 0.25)), ("l2_reg", B2("l2_reg", 0.1)), ("fixed_modes", B2("fixed_modes", [1])),
        ("linesearch", [("0", {"n_iter_max": 3}), ("1", {"linesearch": True, "n_iter_max": 9})]),
    ], lambda d, **kw: H["call_parafac"](d, SH[0], SH[1], tol=1e-300, **kw),
        cx_pred=lambda kw: not (kw.get("_mask") or kw.get("sparsity") or kw.get("linesearch")))

    # ---- non_negative_parafac: 3*2^4 = 48
    cross("non_negative_parafac", [
        ("init", [("svd", {"init": "svd"}), ("random", {"init": "random"}), ("user", {"_init": "user"})]),
        ("normalize", B2("normalize_factors")), ("mask", B2("_mask")), ("fixed_modes", B2("fixed_modes", [0])),
        ("cvg", [("abs", {}), ("rec", {"cvg_criterion": "rec_error"})]),
    ], lambda d, **kw: H["call_parafac"](d, SH[0], SH[1], _fn=D.non_negative_parafac, _pos=True, n_iter_max=3, tol=1e-300, **kw))

    # ---- non_negative_parafac_hals: 2^6 = 64
    cross("non_negative_parafac_hals", [
        ("init", [("svd", {"init": "svd"}), ("random", {"init": "random"})]),
        ("sparsity", B2("_sp")), ("fixed_modes", B2("fixed_modes", [0])), ("nn_modes", [("all", {}), ("[0]", {"nn_modes": [0]})]),
        ("normalize", B2("normalize_factors")), ("return_errors", B2("return_errors")),
    ], lambda d, **kw: H["call_parafac"](d, SH[0], SH[1], _fn=D.non_negative_parafac_hals, _pos=True, n_iter_max=1, tol=1e-300, **kw))

    # ---- constrained_parafac: every ordered pair of constraints on modes 0 and 1 (12*12) x init (2) = 288
    CON = H["CONSTRAINTS"]

    def ccp_pair(d, a, b, init):
        kw = {}
        (an, av), (bn, bv) = CON[a], CON[b]
        if an == bn:
            kw[an] = {0: av, 1: av}
        else:
            kw[an] = {0: av}
            kw[bn] = {1: bv}
        return H["call_ccp"](d, SH[0], SH[1], init=init, n_iter_max=2, n_iter_max_inner=3, **kw)
    for a in range(len(CON)):
        for b in range(len(CON)):
            for init in ("svd", "random"):
                by_name["constrained_parafac"]["variants"].append(
                    v(f"x:mode0={CON[a][0]},mode1={CON[b][0]},init={init}", lambda d, a=a, b=b, init=init: ccp_pair(d, a, b, init), "x", False))

    # ---- tucker: 3*2*3*2 = 36 (+ fixed_factors with user init: 2*3 = 6)
    cross("tucker", [
        ("init", [("svd", {"init": "svd"}), ("random", {"init": "random"}), ("user", {"_init": "user"})]),
        ("mask", B2("_mask")), ("svd", [(m, {"svd": m}) for m in ("truncated_svd", "symeig_svd", "randomized_svd")]),
        ("return_errors", B2("return_errors")),
    ], lambda d, **kw: H["call_tucker"](d, SH[0], SH[1], n_iter_max=3, tol=0, **kw),
        cx_pred=lambda kw: not kw.get("_mask") and kw.get("svd") == "truncated_svd")
    cross("tucker", [
        ("fixed_factors", [("[1]", {"_fixed": True, "_init": "user"})]), ("mask", B2("_mask")),
        ("svd", [(m, {"svd": m}) for m in ("truncated_svd", "symeig_svd", "randomized_svd")]),
    ], lambda d, **kw: H["call_tucker"](d, SH[0], SH[1], n_iter_max=3, tol=0, **kw))

    # ---- non_negative_tucker: 3*2*2 = 12 ; non_negative_tucker_hals: 2^6 = 64
    cross("non_negative_tucker", [
        ("init", [("svd", {"init": "svd"}), ("random", {"init": "random"}), ("user", {"_init": "user"})]),
        ("normalize", B2("normalize_factors")), ("return_errors", B2("return_errors")),
    ], lambda d, **kw: H["call_tucker"](d, SH[0], SH[1], _fn=D.non_negative_tucker, _pos=True, n_iter_max=3, tol=1e-300, **kw))
    cross("non_negative_tucker_hals", [
        ("algorithm", [("fista", {}), ("active_set", {"algorithm": "active_set"})]),
        ("init", [("svd", {"init": "svd"}), ("random", {"init": "random"})]),
        ("sparsity", B2("_sp")), ("core_sparsity", B2("core_sparsity_coefficient", 0.1)),
        ("normalize", B2("normalize_factors")), ("return_errors", B2("return_errors")),
    ], lambda d, **kw: H["call_tucker"](d, SH[0], SH[1], _fn=D.non_negative_tucker_hals, _pos=True, n_iter_max=1, tol=1e-300, **kw))

    # ---- parafac2: 3*2*3*2*2 = 72
    cross("parafac2", [
        ("init", [("random", {"init": "random"}), ("svd", {"init": "svd"}), ("user", {"_init": "user"})]),
        ("normalize", B2("normalize_factors")),
        ("nn_modes", [("None", {}), ("all", {"nn_modes": "all", "_pos": True}), ("[0]", {"nn_modes": [0], "_pos": True})]),
        ("linesearch", [("0", {"linesearch": False, "n_iter_max": 2}), ("1", {"linesearch": True, "n_iter_max": 9})]),
        ("input", [("list", {}), ("tensor", {"_input": "tensor"})]),
    ], lambda d, **kw: H["call_pf2"](d, tol=1e-300, n_iter_parafac=2, **kw))

    # ---- svd_interface: 3 methods * 2 shapes * 2 k * 2 flip * 2 u_based * 3 non_negative * 2 mask = 288
    def call_svdi(d, _shape=(6, 4), _nn=None, _mask=False, **kw):
        m = d.pos(_shape, 1) if _nn else d.a(_shape, 1)
        if _mask:
            kw["mask"] = d.c(np.arange(m.size).reshape(_shape) % 5 != 2)
            kw["n_iter_mask_imputation"] = 2
        if kw.get("method") == "randomized_svd":
            kw["random_state"] = d.off
        r = S.svd_interface(m, non_negative=_nn, **kw)
        return {"U": r[0], "S@real": r[1], "V": r[2]}
    cross("svd_interface", [
        ("method", [(m, {"method": m}) for m in ("truncated_svd", "symeig_svd", "randomized_svd")]),
        ("shape", [("tall", {"_shape": (6, 4)}), ("wide", {"_shape": (3, 6)})]),
        ("k", [("2", {"n_eigenvecs": 2}), ("None", {"n_eigenvecs": None})]),
        ("flip_sign", [("1", {}), ("0", {"flip_sign": False})]),
        ("u_based", [("1", {}), ("0", {"u_based_flip_sign": False})]),
        ("non_negative", [("None", {}), ("nndsvd", {"_nn": "nndsvd"}), ("nndsvda", {"_nn": "nndsvda"})]),
        ("mask", B2("_mask")),
    ], call_svdi, cx_pred=lambda kw: kw["method"] != "symeig_svd" and not kw.get("_nn") and not kw.get("_mask") and "u_based_flip_sign" not in kw,
        guard_rng=True)

    # ---- NNLS solvers
    def call_hals(d, _V=False, **kw):
        UtM, UtU = d.gram(3, 5)
        if _V:
            kw["V"] = d.pos((3, 5), 4)
        return {"V": NNLS.hals_nnls(UtM, UtU, n_iter_max=4, **kw)}
    cross("hals_nnls", [
        ("V", B2("_V")), ("sparsity", B2("sparsity_coefficient", 0.1)), ("ridge", B2("ridge_coefficient", 0.1)),
        ("nonzero_rows", B2("nonzero_rows")), ("epsilon", B2("epsilon", 1e-6)),
    ], call_hals)

    def call_fista(d, _x=False, **kw):
        UtM, UtU = d.gram(3, 5)
        if _x:
            kw["x"] = d.pos((3, 5), 4)
        return {"x": NNLS.fista(UtM, UtU, n_iter_max=4, **kw)}
    cross("fista", [
        ("x", B2("_x")), ("non_negative", [("1", {}), ("0", {"non_negative": False})]), ("sparsity", B2("sparsity_coef", 0.1)),
        ("ridge", B2("ridge_coef", 0.1)), ("lr", B2("lr", 0.01)),
    ], call_fista)
