"""C15 entry-point catalogue (data): name -> how to build valid small calls, which parameters are caller-owned
(all of them, unless listed as a documented in-place exemption), and the input class of each parameter (used in
violation signatures).

An *entry* is one public entry point (function, estimator class driven through fit/fit_transform, or a method of
a wrapper class); a *spec* is one option set for it.  ``spec.build(off, sz)`` returns ``(fn, params)`` with
``fn(**params)`` being the real tensorly call; ``params`` hold fresh C-ordered arrays and ``Dec`` placeholders
(factorised tensors whose container kind is chosen later).  Data come from vmc.values only (``off`` =
VERIF_SEED rotates the tables).  No RNG.

The three documented in-place exemptions of the property statement are expressed as ``exempt`` on the spec:
copy=False mode products (the factorised tensor argument), the NNLS start matrix ``V`` of ``hals_nnls`` and the
``tensor`` argument of ``index_update``.  In-place *methods* whose documentation says the object modifies itself
(``CPTensor.normalize``, ``TuckerTensor.normalize``) are catalogued with ``self`` exempt for the same reason.

The sections live in c15_cat_decomp.py / c15_cat_algebra.py / c15_cat_misc.py; this module holds the shared
vocabulary and the assembly + introspection.
"""
import inspect

import numpy as np

from vmc import values as V
from vmc.ref.c15_snapshot import Dec

SHAPES = {0: (3, 4, 2), 1: (2, 3, 2, 2), 2: (4, 3), 3: (5, 4, 3)}  # size 3 is visited by the thorough tier only


class C:
    """Build context: table offset, size id, tensor shape."""

    def __init__(self, off, sz):
        self.off = off
        self.sz = sz
        self.shape = SHAPES[sz]
        self.N = len(self.shape)


class L:
    """Lazy parameter value: resolved with the build context."""

    def __init__(self, fn):
        self.fn = fn


class Boom(Exception):
    """Raised by harness callbacks to force an exceptional exit in the middle of an algorithm."""


def raising_callback(n):
    state = {"k": 0}

    def cb(*a, **k):
        state["k"] += 1
        if state["k"] >= n:
            raise Boom("exception forced by the harness callback")

    return cb


def quiet_callback():
    def cb(*a, **k):
        return None

    return cb


class Spec:
    def __init__(self, label, fn, params, classes=None, exempt=(), sizes=(0,), tenalg=None):
        self.label = label
        self.fn = fn
        self.params = params
        self.classes = classes or {}
        self.exempt = frozenset(exempt)
        self.sizes = tuple(sizes)
        self.tenalg = tenalg  # None | "einsum": tensor-algebra backend selected around the call

    def build(self, off, sz):
        c = C(off, sz)
        out = {}
        for k, v in self.params.items():
            out[k] = v.fn(c) if isinstance(v, L) else _fresh(v)
        return self.fn, out


def _fresh(v):
    """Constants in the tables are shared between builds: copy containers so a mutation cannot leak to the next case."""
    if isinstance(v, list):
        return [_fresh(x) for x in v]
    if isinstance(v, dict):
        return {k: _fresh(x) for k, x in v.items()}
    if isinstance(v, np.ndarray):
        return v.copy()
    return v


class Entry:
    def __init__(self, name, targets, specs, family):
        self.name = name
        self.targets = targets  # real objects covered by this entry (for the completeness report)
        self.specs = specs
        self.family = family


# ---- shared data helpers ---------------------------------------------------------------------------
def ten(c, signed=True, k=0, shape=None):
    return V.generic(shape or c.shape, c.off + k, signed=signed)


def mat(shape, c, k=0, signed=True):
    return V.generic(shape, c.off + k, signed=signed)


def mask_for(c, kind="bool", shape=None):
    shape = shape or c.shape
    n = int(np.prod(shape))
    m = np.array([(i * 7 + 3) % 5 != 0 for i in range(n)]).reshape(shape)
    return m if kind == "bool" else m.astype(np.float64)


def cp_weights(rank, w):
    if w == "none":
        return None
    if w == "ones":
        return np.ones(rank)
    return np.array([2.0, 0.75, 1.5, 0.25][:rank])  # product != 1: the geometric-mean rescaling is visible


def cp_dec(c, rank=2, w="none", nonneg=False, shape=None, k=3, only=None):
    shape = shape or c.shape
    facs = [V.generic((s, rank), c.off + k + i, signed=not nonneg) for i, s in enumerate(shape)]
    return Dec("cp", (cp_weights(rank, w), facs), only)


def tucker_dec(c, ranks=None, nonneg=False, shape=None, k=5, only=None, modes=None):
    shape = shape or c.shape
    modes = list(range(len(shape))) if modes is None else modes
    ranks = ranks or [2] * len(modes)
    core_shape = list(shape)
    for r, m in zip(ranks, modes):
        core_shape[m] = r
    core = V.generic(tuple(core_shape), c.off + k, signed=not nonneg)
    facs = [V.generic((shape[m], r), c.off + k + 1 + i, signed=not nonneg) for i, (r, m) in enumerate(zip(ranks, modes))]
    return Dec("tucker", (core, facs), only)


def tt_dec(c, shape=None, rank=2, k=7, only=None):
    shape = shape or c.shape
    rs = [1] + [rank] * (len(shape) - 1) + [1]
    return Dec("tt", ([V.generic((rs[i], s, rs[i + 1]), c.off + k + i) for i, s in enumerate(shape)],), only)


def tr_dec(c, shape=None, rank=2, k=8, only=None):
    shape = shape or c.shape
    return Dec("tr", ([V.generic((rank, s, rank), c.off + k + i) for i, s in enumerate(shape)],), only)


def ttm_dec(c, k=9, only=None):
    # TT-matrix of a (2*3) x (2*2) matrix: factors (1,2,2,2), (2,3,2,1)
    return Dec("ttm", ([V.generic((1, 2, 2, 2), c.off + k), V.generic((2, 3, 2, 1), c.off + k + 1)],), only)


def slices_for(c, k=1):
    return [V.generic((3, 3), c.off + k), V.generic((4, 3), c.off + k + 1), V.generic((2, 3), c.off + k + 2)]


def parafac2_dec(c, rank=2, w="none", nonneg=False, k=11, only=None):
    rows = [3, 4, 2]
    A = V.generic((3, rank), c.off + k, signed=not nonneg)
    B = V.generic((rank, rank), c.off + k + 1, signed=not nonneg)
    Cm = V.generic((3, rank), c.off + k + 2, signed=not nonneg)
    projs = []
    for i, r in enumerate(rows):
        q, _ = np.linalg.qr(V.generic((r, rank), c.off + k + 3 + i))
        projs.append(np.ascontiguousarray(q))
    return Dec("parafac2", (cp_weights(rank, w), [A, B, Cm], projs), only)


def ranks_for(c, r=2):
    return [min(r, s) for s in c.shape]


def tt_rank_for(c, r=2):
    return [1] + [r] * (c.N - 1) + [1]


def tr_rank_for(c, r=2):
    return [r] * (c.N + 1)


def estimator(cls, method="fit_transform", data=("tensor",)):
    """fn(**params): constructs the estimator from the option parameters and calls `method` on the data parameters."""

    accepted = set(inspect.signature(cls.__init__).parameters)

    def fn(**kw):
        d = [kw.pop(n) for n in data]
        if "return_errors" not in accepted:  # the function-level tables carry it; most estimators always record errors
            kw.pop("return_errors", None)
        return getattr(cls(**kw), method)(*d)

    fn.__name__ = f"{cls.__name__}.{method}"
    return fn


def tenalg_fn(name):
    def fn(**kw):
        import tensorly as tl

        return getattr(tl.tenalg, name)(**kw)

    fn.__name__ = name
    return fn


# ---- assembly -------------------------------------------------------------------------------------
_CACHE = {}


def catalogue():
    """name -> Entry, in a fixed order."""
    if "cat" not in _CACHE:
        from vmc.ref import c15_cat_decomp, c15_cat_algebra, c15_cat_misc

        entries = []
        for mod in (c15_cat_decomp, c15_cat_algebra, c15_cat_misc):
            entries += mod.entries()
        cat = {}
        for e in entries:
            assert e.name not in cat, e.name
            cat[e.name] = e
        _CACHE["cat"] = cat
    return _CACHE["cat"]


PACKAGES = [
    "tensorly.base", "tensorly.cp_tensor", "tensorly.tucker_tensor", "tensorly.tt_tensor", "tensorly.tr_tensor",
    "tensorly.tt_matrix", "tensorly.parafac2_tensor", "tensorly.preprocessing", "tensorly.decomposition",
    "tensorly.tenalg", "tensorly.tenalg.proximal", "tensorly.tenalg.svd", "tensorly.solvers.nnls",
    "tensorly.solvers.admm", "tensorly.solvers.penalizations", "tensorly.metrics", "tensorly.metrics.regression",
    "tensorly.metrics.entropy", "tensorly.metrics.factors", "tensorly.metrics.similarity",
    "tensorly.metrics.leverage_scores", "tensorly.regression", "tensorly.contrib.decomposition",
    "tensorly.random", "tensorly.datasets.synthetic", "tensorly.plugins", "tensorly.utils",
]

# public callables that take no caller-owned array / list argument a call could modify, or are not calls of the kinds
# named by the property (decomposition, solver, proximal, tensor algebra, metric, preprocessing, regression)
OUT_OF_SCOPE_PREFIXES = {
    "tensorly.random.": "random generators: no caller-owned array argument",
    "tensorly.datasets.": "synthetic data generator: no caller-owned array argument",
    "tensorly.plugins.": "plugin switches",
    "tensorly.utils.": "deprecation helpers",
    "tensorly.backend.": "backend manager / primitive numpy wrappers (only index_update is in the statement)",
    "tensorly._factorized_tensor.": "abstract base class",
    "tensorly.tenalg.base_tenalg.": "backend class",
}
_MIXIN_METHODS = {"get", "items", "keys", "values", "get_params", "set_params", "fit"}


def qualname(obj):
    obj = inspect.unwrap(obj) if callable(obj) else obj
    return f"{getattr(obj, '__module__', '?')}.{getattr(obj, '__qualname__', getattr(obj, '__name__', '?'))}"


def introspect_public():
    """Qualified names (defining module + qualname) of every public function / class / public method of a public
    class reachable from PACKAGES and defined in tensorly."""
    import importlib

    names = {}
    for m in PACKAGES:
        mod = importlib.import_module(m)
        for n in sorted(dir(mod)):
            if n.startswith("_"):
                continue
            try:
                o = getattr(mod, n)
            except Exception:
                continue
            if inspect.ismodule(o) or not callable(o):
                continue
            if not (getattr(o, "__module__", "") or "").startswith("tensorly") or not qualname(o).startswith("tensorly"):
                continue
            if inspect.isclass(o):
                meths = [(mn, mo) for mn, mo in inspect.getmembers(o, inspect.isfunction)
                         if not mn.startswith("_") and (mo.__module__ or "").startswith("tensorly") and qualname(mo).startswith("tensorly")]
                if any(mn in ("fit_transform", "fit") for mn, _ in meths):
                    names[qualname(o)] = "class"  # estimators are covered as a whole through fit/fit_transform
                    for mn, mo in meths:
                        if mn not in _MIXIN_METHODS and mn != "fit_transform":
                            names[qualname(mo)] = "method"
                else:
                    for mn, mo in meths:
                        if mn not in _MIXIN_METHODS:
                            names[qualname(mo)] = "method"
            else:
                names[qualname(o)] = "function"
    return names


def completeness():
    """(catalogued, uncatalogued, out_of_scope) lists of qualified names."""
    pub = introspect_public()
    covered = set()
    for e in catalogue().values():
        for t in e.targets:
            covered.add(qualname(t))
    cat, uncat, oos = [], [], []
    for q in sorted(pub):
        if q in covered:
            cat.append(q)
            continue
        reason = next((r for p, r in OUT_OF_SCOPE_PREFIXES.items() if q.startswith(p)), None)
        (oos if reason else uncat).append(q)
    return cat, uncat, oos
