"""C15 catalogue, section 1: decompositions (functions and estimator classes), robust PCA, CMTF, contrib."""
from vmc.ref.c15_catalogue import (Entry, Spec, L, ten, mat, mask_for, cp_dec, tucker_dec, parafac2_dec, slices_for,
                                   ranks_for, tt_rank_for, tr_rank_for, estimator, raising_callback, quiet_callback)

ALL = (0, 1, 2, 3)
S3 = (0, 1, 3)  # orders >= 3


def _specs(fn, base, table, sizes=ALL):
    """table rows: (label, extra params, classes[, sizes])."""
    out = []
    for row in table:
        label, extra, classes = row[:3]
        sz = row[3] if len(row) > 3 else sizes
        p = dict(base)
        p.update(extra)
        out.append(Spec(label, fn, p, classes, sizes=sz))
    return out


def _ui(w="none", nonneg=False):
    return L(lambda c: cp_dec(c, 2, w, nonneg))


def _fixed(which):
    if which == "first":
        return L(lambda c: [0])
    if which == "with-last":
        return L(lambda c: [0, c.N - 1])
    return L(lambda c: list(range(c.N)))


# ---------------------------------------------------------------------------------------------------
def cp_table(nonneg=False, masks=True, extras=True):
    W = {"none": "cp-unit-weights", "ones": "cp-unit-weights", "nonunit": "cp-nonunit-weights"}
    t = [
        ("init-svd", {}, {}),
        ("init-random", {"init": "random", "random_state": 0}, {}),
    ]
    for w in ("none", "ones", "nonunit"):
        t.append((f"user-init[{w}]", {"init": _ui(w, nonneg)}, {"init": W[w]}))
    t += [
        ("fixed-modes[first]+user-init", {"init": _ui("none", nonneg), "fixed_modes": _fixed("first")},
         {"init": W["none"], "fixed_modes": "without-last-mode"}),
        ("fixed-modes[with-last]+user-init", {"init": _ui("none", nonneg), "fixed_modes": _fixed("with-last")},
         {"init": W["none"], "fixed_modes": "with-last-mode"}),
        ("fixed-modes[with-last]+init-random", {"init": "random", "random_state": 0, "fixed_modes": _fixed("with-last")},
         {"fixed_modes": "with-last-mode"}),
        ("normalize_factors", {"normalize_factors": True}, {}),
        ("user-init+normalize_factors", {"init": _ui("ones", nonneg), "normalize_factors": True}, {"init": W["ones"]}),
        ("raise[cvg_criterion]+user-init", {"init": _ui("none", nonneg), "cvg_criterion": "bogus", "tol": 1e-8},
         {"init": W["none"]}),
        ("raise[svd-name]", {"svd": "bogus"}, {}),
    ]
    if masks:
        t += [
            ("mask[bool]", {"mask": L(lambda c: mask_for(c, "bool")), "init": "random", "random_state": 0}, {"mask": "bool"}),
            ("mask[float]+init-svd", {"mask": L(lambda c: mask_for(c, "float"))}, {"mask": "float"}),
            ("mask[bool]+user-init", {"mask": L(lambda c: mask_for(c, "bool")), "init": _ui("none", nonneg)},
             {"mask": "bool", "init": W["none"]}),
            ("raise[cvg_criterion]+mask", {"mask": L(lambda c: mask_for(c, "float")), "init": "random", "random_state": 0,
                                           "cvg_criterion": "bogus", "tol": 1e-8}, {"mask": "float"}),
        ]
    return t


def parafac_table():
    t = cp_table()
    t += [
        ("fixed-modes[all]+user-init", {"init": _ui("none"), "fixed_modes": _fixed("all")},
         {"init": "cp-unit-weights", "fixed_modes": "all-modes"}),
        ("sparsity", {"sparsity": 0.3}, {}),
        ("sparsity+user-init+mask", {"sparsity": 3, "init": _ui("none"), "mask": L(lambda c: mask_for(c, "float"))},
         {"init": "cp-unit-weights", "mask": "float"}),
        ("l2_reg", {"l2_reg": 0.1}, {}),
        ("orthogonalise+user-init", {"orthogonalise": True, "init": _ui("none")}, {"init": "cp-unit-weights"}),
        ("linesearch+user-init", {"linesearch": True, "init": _ui("none"), "n_iter_max": 10, "tol": 1e-13}, {"init": "cp-unit-weights"}),
        ("linesearch+mask", {"linesearch": True, "mask": L(lambda c: mask_for(c, "float")), "n_iter_max": 10, "tol": 1e-13,
                             "init": "random", "random_state": 0}, {"mask": "float"}),
        ("return_errors", {"return_errors": True}, {}),
        ("callback+user-init", {"callback": L(lambda c: quiet_callback()), "return_errors": True, "init": _ui("none")},
         {"init": "cp-unit-weights"}),
        ("raise[callback]+user-init+mask", {"callback": L(lambda c: raising_callback(3)), "return_errors": True, "init": _ui("none"),
                                            "mask": L(lambda c: mask_for(c, "float"))}, {"init": "cp-unit-weights", "mask": "float"}),
    ]
    return t


def hals_table():
    t = cp_table(nonneg=True, masks=False)
    t += [
        ("sparsity_coefficients[list]", {"sparsity_coefficients": L(lambda c: [0.1] + [None] * (c.N - 2) + [0.05])},
         {"sparsity_coefficients": "list"}),
        ("sparsity_coefficients[float]", {"sparsity_coefficients": 0.1}, {}),
        ("sparsity_coefficients[list]+fixed-modes+user-init",
         {"sparsity_coefficients": L(lambda c: [0.1] * c.N), "fixed_modes": _fixed("first"), "init": _ui("none", True)},
         {"sparsity_coefficients": "list-with-entry-on-fixed-mode", "fixed_modes": "without-last-mode", "init": "cp-unit-weights"}),
        ("nn_modes[list]+user-init", {"nn_modes": L(lambda c: [0]), "init": _ui("none", True)}, {"init": "cp-unit-weights", "nn_modes": "list"}),
        ("nn_modes[None]+user-init", {"nn_modes": None, "init": _ui("none", True)}, {"init": "cp-unit-weights"}),
        ("return_errors", {"return_errors": True}, {}),
    ]
    return t


def constrained_table():
    t = [(lab, dict(extra, non_negative=True) if "raise[svd" not in lab else dict(extra, non_negative=True), cl)
         for lab, extra, cl in cp_table(nonneg=True, masks=False) if "normalize" not in lab]
    t = [(lab, {("tol_outer" if k == "tol" else k): v for k, v in extra.items()}, cl) for lab, extra, cl in t]
    t += [
        ("l1_reg[list]", {"l1_reg": L(lambda c: [0.1] * c.N)}, {"l1_reg": "list"}),
        ("non_negative[dict]", {"non_negative": L(lambda c: {m: True for m in range(c.N)})}, {"non_negative": "dict"}),
        ("mixed[dicts]+user-init", {"non_negative": L(lambda c: {0: True}), "l2_square_reg": L(lambda c: {1: 0.1}),
                                     "unimodality": L(lambda c: {m: True for m in range(2, c.N)}), "init": _ui("none", True)},
         {"non_negative": "dict", "l2_square_reg": "dict", "init": "cp-unit-weights"}),
        ("hard_sparsity[list]", {"hard_sparsity": L(lambda c: [2] * c.N)}, {"hard_sparsity": "list"}),
        ("simplex+return_errors", {"simplex": 1.0, "return_errors": True}, {}),
        ("smoothness[dict]+normalize[dict]", {"smoothness": L(lambda c: {0: 0.1}), "normalize": L(lambda c: {m: True for m in range(1, c.N)})},
         {"smoothness": "dict", "normalize": "dict"}),
    ]
    return t


def randomised_table():
    return [
        ("init-random", {}, {}),
        ("init-svd", {"init": "svd"}, {}),
        ("user-init[none]", {"init": _ui("none")}, {"init": "cp-unit-weights"}),
        ("user-init[nonunit]", {"init": _ui("nonunit")}, {"init": "cp-nonunit-weights"}),
        ("return_errors", {"return_errors": True}, {}),
        ("callback+user-init", {"callback": L(lambda c: quiet_callback()), "init": _ui("none")}, {"init": "cp-unit-weights"}),
        ("raise[callback]+user-init", {"callback": L(lambda c: raising_callback(3)), "init": _ui("none")}, {"init": "cp-unit-weights"}),
    ]


# ---------------------------------------------------------------------------------------------------
def _tui(nonneg=False, modes=None):
    return L(lambda c: tucker_dec(c, None, nonneg, modes=modes))


def tucker_table():
    return [
        ("init-svd", {}, {}),
        ("init-random", {"init": "random", "random_state": 0}, {}),
        ("user-init", {"init": _tui()}, {"init": "tucker"}),
        ("rank[int]", {"rank": 2}, {}),
        ("fixed_factors+user-init", {"init": _tui(), "fixed_factors": L(lambda c: [0])}, {"init": "tucker", "fixed_factors": "list"}),
        ("fixed_factors[unsorted]+user-init", {"init": _tui(), "fixed_factors": L(lambda c: [c.N - 1, 0])},
         {"init": "tucker", "fixed_factors": "list-unsorted"}, S3),
        ("mask[bool]", {"mask": L(lambda c: mask_for(c, "bool"))}, {"mask": "bool"}),
        ("mask[float]+user-init", {"mask": L(lambda c: mask_for(c, "float")), "init": _tui()}, {"mask": "float", "init": "tucker"}),
        ("return_errors", {"return_errors": True}, {}),
        ("raise[svd-name]", {"svd": "bogus"}, {}),
        ("raise[mask-shape]+user-init", {"mask": L(lambda c: mask_for(c, "float", shape=(5, 7))), "init": _tui()}, {"mask": "wrong-shape", "init": "tucker"}),
    ]


def partial_tucker_table():
    pm = L(lambda c: [0, 1])
    pr = L(lambda c: [2, 2])
    pui = L(lambda c: tucker_dec(c, [2, 2], modes=[0, 1], only=("tuple", "list")))
    return [
        ("modes+init-svd", {"modes": pm, "rank": pr}, {"modes": "list", "rank": "list"}),
        ("modes+init-random", {"modes": pm, "rank": pr, "init": "random", "random_state": 0}, {"modes": "list", "rank": "list"}),
        ("modes+user-init", {"modes": pm, "rank": pr, "init": pui}, {"modes": "list", "rank": "list", "init": "tucker"}),
        ("modes[unsorted]", {"modes": L(lambda c: [1, 0]), "rank": pr}, {"modes": "list-unsorted", "rank": "list"}),
        ("rank[None]", {"modes": pm, "rank": None}, {"modes": "list"}),
        ("mask+user-init", {"modes": pm, "rank": pr, "init": pui, "mask": L(lambda c: mask_for(c, "float"))},
         {"modes": "list", "rank": "list", "init": "tucker", "mask": "float"}),
        ("mask[bool]+init-svd", {"modes": pm, "rank": pr, "mask": L(lambda c: mask_for(c, "bool"))}, {"modes": "list", "rank": "list", "mask": "bool"}),
        ("svd-name[ignored]+user-init", {"modes": pm, "rank": pr, "init": pui, "svd": "bogus"}, {"init": "tucker"}),
    ]


def nn_tucker_table(hals=False):
    t = [
        ("init-svd", {}, {}),
        ("init-random", {"init": "random", "random_state": 0}, {}),
        ("user-init", {"init": _tui(True)}, {"init": "tucker"}),
        ("normalize_factors+user-init", {"init": _tui(True), "normalize_factors": True}, {"init": "tucker"}),
        ("return_errors", {"return_errors": True}, {}),
        ("rank[int]", {"rank": 2}, {}),
    ]
    if hals:
        t += [
            ("sparsity_coefficients[list]", {"sparsity_coefficients": L(lambda c: [0.1] * c.N)}, {"sparsity_coefficients": "list"}),
            ("sparsity_coefficients[list]+fixed-modes+user-init",
             {"sparsity_coefficients": L(lambda c: [0.1] * c.N), "fixed_modes": _fixed("first"), "init": _tui(True)},
             {"sparsity_coefficients": "list-with-entry-on-fixed-mode", "fixed_modes": "without-last-mode", "init": "tucker"}),
            ("fixed-modes[with-last]+user-init", {"fixed_modes": _fixed("with-last"), "init": _tui(True)},
             {"fixed_modes": "with-last-mode", "init": "tucker"}),
            ("core_sparsity", {"core_sparsity_coefficient": 0.05}, {}),
            ("algorithm[active_set]+user-init", {"algorithm": "active_set", "init": _tui(True)}, {"init": "tucker"}),
            ("raise[svd-name]", {"svd": "bogus"}, {}),
        ]
    return t


def parafac2_table():
    sl = L(lambda c: slices_for(c))
    return [
        ("slices[list]+init-random", {}, {"tensor_slices": "list"}),
        ("slices[tuple]+init-svd", {"tensor_slices": L(lambda c: tuple(slices_for(c))), "init": "svd"}, {"tensor_slices": "tuple"}),
        ("slices[3d-array]+init-svd", {"tensor_slices": L(lambda c: ten(c, shape=(3, 4, 3))), "init": "svd"}, {"tensor_slices": "ndarray"}),
        ("user-init[parafac2]", {"init": L(lambda c: parafac2_dec(c))}, {"init": "parafac2-unit-weights"}),
        ("user-init[parafac2,nonunit]", {"init": L(lambda c: parafac2_dec(c, w="nonunit"))}, {"init": "parafac2-nonunit-weights"}),
        ("user-init[cp]", {"init": L(lambda c: cp_dec(c, 2, "none", shape=(3, 2, 3)))}, {"init": "cp-unit-weights"}),
        ("nn_modes[all]+init-random", {"nn_modes": "all"}, {}),
        ("nn_modes[list]+user-init", {"nn_modes": L(lambda c: [0, 2]), "init": L(lambda c: parafac2_dec(c, nonneg=True))},
         {"init": "parafac2-unit-weights", "nn_modes": "list"}),
        ("nn_modes[all]+user-init", {"nn_modes": "all", "init": L(lambda c: parafac2_dec(c, nonneg=True))}, {"init": "parafac2-unit-weights"}),
        ("normalize_factors+user-init", {"normalize_factors": True, "init": L(lambda c: parafac2_dec(c))}, {"init": "parafac2-unit-weights"}),
        ("linesearch-off+return_errors", {"linesearch": False, "return_errors": True}, {}),
        ("linesearch-runs+user-init", {"n_iter_max": 9, "init": L(lambda c: parafac2_dec(c))}, {"init": "parafac2-unit-weights"}),
        ("raise[rank-too-large]", {"rank": 5}, {}),
        ("raise[svd-name]+user-init", {"svd": "bogus", "init": L(lambda c: parafac2_dec(c))}, {"init": "parafac2-unit-weights"}),
    ]


# ---------------------------------------------------------------------------------------------------
def entries():
    import tensorly.decomposition as D
    from tensorly.decomposition import _tucker, _cp, _constrained_cp, _parafac2
    import tensorly.contrib.decomposition as CD

    E = []

    def add(name, targets, specs, family="decomposition"):
        E.append(Entry(name, targets, specs, family))

    T_ = L(lambda c: ten(c))
    Tp = L(lambda c: ten(c, signed=False))

    # ---- CP family ----
    base = {"tensor": T_, "rank": 2, "n_iter_max": 3}
    add("decomposition.parafac", [D.parafac], _specs(D.parafac, base, parafac_table()))
    add("decomposition.CP", [D.CP], _specs(estimator(D.CP), base, parafac_table()))
    add("decomposition._cp.initialize_cp", [_cp.initialize_cp],
        _specs(_cp.initialize_cp, {"tensor": T_, "rank": 2}, [r for r in cp_table() if "fixed" not in r[0] and "cvg" not in r[0]]))
    basep = {"tensor": Tp, "rank": 2, "n_iter_max": 3}
    add("decomposition.non_negative_parafac", [D.non_negative_parafac], _specs(D.non_negative_parafac, basep, cp_table(nonneg=True)))
    add("decomposition.CP_NN", [D.CP_NN], _specs(estimator(D.CP_NN), basep, cp_table(nonneg=True)))
    baseh = {"tensor": Tp, "rank": 2, "n_iter_max": 2}
    add("decomposition.non_negative_parafac_hals", [D.non_negative_parafac_hals], _specs(D.non_negative_parafac_hals, baseh, hals_table()))
    add("decomposition.CP_NN_HALS", [D.CP_NN_HALS],
        _specs(estimator(D.CP_NN_HALS), baseh, [r for r in hals_table() if r[0] != "return_errors"]))
    basec = {"tensor": T_, "rank": 2, "n_iter_max": 2, "n_iter_max_inner": 3}
    ct = constrained_table()
    add("decomposition.constrained_parafac", [D.constrained_parafac], _specs(D.constrained_parafac, basec, ct))
    add("decomposition.ConstrainedCP", [D.ConstrainedCP], _specs(estimator(D.ConstrainedCP), basec, ct))
    add("decomposition._constrained_cp.initialize_constrained_parafac", [_constrained_cp.initialize_constrained_parafac],
        _specs(_constrained_cp.initialize_constrained_parafac, {"tensor": T_, "rank": 2, "non_negative": True},
               [("init-svd", {}, {}), ("init-random", {"init": "random", "random_state": 0}, {}),
                ("user-init[none]", {"init": _ui("none")}, {"init": "cp-unit-weights"}),
                ("user-init[ones]", {"init": _ui("ones")}, {"init": "cp-unit-weights"}),
                ("user-init[nonunit]", {"init": _ui("nonunit")}, {"init": "cp-nonunit-weights"})]))
    baser = {"tensor": T_, "rank": 2, "n_samples": 4, "n_iter_max": 3, "random_state": 0, "max_stagnation": 0, "tol": 1e-9}
    add("decomposition.randomised_parafac", [D.randomised_parafac], _specs(D.randomised_parafac, baser, randomised_table()))
    add("decomposition.RandomizedCP", [D.RandomizedCP],
        _specs(estimator(D.RandomizedCP), dict(baser, verbose=0), [r for r in randomised_table() if r[0] != "return_errors"]))
    add("decomposition.sample_khatri_rao", [D.sample_khatri_rao], _specs(D.sample_khatri_rao,
        {"matrices": L(lambda c: [mat((s, 2), c, i) for i, s in enumerate(c.shape)]), "n_samples": 5, "random_state": 0},
        [("default", {}, {"matrices": "list"}),
         ("skip_matrix+rows", {"skip_matrix": 1, "return_sampled_rows": True}, {"matrices": "list"}),
         ("indices_list", {"indices_list": L(lambda c: [[0, 1, 0] for _ in c.shape]), "n_samples": 3}, {"matrices": "list", "indices_list": "list"}),
         ("matrices[tuple]+skip", {"matrices": L(lambda c: tuple(mat((s, 2), c, i) for i, s in enumerate(c.shape))), "skip_matrix": 0},
          {"matrices": "tuple"})]))
    cube = L(lambda c: ten(c, shape=(3, 3, 3)))
    for nm, f, kw in (("power_iteration", D.power_iteration, {}), ("parafac_power_iteration", D.parafac_power_iteration, {"rank": 2}),
                      ("symmetric_power_iteration", D.symmetric_power_iteration, {}),
                      ("symmetric_parafac_power_iteration", D.symmetric_parafac_power_iteration, {"rank": 2})):
        sym = "symmetric" in nm
        add(f"decomposition.{nm}", [f], [Spec("default", f, dict({"tensor": cube if sym else T_, "n_repeat": 2, "n_iteration": 2}, **kw),
                                            sizes=(0,) if sym else S3)])
    add("decomposition.CPPower", [D.CPPower], [Spec("default", estimator(D.CPPower), {"tensor": T_, "rank": 2, "n_repeat": 2, "n_iteration": 2}, sizes=S3)])
    add("decomposition.SymmetricCP", [D.SymmetricCP], [Spec("default", estimator(D.SymmetricCP), {"tensor": cube, "rank": 2, "n_repeat": 2, "n_iteration": 2})])

    # ---- Tucker family ----
    baset = {"tensor": T_, "rank": L(lambda c: ranks_for(c)), "n_iter_max": 3}
    add("decomposition.tucker", [D.tucker], _specs(D.tucker, baset, tucker_table()))
    add("decomposition.Tucker", [D.Tucker], _specs(estimator(D.Tucker), baset, tucker_table()))
    add("decomposition.partial_tucker", [D.partial_tucker], _specs(D.partial_tucker, {"tensor": T_, "n_iter_max": 3}, partial_tucker_table()))
    add("decomposition._tucker.initialize_tucker", [_tucker.initialize_tucker],
        _specs(_tucker.initialize_tucker, {"tensor": T_, "rank": L(lambda c: ranks_for(c)), "modes": L(lambda c: list(range(c.N))), "random_state": 0},
               [("init-svd", {}, {}), ("init-random", {"init": "random"}, {}), ("user-init", {"init": _tui()}, {"init": "tucker"}),
                ("user-init+non_negative", {"init": _tui(), "non_negative": True}, {"init": "tucker"}),
                ("mask", {"mask": L(lambda c: mask_for(c, "float"))}, {"mask": "float"})]))
    basent = {"tensor": Tp, "rank": L(lambda c: ranks_for(c)), "n_iter_max": 3}
    add("decomposition.non_negative_tucker", [D.non_negative_tucker], _specs(D.non_negative_tucker, basent, nn_tucker_table()))
    add("decomposition._tucker.Tucker_NN", [_tucker.Tucker_NN],
        _specs(estimator(_tucker.Tucker_NN), basent, [r for r in nn_tucker_table() if r[0] != "return_errors"]))
    basenh = {"tensor": Tp, "rank": L(lambda c: ranks_for(c)), "n_iter_max": 2}
    add("decomposition.non_negative_tucker_hals", [D.non_negative_tucker_hals], _specs(D.non_negative_tucker_hals, basenh, nn_tucker_table(True)))
    add("decomposition._tucker.Tucker_NN_HALS", [_tucker.Tucker_NN_HALS],
        _specs(estimator(_tucker.Tucker_NN_HALS), basenh, [r for r in nn_tucker_table(True) if r[0] != "return_errors"]))

    # ---- PARAFAC2 ----
    basep2 = {"tensor_slices": L(lambda c: slices_for(c)), "rank": 2, "n_iter_max": 2, "tol": 1e-12, "random_state": 0, "n_iter_parafac": 2}
    add("decomposition.parafac2", [D.parafac2], _specs(D.parafac2, basep2, parafac2_table(), sizes=(0,)))
    add("decomposition.Parafac2", [D.Parafac2],
        _specs(estimator(D.Parafac2, data=("tensor_slices",)), dict(basep2, return_errors=True),
               [r for r in parafac2_table() if "return_errors" not in r[0] and "linesearch-runs" not in r[0]], sizes=(0,)))
    add("decomposition._parafac2.initialize_decomposition", [_parafac2.initialize_decomposition],
        _specs(_parafac2.initialize_decomposition, {"tensor_slices": L(lambda c: slices_for(c)), "rank": 2, "random_state": 0},
               [("init-random", {}, {"tensor_slices": "list"}), ("init-svd", {"init": "svd"}, {"tensor_slices": "list"}),
                ("user-init[parafac2]", {"init": L(lambda c: parafac2_dec(c))}, {"init": "parafac2-unit-weights"}),
                ("user-init[cp]", {"init": L(lambda c: cp_dec(c, 2, "none", shape=(3, 2, 3)))}, {"init": "cp-unit-weights"})], sizes=(0,)))

    # ---- robust PCA, CMTF ----
    add("decomposition.robust_pca", [D.robust_pca], _specs(D.robust_pca, {"X": T_, "n_iter_max": 4, "verbose": 0},
        [("default", {}, {}), ("mask[bool]", {"mask": L(lambda c: mask_for(c, "bool"))}, {"mask": "bool"}),
         ("mask[float]+return_errors", {"mask": L(lambda c: mask_for(c, "float")), "return_errors": True}, {"mask": "float"}),
         ("regs", {"reg_E": 0.5, "reg_J": 2.0, "learning_rate": 1.5}, {}),
         ("raise[mask-shape]", {"mask": L(lambda c: mask_for(c, "float", shape=(5, 7)))}, {"mask": "wrong-shape"})]))
    cm = {"tensor_3d": L(lambda c: ten(c, shape=(3, 4, 2))), "matrix": L(lambda c: mat((3, 3), c, 9)), "rank": 2, "n_iter_max": 3}
    add("decomposition.coupled_matrix_tensor_3d_factorization", [D.coupled_matrix_tensor_3d_factorization],
        _specs(D.coupled_matrix_tensor_3d_factorization, cm,
               [("init-svd", {}, {}), ("init-random", {"init": "random"}, {}), ("normalize_factors", {"normalize_factors": True}, {}),
                ("user-init[none]", {"init": L(lambda c: cp_dec(c, 2, "none", shape=(3, 4, 2)))}, {"init": "cp-unit-weights"}),
                ("user-init[nonunit]", {"init": L(lambda c: cp_dec(c, 2, "nonunit", shape=(3, 4, 2)))}, {"init": "cp-nonunit-weights"})],
               sizes=(0,)))

    # ---- TT / TR / TT-matrix ----
    ttr = L(lambda c: tt_rank_for(c))
    trr = L(lambda c: tr_rank_for(c))
    tt_tab = [("rank[list]", {}, {"rank": "list"}), ("rank[int]", {"rank": 2}, {}), ("svd[randomized]", {"svd": "randomized_svd"}, {"rank": "list"}),
              ("raise[svd-name]", {"svd": "bogus"}, {"rank": "list"})]
    add("decomposition.tensor_train", [D.tensor_train], _specs(D.tensor_train, {"input_tensor": T_, "rank": ttr}, tt_tab))
    add("decomposition.TensorTrain", [D.TensorTrain], _specs(estimator(D.TensorTrain), {"tensor": T_, "rank": ttr}, tt_tab))
    ttm = L(lambda c: ten(c, shape=(2, 3, 2, 3)))
    ttm_tab = [("rank[list]", {}, {"rank": "list"}), ("rank[int]", {"rank": 2}, {}), ("raise[odd-order]", {"tensor": L(lambda c: ten(c, shape=(2, 3, 2)))}, {})]
    add("decomposition.tensor_train_matrix", [D.tensor_train_matrix], _specs(D.tensor_train_matrix, {"tensor": ttm, "rank": L(lambda c: [1, 2, 1])}, ttm_tab, sizes=(0,)))
    add("decomposition.TensorTrainMatrix", [D.TensorTrainMatrix], _specs(estimator(D.TensorTrainMatrix), {"tensor": ttm, "rank": L(lambda c: [1, 2, 1])}, ttm_tab, sizes=(0,)))
    tr_tab = [("rank[list]", {}, {"rank": "list"}), ("mode", {"mode": 1}, {"rank": "list"}),
              ("raise[rank-product]", {"rank": L(lambda c: [5] * (c.N + 1))}, {"rank": "list-too-large"})]
    add("decomposition.tensor_ring", [D.tensor_ring], _specs(D.tensor_ring, {"input_tensor": T_, "rank": L(lambda c: [1] + [2] * (c.N - 1) + [1])}, tr_tab))
    add("decomposition.TensorRing", [D.TensorRing], _specs(estimator(D.TensorRing), {"tensor": T_, "rank": L(lambda c: [1] + [2] * (c.N - 1) + [1])}, tr_tab))
    als_tab = [("rank[list]", {}, {"rank": "list"}), ("rank[int]", {"rank": 2}, {}),
               ("callback", {"callback": L(lambda c: quiet_callback())}, {"rank": "list"}),
               ("raise[callback]", {"callback": L(lambda c: raising_callback(2))}, {"rank": "list"})]
    bals = {"tensor": T_, "rank": trr, "n_iter_max": 2, "tol": 1e-9, "random_state": 0}
    add("decomposition.tensor_ring_als", [D.tensor_ring_als], _specs(D.tensor_ring_als, bals, als_tab + [("ls_solve[normal_eq]", {"ls_solve": "normal_eq"}, {"rank": "list"})], sizes=S3))
    add("decomposition.TensorRingALS", [D.TensorRingALS], _specs(estimator(D.TensorRingALS), bals, als_tab, sizes=S3))
    bals2 = dict(bals, n_samples=6)
    smp_tab = als_tab + [("uniform_sampling", {"uniform_sampling": True}, {"rank": "list"}), ("randomized_error", {"randomized_error": True}, {"rank": "list"})]
    add("decomposition.tensor_ring_als_sampled", [D.tensor_ring_als_sampled], _specs(D.tensor_ring_als_sampled, bals2, smp_tab, sizes=S3))
    add("decomposition.TensorRingALSSampled", [D.TensorRingALSSampled], _specs(estimator(D.TensorRingALSSampled), bals2, smp_tab, sizes=S3))

    # ---- contrib ----
    add("contrib.decomposition.tensor_train_cross", [CD.tensor_train_cross],
        _specs(CD.tensor_train_cross, {"input_tensor": L(lambda c: ten(c, False, shape=(4, 4, 4))), "rank": L(lambda c: [1, 2, 2, 1]),
                                       "tol": 0.5, "n_iter_max": 20, "random_state": 0},
               [("rank[list]", {}, {"rank": "list"}), ("tol-tight", {"tol": 1e-3, "n_iter_max": 3}, {"rank": "list"})], sizes=(0,)), family="contrib")
    oi = {"data_tensor": T_, "rank": ttr, "n_iter": 1}
    oi_tab = [("default", {}, {"rank": "list"}), ("trajectory", {"trajectory": True}, {"rank": "list"}), ("no-errors", {"return_errors": False}, {"rank": "list"}),
              ("n_iter[2]", {"n_iter": 2}, {"rank": "list"})]
    add("contrib.decomposition.tensor_train_OI", [CD.tensor_train_OI], _specs(CD.tensor_train_OI, oi, oi_tab, sizes=S3), family="contrib")
    add("contrib.decomposition.TensorTrain_OI", [CD.TensorTrain_OI],
        _specs(estimator(CD.TensorTrain_OI), {"tensor": T_, "rank": ttr, "n_iter": 1, "trajectory": False, "return_errors": True},
               [("default", {}, {"rank": "list"}), ("trajectory", {"trajectory": True}, {"rank": "list"})], sizes=S3), family="contrib")
    return E
