"""C15 catalogue, section 3: solvers, metrics, preprocessing, regression estimators, index_update."""
import copy

import numpy as np

from vmc.ref.c15_catalogue import (Entry, Spec, L, ten, mat, cp_dec, tt_dec, parafac2_dec, slices_for, quiet_callback,
                                   raising_callback)


def _nnls_problem(c, n=4, r=3, cols=2, k=0):
    U = mat((n, r), c, 20 + k, signed=False)
    M = mat((n, cols), c, 21 + k, signed=False)
    return U.T @ M, U.T @ U


def entries():
    import tensorly as tl
    from tensorly.solvers import nnls as NN, admm as AD, penalizations as PE
    from tensorly import metrics as ME, preprocessing as PP
    from tensorly.metrics import regression as MR
    from tensorly.regression import CPRegressor, TuckerRegressor, CP_PLSR

    E = []

    def add(name, targets, specs, family):
        E.append(Entry(name, targets, specs, family))

    UtM = L(lambda c: _nnls_problem(c)[0])
    UtU = L(lambda c: _nnls_problem(c)[1])
    V0 = L(lambda c: mat((3, 2), c, 22, signed=False))

    # ---- NNLS solvers ------------------------------------------------------------------------------------
    hb = {"UtM": UtM, "UtU": UtU, "n_iter_max": 5}
    hv = dict(hb, V=V0)
    add("solvers.nnls.hals_nnls", [NN.hals_nnls], [
        Spec("V[None]", NN.hals_nnls, hb),
        Spec("V[given]", NN.hals_nnls, hv, {"V": "start-matrix"}, exempt=("V",)),
        Spec("V[given]+sparsity+ridge", NN.hals_nnls, dict(hv, sparsity_coefficient=0.1, ridge_coefficient=0.1), {"V": "start-matrix"}, exempt=("V",)),
        Spec("V[None]+sparsity", NN.hals_nnls, dict(hb, sparsity_coefficient=0.1)),
        Spec("V[given]+nonzero_rows", NN.hals_nnls, dict(hv, nonzero_rows=True, sparsity_coefficient=5.0), {"V": "start-matrix"}, exempt=("V",)),
        Spec("V[given]+callback", NN.hals_nnls, dict(hv, callback=L(lambda c: quiet_callback())), {"V": "start-matrix"}, exempt=("V",)),
        Spec("raise[callback]+V[given]", NN.hals_nnls, dict(hv, callback=L(lambda c: raising_callback(2))), {"V": "start-matrix"}, exempt=("V",)),
        Spec("raise[zero-column]+nonzero_rows", NN.hals_nnls,
             {"UtM": UtM, "UtU": L(lambda c: _nnls_problem(c)[1] * np.array([[1, 1, 0]]) * np.array([[1], [1], [0]])), "V": V0, "nonzero_rows": True, "n_iter_max": 3},
             {"V": "start-matrix", "UtU": "zero-diagonal-entry"}, exempt=("V",)),
    ], "solvers")
    add("solvers.nnls.fista", [NN.fista], [
        Spec("x[None]", NN.fista, {"UtM": UtM, "UtU": UtU, "n_iter_max": 5}),
        Spec("x[given]", NN.fista, {"UtM": UtM, "UtU": UtU, "x": V0, "n_iter_max": 5}, {"x": "start-matrix"}),
        Spec("x[given]+unconstrained+penalties", NN.fista, {"UtM": UtM, "UtU": UtU, "x": V0, "n_iter_max": 5, "non_negative": False, "sparsity_coef": 0.1, "ridge_coef": 0.1, "lr": 0.05},
             {"x": "start-matrix"}),
        Spec("UtU[list]+tensor-x", NN.fista, {"UtM": L(lambda c: ten(c, False, shape=(2, 2, 2))), "UtU": L(lambda c: [mat((2, 2), c, i, False) + np.eye(2) for i in range(3)]),
                                              "x": L(lambda c: ten(c, False, 3, shape=(2, 2, 2))), "lr": 0.05, "n_iter_max": 4}, {"UtU": "list-of-matrices", "x": "start-tensor"}),
    ], "solvers")
    add("solvers.nnls.active_set_nnls", [NN.active_set_nnls], [
        Spec("x[None]", NN.active_set_nnls, {"Utm": L(lambda c: _nnls_problem(c, cols=1)[0].reshape(-1)), "UtU": UtU, "n_iter_max": 5}),
        Spec("x[given]", NN.active_set_nnls, {"Utm": L(lambda c: _nnls_problem(c, cols=1)[0].reshape(-1)), "UtU": UtU, "x": L(lambda c: mat((3,), c, 23, False)), "n_iter_max": 5}, {"x": "start-vector"}),
        Spec("x[given,2d]", NN.active_set_nnls, {"Utm": L(lambda c: _nnls_problem(c, cols=1)[0].reshape(-1)), "UtU": UtU, "x": L(lambda c: mat((3, 1), c, 23, False)), "n_iter_max": 5}, {"x": "start-matrix"}),
        Spec("x[zeros]", NN.active_set_nnls, {"Utm": L(lambda c: _nnls_problem(c, cols=1)[0].reshape(-1)), "UtU": UtU, "x": L(lambda c: np.zeros(3)), "n_iter_max": 5}, {"x": "zeros"}),
    ], "solvers")
    X0 = L(lambda c: mat((2, 3), c, 24, signed=False))
    DV = L(lambda c: mat((2, 3), c, 25) * 0.1)
    ab = {"UtM": L(lambda c: _nnls_problem(c)[0].T), "UtU": UtU, "x": X0, "dual_var": DV, "n_iter_max": 4}
    add("solvers.admm.admm", [AD.admm], [
        Spec("unconstrained(n_const=None)", AD.admm, ab),
        Spec("non_negative", AD.admm, dict(ab, n_const=3, order=1, non_negative=True)),
        Spec("l1_reg[list]", AD.admm, dict(ab, n_const=3, order=1, l1_reg=[0.1, 0.2, 0.3]), {"l1_reg": "list"}),
        Spec("simplex[dict]", AD.admm, dict(ab, n_const=3, order=1, simplex={1: 1.0}), {"simplex": "dict"}),
        Spec("raise[two-constraints]", AD.admm, dict(ab, n_const=3, order=1, l1_reg=[0.1, 0.2, 0.3], non_negative={1: True}), {"l1_reg": "list", "non_negative": "dict"}),
    ], "solvers")
    add("solvers.penalizations.process_regularization_weights", [PE.process_regularization_weights], [
        Spec("floats", PE.process_regularization_weights, {"ridge_coefficients": 0.1, "sparsity_coefficients": 0.2, "n_modes": 3}),
        Spec("None+None", PE.process_regularization_weights, {"ridge_coefficients": None, "sparsity_coefficients": None, "n_modes": 3}),
        Spec("lists[complete]", PE.process_regularization_weights, {"ridge_coefficients": [0.1, 0.2, 0.3], "sparsity_coefficients": [0.3, 0.2, 0.1], "n_modes": 3},
             {"ridge_coefficients": "list-complete", "sparsity_coefficients": "list-complete"}),
        Spec("lists[with-None]", PE.process_regularization_weights, {"ridge_coefficients": [0.1, None, 0.3], "sparsity_coefficients": [None, 0.2, None], "n_modes": 3},
             {"ridge_coefficients": "list-with-None", "sparsity_coefficients": "list-with-None"}),
        Spec("lists[zero-pair]", PE.process_regularization_weights, {"ridge_coefficients": [0, 0.2, 0.3], "sparsity_coefficients": [0, 0.2, 0.1], "n_modes": 3},
             {"ridge_coefficients": "list-with-degenerate-mode", "sparsity_coefficients": "list-with-degenerate-mode"}),
    ], "solvers")

    # ---- metrics ---------------------------------------------------------------------------------------------
    y1 = L(lambda c: mat((5, 3), c, 30))
    y2 = L(lambda c: mat((5, 3), c, 31))
    for nm in ("MSE", "RMSE", "correlation", "covariance", "reflective_correlation_coefficient"):
        f = getattr(MR, nm)
        add(f"metrics.regression.{nm}", [f], [Spec("axis[None]", f, {"y_true": y1, "y_pred": y2}), Spec("axis[0]", f, {"y_true": y1, "y_pred": y2, "axis": 0})], "metrics")
    add("metrics.regression.R2_score", [MR.R2_score], [Spec("default", MR.R2_score, {"X_original": y1, "X_predicted": y2})], "metrics")
    for nm in ("standard_deviation", "variance"):
        f = getattr(MR, nm)
        add(f"metrics.regression.{nm}", [f], [Spec("axis[None]", f, {"y": y1}), Spec("axis[1]", f, {"y": y1, "axis": 1})], "metrics")
    ml1 = L(lambda c: [mat((4, 2), c, 32), mat((3, 2), c, 33)])
    ml2 = L(lambda c: [mat((4, 2), c, 34), mat((3, 2), c, 35)])
    add("metrics.congruence_coefficient", [ME.congruence_coefficient], [
        Spec("lists", ME.congruence_coefficient, {"matrix1": ml1, "matrix2": ml2}, {"matrix1": "list", "matrix2": "list"}),
        Spec("matrices", ME.congruence_coefficient, {"matrix1": L(lambda c: mat((4, 2), c, 32)), "matrix2": L(lambda c: mat((4, 2), c, 34)), "absolute_value": False}),
        Spec("raise[shape]", ME.congruence_coefficient, {"matrix1": L(lambda c: mat((4, 2), c, 32)), "matrix2": L(lambda c: mat((4, 3), c, 34))}),
    ], "metrics")
    add("metrics.correlation_index", [ME.correlation_index], [
        Spec("stacked", ME.correlation_index, {"factors_1": ml1, "factors_2": ml2}, {"factors_1": "list", "factors_2": "list"}),
        Spec("max_score", ME.correlation_index, {"factors_1": ml1, "factors_2": ml2, "method": "max_score"}, {"factors_1": "list", "factors_2": "list"}),
        Spec("min_score", ME.correlation_index, {"factors_1": ml1, "factors_2": ml2, "method": "min_score"}, {"factors_1": "list", "factors_2": "list"}),
    ], "metrics")
    add("metrics.leverage_score_dist", [ME.leverage_score_dist], [Spec("default", ME.leverage_score_dist, {"matrix": L(lambda c: mat((5, 3), c, 36))})], "metrics")
    psd = L(lambda c: (lambda a: a @ a.T / np.trace(a @ a.T))(mat((4, 4), c, 37)))
    add("metrics.vonneumann_entropy", [ME.vonneumann_entropy], [Spec("density-matrix", ME.vonneumann_entropy, {"tensor": psd})], "metrics")
    add("metrics.cp_vonneumann_entropy", [ME.cp_vonneumann_entropy],
        [Spec("default", ME.cp_vonneumann_entropy, {"tensor": L(lambda c: cp_dec(c, 2, "nonunit", nonneg=True, shape=(4, 4)))}, {"tensor": "cp-nonunit-weights"})], "metrics")
    add("metrics.tt_vonneumann_entropy", [ME.tt_vonneumann_entropy],
        [Spec("default", ME.tt_vonneumann_entropy, {"tensor": L(lambda c: tt_dec(c, shape=(2, 2, 2, 2)))}, {"tensor": "tt"})], "metrics")

    # ---- preprocessing ---------------------------------------------------------------------------------------
    tall = L(lambda c: [mat((5, 3), c, 40), mat((2, 3), c, 41), mat((4, 3), c, 42)])
    add("preprocessing.svd_compress_tensor_slices", [PP.svd_compress_tensor_slices], [
        Spec("default", PP.svd_compress_tensor_slices, {"tensor_slices": tall}, {"tensor_slices": "list"}),
        Spec("threshold+max_rank", PP.svd_compress_tensor_slices, {"tensor_slices": tall, "compression_threshold": 0.3, "max_rank": 2}, {"tensor_slices": "list"}),
        Spec("3d-array", PP.svd_compress_tensor_slices, {"tensor_slices": L(lambda c: ten(c, shape=(3, 5, 3)))}, {"tensor_slices": "ndarray"}),
    ], "preprocessing")
    add("preprocessing.svd_decompress_parafac2_tensor", [PP.svd_decompress_parafac2_tensor], [
        Spec("default", PP.svd_decompress_parafac2_tensor,
             {"parafac2_tensor": L(lambda c: parafac2_dec(c)), "loading_matrices": L(lambda c: [np.ascontiguousarray(np.linalg.qr(mat((5, 3), c, 43))[0]), None,
                                                                                                np.ascontiguousarray(np.linalg.qr(mat((6, 2), c, 44))[0])])},
             {"parafac2_tensor": "parafac2-unit-weights", "loading_matrices": "list-with-None"}),
    ], "preprocessing")

    # ---- regression ----------------------------------------------------------------------------------------------
    Xr = L(lambda c: mat((6, 3, 2), c, 50))
    yr = L(lambda c: mat((6,), c, 51))
    Y2 = L(lambda c: mat((6, 2), c, 52))
    Xn = L(lambda c: mat((4, 3, 2), c, 53))

    def fit_then(cls, kw, then):
        def fn(X, y, **more):
            est = cls(**copy.deepcopy(kw)).fit(X, y)
            return then(est, X, y, **more) if then else est

        return fn

    for nm, cls, kw in (("CPRegressor", CPRegressor, {"weight_rank": 2, "n_iter_max": 3, "verbose": 0, "random_state": 0}),
                        ("TuckerRegressor", TuckerRegressor, {"weight_ranks": [2, 2], "n_iter_max": 3, "verbose": 0, "random_state": 0})):
        add(f"regression.{nm}.fit", [cls], [Spec("default", fit_then(cls, kw, None), {"X": Xr, "y": yr})], "regression")
        add(f"regression.{nm}.predict", [cls.predict],
            [Spec("new-data", fit_then(cls, kw, lambda est, X, y, Xnew: est.predict(Xnew)), {"X": Xr, "y": yr, "Xnew": Xn}),
             Spec("training-data", fit_then(cls, kw, lambda est, X, y: est.predict(X)), {"X": Xr, "y": yr})], "regression")
    pk = {"n_components": 2, "n_iter_max": 5}
    add("regression.CP_PLSR.fit", [CP_PLSR], [Spec("Y[matrix]", fit_then(CP_PLSR, pk, None), {"X": Xr, "y": Y2}), Spec("Y[vector]", fit_then(CP_PLSR, pk, None), {"X": Xr, "y": yr}),
                                             Spec("X[matrix]", fit_then(CP_PLSR, pk, None), {"X": L(lambda c: mat((6, 4), c, 54)), "y": Y2}),
                                             Spec("raise[Y-order]", fit_then(CP_PLSR, pk, None), {"X": Xr, "y": L(lambda c: mat((6, 2, 2), c, 55))}),
                                             Spec("raise[coupling]", fit_then(CP_PLSR, pk, None), {"X": Xr, "y": L(lambda c: mat((5, 2), c, 55))})], "regression")
    add("regression.CP_PLSR.predict", [CP_PLSR.predict],
        [Spec("new-data", fit_then(CP_PLSR, pk, lambda est, X, y, Xnew: est.predict(Xnew)), {"X": Xr, "y": Y2, "Xnew": Xn}),
         Spec("new-data,y[vector]", fit_then(CP_PLSR, pk, lambda est, X, y, Xnew: est.predict(Xnew)), {"X": Xr, "y": yr, "Xnew": Xn}),
         Spec("raise[shape]", fit_then(CP_PLSR, pk, lambda est, X, y, Xnew: est.predict(Xnew)), {"X": Xr, "y": Y2, "Xnew": L(lambda c: mat((4, 2, 2), c, 53))})], "regression")
    add("regression.CP_PLSR.transform", [CP_PLSR.transform],
        [Spec("X-only", fit_then(CP_PLSR, pk, lambda est, X, y, Xnew: est.transform(Xnew)), {"X": Xr, "y": Y2, "Xnew": Xn}),
         Spec("X+Y", fit_then(CP_PLSR, pk, lambda est, X, y, Xnew, Ynew: est.transform(Xnew, Ynew)), {"X": Xr, "y": Y2, "Xnew": Xn, "Ynew": L(lambda c: mat((4, 2), c, 56))}),
         Spec("X+Y[vector]", fit_then(CP_PLSR, pk, lambda est, X, y, Xnew, Ynew: est.transform(Xnew, Ynew)), {"X": Xr, "y": yr, "Xnew": Xn, "Ynew": L(lambda c: mat((4,), c, 57))}),
         Spec("X[matrix]+Y[vector]", fit_then(CP_PLSR, pk, lambda est, X, y, Xnew, Ynew: est.transform(Xnew, Ynew)),
              {"X": L(lambda c: mat((6, 4), c, 54)), "y": yr, "Xnew": L(lambda c: mat((4, 4), c, 58)), "Ynew": L(lambda c: mat((4,), c, 57))}),
         Spec("raise[Y-shape]", fit_then(CP_PLSR, pk, lambda est, X, y, Xnew, Ynew: est.transform(Xnew, Ynew)), {"X": Xr, "y": Y2, "Xnew": Xn, "Ynew": L(lambda c: mat((4, 3), c, 56))})], "regression")
    add("regression.CP_PLSR.fit_transform", [CP_PLSR.fit_transform], [Spec("default", lambda X, Y: CP_PLSR(**pk).fit_transform(X, Y), {"X": Xr, "Y": Y2})], "regression")
    add("regression.CP_PLSR.score", [CP_PLSR.score], [Spec("default", fit_then(CP_PLSR, pk, lambda est, X, y, Xnew, Ynew: est.score(Xnew, Ynew)),
                                                           {"X": Xr, "y": Y2, "Xnew": Xn, "Ynew": L(lambda c: mat((4, 2), c, 56))})], "regression")

    # ---- the documented in-place backend primitive ------------------------------------------------------------------
    def index_update(tensor, rows, values):
        return tl.index_update(tensor, tl.index[rows, :], values)

    add("backend.index_update", [tl.backend.core.Backend.index_update], [
        Spec("row-slice", index_update, {"tensor": L(lambda c: mat((4, 3), c, 60)), "rows": slice(1, 3), "values": L(lambda c: mat((2, 3), c, 61))}, exempt=("tensor",)),
        Spec("row-list", index_update, {"tensor": L(lambda c: mat((4, 3), c, 60)), "rows": [0, 2], "values": L(lambda c: mat((2, 3), c, 61))}, {"rows": "list"}, exempt=("tensor",)),
    ], "backend")
    return E
