"""C18 catalogue, part 2: decompositions (functions, class wrappers, initialisers)."""
import numpy as np

SR_Q = [((3, 4, 2), 2)]
SR_T_EXTRA = [((3, 4, 2), 3), ((4, 3), 2), ((2, 3, 2, 2), 2)]


def register(E, v, rng_guard):
    import tensorly as tl
    from tensorly import decomposition as D
    from tensorly.decomposition import _cp, _constrained_cp, _tucker, _parafac2
    from tensorly.cp_tensor import CPTensor
    from tensorly.contrib.decomposition import tensor_train_cross, tensor_train_OI

    def grid(opts, call, extra=SR_T_EXTRA, cx_labels=()):
        """opts: [(label, kwargs, tier)] -> variants over shape/rank sets (quick: base shape; thorough: + extra shapes)."""
        out = []
        for label, kw, tier in opts:
            cxv = True if label in cx_labels else None
            for (shape, rank) in SR_Q:
                out.append(v(label, lambda d, kw=kw, shape=shape, rank=rank: call(d, shape, rank, **kw), tier, cxv))
            for (shape, rank) in extra:
                out.append(v(f"{label}|shape={'x'.join(map(str, shape))},rank={rank}",
                             lambda d, kw=kw, shape=shape, rank=rank: call(d, shape, rank, **kw), "x" if tier == "x" else "t", cxv))
        return out

    def mask_for(d, shape):
        n = int(np.prod(shape))
        return d.c((np.arange(n) % 5 != 2).reshape(shape))

    def split_errors(res, flag, key):
        if flag:
            return {key: res[0], "errors~": res[1]}
        return {key: res}

    # ================================================================== CP
    def call_parafac(d, shape, rank, _pos=False, _init=None, _mask=False, _fn=None, _sp=False, **kw):
        fn = _fn or D.parafac
        if _sp:
            kw["sparsity_coefficients"] = [0.1, None, 0.2, 0.1][: len(shape)]
        T = d.a(shape, 0, signed=not _pos)
        if _init == "user":
            kw["init"] = CPTensor(d.cp(shape, rank, k=20, signed=not _pos))
        elif _init == "user-noweights":
            kw["init"] = (None, d.mats(shape, rank, k=20, signed=not _pos))
        if _mask:
            kw["mask"] = mask_for(d, shape)
        res = fn(T, rank, random_state=d.off + 3, **kw)
        return split_errors(res, kw.get("return_errors"), "cp")

    it = dict(n_iter_max=3, tol=1e-300)
    parafac_opts = [
        ("init=svd", dict(init="svd", **it), "q"),
        ("init=random", dict(init="random", **it), "q"),
        ("init=user", dict(_init="user", **it), "q"),
        ("init=user-noweights", dict(_init="user-noweights", **it), "t"),
        ("normalize_factors", dict(init="svd", normalize_factors=True, **it), "q"),
        ("normalize_factors,init=random", dict(init="random", normalize_factors=True, **it), "t"),
        ("orthogonalise", dict(init="svd", orthogonalise=True, **it), "q"),
        ("mask", dict(init="random", _mask=True, **it), "q"),
        ("mask,init=svd", dict(init="svd", _mask=True, **it), "q"),
        ("sparsity", dict(init="svd", sparsity=0.25, **it), "q"),
        ("l2_reg", dict(init="svd", l2_reg=0.1, **it), "q"),
        ("fixed_modes", dict(init="random", fixed_modes=[1], **it), "q"),
        ("linesearch", dict(init="svd", linesearch=True, n_iter_max=9, tol=1e-300), "q"),
        # option pairs whose code paths only meet late in a run (the imputation of masked entries on sweeps that skip the error computation)
        ("mask,linesearch", dict(init="random", _mask=True, linesearch=True, n_iter_max=9, tol=1e-300), "q"),
        ("mask,tol=0", dict(init="svd", _mask=True, n_iter_max=4, tol=0), "q"),
        ("mask,normalize_factors,linesearch", dict(init="svd", _mask=True, normalize_factors=True, linesearch=True, n_iter_max=9, tol=1e-300), "t"),
        ("cvg=rec_error,return_errors", dict(init="svd", cvg_criterion="rec_error", return_errors=True, **it), "q"),
        ("svd=randomized_svd", dict(init="svd", svd="randomized_svd", **it), "q"),
        ("svd=symeig_svd", dict(init="svd", svd="symeig_svd", **it), "t"),
        ("tol-exit", dict(init="svd", n_iter_max=50, tol=1e-2), "q"),
        ("normalize_factors,tol-exit", dict(init="svd", normalize_factors=True, n_iter_max=50, tol=1e-2), "t"),
    ]
    CXP = ("init=svd", "init=random", "init=user", "normalize_factors", "orthogonalise", "tol-exit", "l2_reg", "fixed_modes")
    E("parafac", "decomposition", 6.0, grid(parafac_opts, call_parafac, cx_labels=CXP), cx=False, ta=True)

    def call_CP(d, shape, rank, **kw):
        est = D.CP(rank, random_state=d.off + 3, **kw)
        out = est.fit_transform(d.a(shape))
        return {"cp": out, "decomposition_": est.decomposition_}
    E("CP", "decomposition", 1.0, grid([("init=svd", dict(init="svd", **it), "q"), ("init=random,normalize", dict(init="random", normalize_factors=True, **it), "q")],
                                       call_CP, extra=[], cx_labels=("init=svd",)), ta=True)

    def call_init_cp(d, shape, rank, _pos=False, _mask=False, _init=None, _rank=None, **kw):
        rank = _rank or rank
        T = d.a(shape, 0, signed=not _pos)
        if _mask:
            kw["mask"] = mask_for(d, shape)
        if _init == "user":
            kw["init"] = CPTensor(d.cp(shape, rank, k=20))
        return {"cp": _cp.initialize_cp(T, rank, random_state=d.off + 3, **kw)}
    E("initialize_cp", "decomposition", 1.0, grid([
        ("init=svd", dict(init="svd"), "q"), ("init=random", dict(init="random"), "q"), ("init=user", dict(_init="user"), "q"),
        ("init=svd,rank>dim", dict(init="svd", _rank=3), "q"),
        ("init=svd,non_negative", dict(init="svd", non_negative=True, _pos=True), "q"),
        ("init=random,non_negative", dict(init="random", non_negative=True, _pos=True), "q"),
        ("init=svd,normalize_factors", dict(init="svd", normalize_factors=True), "q"),
        ("init=svd,mask", dict(init="svd", _mask=True), "q"),
        ("init=svd,svd=randomized_svd", dict(init="svd", svd="randomized_svd"), "t"),
    ], call_init_cp, cx_labels=("init=svd", "init=random", "init=user")), ta=True)

    def call_rand_cp(d, shape, rank, _cls=False, **kw):
        T = d.a(shape)
        if _cls:
            est = D.RandomizedCP(rank, 6, random_state=d.off + 3, verbose=0, **kw)
            out = est.fit_transform(T)
            return {"cp": out}
        res = D.randomised_parafac(T, rank, 6, random_state=d.off + 3, **kw)
        return split_errors(res, kw.get("return_errors"), "cp")
    rit = dict(n_iter_max=3, tol=1e-300, max_stagnation=0)
    E("randomised_parafac", "decomposition", 2.0, grid([
        ("init=random", dict(init="random", **rit), "q"), ("init=svd", dict(init="svd", **rit), "q"),
        ("return_errors", dict(init="random", return_errors=True, **rit), "q")], call_rand_cp), ta=True)
    E("RandomizedCP", "decomposition", 1.0, grid([("init=random", dict(init="random", _cls=True, **rit), "q")], call_rand_cp, extra=[]), ta=True)
    E("sample_khatri_rao", "decomposition", 0.3, [
        v("default", lambda d: (lambda r: {"kr": r[0], "idx": r[1]})(D.sample_khatri_rao(d.mats(), 5, random_state=d.off))),
        v("skip_matrix", lambda d: (lambda r: {"kr": r[0], "idx": r[1]})(D.sample_khatri_rao(d.mats(), 5, skip_matrix=1, random_state=d.off))),
        v("return_sampled_rows", lambda d: (lambda r: {"kr": r[0], "idx": r[1], "rows": r[2]})(
            D.sample_khatri_rao(d.mats(), 5, return_sampled_rows=True, random_state=d.off))),
    ], cx=True)

    nn_it = dict(n_iter_max=3, tol=1e-300)
    E("non_negative_parafac", "decomposition", 3.0, grid([
        ("init=svd", dict(init="svd", _pos=True, **nn_it), "q"),
        ("init=random", dict(init="random", _pos=True, **nn_it), "q"),
        ("init=user", dict(_init="user", _pos=True, **nn_it), "q"),
        ("normalize_factors", dict(init="svd", normalize_factors=True, _pos=True, **nn_it), "q"),
        ("mask", dict(init="random", _mask=True, _pos=True, **nn_it), "q"),
        ("fixed_modes", dict(init="random", fixed_modes=[0], _pos=True, **nn_it), "q"),
        ("cvg=rec_error,return_errors", dict(init="svd", cvg_criterion="rec_error", return_errors=True, _pos=True, **nn_it), "q"),
    ], lambda d, s, r, **kw: call_parafac(d, s, r, _fn=D.non_negative_parafac, **kw)), ta=True)
    E("CP_NN", "decomposition", 1.0, grid([("init=svd", dict(init="svd", **nn_it), "q")],
                                          lambda d, s, r, **kw: {"cp": D.CP_NN(r, random_state=d.off, **kw).fit_transform(d.pos(s))}, extra=[]), ta=True)
    h_it = dict(n_iter_max=2, tol=1e-300)
    E("non_negative_parafac_hals", "decomposition", 30.0, grid([
        ("init=svd", dict(init="svd", _pos=True, **h_it), "q"),
        ("init=random", dict(init="random", _pos=True, **h_it), "q"),
        ("init=user", dict(_init="user", _pos=True, **h_it), "t"),
        ("sparsity_coefficients", dict(init="svd", _sp=True, _pos=True, **h_it), "q"),
        ("fixed_modes", dict(init="svd", fixed_modes=[0], _pos=True, **h_it), "q"),
        ("nn_modes=[0]", dict(init="svd", nn_modes=[0], **h_it), "q"),
        ("exact", dict(init="svd", exact=True, _pos=True, n_iter_max=1, tol=1e-300), "x"),
        ("normalize_factors", dict(init="svd", normalize_factors=True, _pos=True, **h_it), "q"),
        ("return_errors", dict(init="svd", return_errors=True, _pos=True, **h_it), "q"),
    ], lambda d, s, r, **kw: call_parafac(d, s, r, _fn=D.non_negative_parafac_hals, **kw), extra=[((4, 3), 2)]), ta=True)
    E("CP_NN_HALS", "decomposition", 6.0, grid([("init=svd", dict(init="svd", **h_it), "q")],
                                               lambda d, s, r, **kw: {"cp": D.CP_NN_HALS(r, random_state=d.off, **kw).fit_transform(d.pos(s))}, extra=[]), ta=True)

    # ================================================================== constrained CP (every constraint)
    CONSTRAINTS = [
        ("non_negative", True), ("l1_reg", 0.05), ("l2_reg", 0.05), ("l2_square_reg", 0.05), ("unimodality", True),
        ("normalize", True), ("simplex", 1.0), ("normalized_sparsity", 2), ("soft_sparsity", 1.0), ("smoothness", 0.1),
        ("monotonicity", True), ("hard_sparsity", 2),
    ]

    def call_ccp(d, shape, rank, _init=None, _cls=False, **kw):
        T = d.a(shape)
        if _init == "user":
            kw["init"] = CPTensor(d.cp(shape, rank, k=20))
        if _cls:
            est = D.ConstrainedCP(rank, random_state=d.off + 3, **kw)
            return {"cp": est.fit_transform(T)}
        res = D.constrained_parafac(T, rank, random_state=d.off + 3, **kw)
        return split_errors(res, kw.get("return_errors"), "cp")
    c_it = dict(n_iter_max=2, n_iter_max_inner=3)
    ccp_opts = []
    for cname, cval in CONSTRAINTS:
        ccp_opts.append((f"{cname},init=svd", dict(init="svd", **{cname: cval}, **c_it), "q"))
        ccp_opts.append((f"{cname},init=random", dict(init="random", **{cname: cval}, **c_it), "q"))
        ccp_opts.append((f"{cname},init=user", dict(_init="user", **{cname: cval}, **c_it), "t"))
    ccp_opts += [
        ("non_negative-dict{0}", dict(init="svd", non_negative={0: True}, **c_it), "q"),
        ("l1_reg-list", dict(init="svd", l1_reg=[0.05, 0.1, 0.02], **c_it), "q"),
        ("non_negative,fixed_modes", dict(init="svd", non_negative=True, fixed_modes=[1], **c_it), "q"),
        ("non_negative,return_errors,cvg=rec_error", dict(init="svd", non_negative=True, return_errors=True, cvg_criterion="rec_error", **c_it), "q"),
        ("non_negative+l1_reg-dicts", dict(init="svd", non_negative={0: True}, l1_reg={1: 0.05}, **c_it), "t"),
    ]
    E("constrained_parafac", "decomposition", 60.0, grid(ccp_opts, call_ccp, extra=[((4, 3), 2)]), ta=True)
    E("ConstrainedCP", "decomposition", 3.0, grid([("non_negative,init=svd", dict(init="svd", non_negative=True, _cls=True, **c_it), "q"),
                                                   ("l2_reg,init=random", dict(init="random", l2_reg=0.05, _cls=True, **c_it), "q")], call_ccp, extra=[]), ta=True)
    E("initialize_constrained_parafac", "decomposition", 3.0, grid(
        [(f"{cname},init={ini}", dict(init=ini, **{cname: cval}), "q" if ini == "svd" else "t") for cname, cval in CONSTRAINTS for ini in ("svd", "random")]
        + [("non_negative,init=user", dict(_u=True, non_negative=True), "q")],
        lambda d, s, r, _u=False, **kw: {"cp": _constrained_cp.initialize_constrained_parafac(
            d.a(s), r, random_state=d.off, **({"init": CPTensor(d.cp(s, r, k=20))} if _u else {}), **kw)}, extra=[]), ta=True)

    # ================================================================== power iterations (global numpy RNG)
    pw = dict(n_repeat=2, n_iteration=3)
    E("power_iteration", "decomposition", 0.5, [
        v("order3", rng_guard(lambda d: (lambda r: {"eig@real": r[0], "vectors": r[1], "deflated": r[2]})(D.power_iteration(d.t3(), **pw))))], ta=True)
    E("parafac_power_iteration", "decomposition", 1.0, [
        v("rank=2", rng_guard(lambda d: {"cp": D.parafac_power_iteration(d.t3(), 2, **pw)})),
        v("CPPower", rng_guard(lambda d: {"cp": D.CPPower(2, **pw).fit_transform(d.t3())}))], ta=True)

    def sym(d):
        w, f = d.cp((3, 3, 3), 2)
        return tl.cp_to_tensor((w, [f[0], f[0], f[0]]))
    E("symmetric_power_iteration", "decomposition", 0.5, [
        v("order3", rng_guard(lambda d: (lambda r: {"eig@real": r[0], "vector": r[1], "deflated": r[2]})(D.symmetric_power_iteration(sym(d), **pw))))], ta=True)
    E("symmetric_parafac_power_iteration", "decomposition", 1.0, [
        v("rank=2", rng_guard(lambda d: (lambda r: {"weights": r[0], "factor": r[1]})(D.symmetric_parafac_power_iteration(sym(d), 2, **pw)))),
        v("SymmetricCP", rng_guard(lambda d: {"out": D.SymmetricCP(2, **pw).fit_transform(sym(d))}))], ta=True)

    # ================================================================== Tucker
    def tk_rank(shape, rank):
        return [min(rank, s) for s in shape]

    def call_tucker(d, shape, rank, _pos=False, _init=None, _mask=False, _fixed=False, _fn=None, _sp=False, **kw):
        fn = _fn or D.tucker
        if _sp:
            kw["sparsity_coefficients"] = [0.1] * len(shape)
        T = d.a(shape, 0, signed=not _pos)
        rk = tk_rank(shape, rank)
        if _init == "user":
            kw["init"] = d.tucker(shape, rk, k=20) if not _pos else (d.pos(rk, 27), [d.pos((s, r), 20 + i) for i, (s, r) in enumerate(zip(shape, rk))])
        if _mask:
            kw["mask"] = mask_for(d, shape)
        if _fixed:
            kw["fixed_factors"] = [1]
        res = fn(T, rk, random_state=d.off + 3, **kw)
        return split_errors(res, kw.get("return_errors"), "tk")
    t_it = dict(n_iter_max=3, tol=0)
    E("tucker", "decomposition", 4.0, grid([
        ("init=svd", dict(init="svd", **t_it), "q"), ("init=random", dict(init="random", **t_it), "q"),
        ("init=user", dict(_init="user", **t_it), "q"), ("mask", dict(init="svd", _mask=True, **t_it), "q"),
        ("mask,init=random", dict(init="random", _mask=True, **t_it), "t"),
        ("fixed_factors", dict(_init="user", _fixed=True, **t_it), "q"),
        ("return_errors", dict(init="svd", return_errors=True, **t_it), "q"),
        ("svd=randomized_svd", dict(init="svd", svd="randomized_svd", **t_it), "q"),
        ("svd=symeig_svd", dict(init="svd", svd="symeig_svd", **t_it), "t"),
        ("tol-exit", dict(init="svd", n_iter_max=30, tol=1e-2), "q"),
    ], call_tucker, cx_labels=("init=svd", "init=random", "init=user", "tol-exit")), ta=True)

    def call_ptucker(d, shape, rank, _mask=False, **kw):
        T = d.a(shape)
        modes = [0, len(shape) - 1]
        if _mask:
            kw["mask"] = mask_for(d, shape)
        (core, factors), errs = D.partial_tucker(T, [min(rank, shape[m]) for m in modes], modes=modes, random_state=d.off, **kw)
        return {"core": core, "factors": factors, "errors~": errs}
    E("partial_tucker", "decomposition", 2.0, grid([
        ("init=svd", dict(init="svd", **t_it), "q"), ("init=random", dict(init="random", **t_it), "q"),
        ("mask", dict(init="svd", _mask=True, **t_it), "q")], call_ptucker, cx_labels=("init=svd",)), ta=True)
    E("Tucker", "decomposition", 1.0, grid([("init=svd", dict(init="svd", **t_it), "q"), ("init=random", dict(init="random", **t_it), "q")],
                                           lambda d, s, r, **kw: {"tk": D.Tucker(tk_rank(s, r), random_state=d.off, **kw).fit_transform(d.a(s))}, extra=[]), ta=True)
    E("initialize_tucker", "decomposition", 1.0, grid([
        ("init=svd", dict(init="svd"), "q"), ("init=random", dict(init="random"), "q"),
        ("init=svd,non_negative", dict(init="svd", non_negative=True), "q"),
        ("init=random,non_negative", dict(init="random", non_negative=True), "q"),
        ("init=svd,mask", dict(init="svd", _m=True), "q")],
        lambda d, s, r, _m=False, **kw: (lambda res: {"core": res[0], "factors": res[1]})(
            _tucker.initialize_tucker(d.pos(s) if kw.get("non_negative") else d.a(s), tk_rank(s, r), list(range(len(s))), d.off,
                                      **({"mask": mask_for(d, s)} if _m else {}), **kw)), cx_labels=("init=svd",)), ta=True)
    E("non_negative_tucker", "decomposition", 3.0, grid([
        ("init=svd", dict(init="svd", _pos=True, **nn_it), "q"), ("init=random", dict(init="random", _pos=True, **nn_it), "q"),
        ("init=user", dict(_init="user", _pos=True, **nn_it), "q"),
        ("normalize_factors", dict(init="svd", normalize_factors=True, _pos=True, **nn_it), "q"),
        ("return_errors", dict(init="svd", return_errors=True, _pos=True, **nn_it), "q"),
    ], lambda d, s, r, **kw: call_tucker(d, s, r, _fn=D.non_negative_tucker, **kw)), ta=True)
    E("Tucker_NN", "decomposition", 1.0, grid([("init=svd", dict(init="svd", **nn_it), "q")],
                                              lambda d, s, r, **kw: {"tk": _tucker.Tucker_NN(tk_rank(s, r), random_state=d.off, **kw).fit_transform(d.pos(s))}, extra=[]), ta=True)
    th_it = dict(n_iter_max=2, tol=1e-300)
    E("non_negative_tucker_hals", "decomposition", 40.0, grid([
        ("algorithm=fista", dict(init="svd", _pos=True, **th_it), "q"),
        ("algorithm=active_set", dict(init="svd", algorithm="active_set", _pos=True, **th_it), "q"),
        ("init=random", dict(init="random", _pos=True, **th_it), "q"),
        ("init=user", dict(_init="user", _pos=True, **th_it), "t"),
        ("sparsity_coefficients", dict(init="svd", _sp=True, _pos=True, **th_it), "q"),
        ("core_sparsity_coefficient", dict(init="svd", core_sparsity_coefficient=0.1, _pos=True, **th_it), "q"),
        ("fixed_modes", dict(init="svd", fixed_modes=[0], _pos=True, **th_it), "q"),
        ("normalize_factors", dict(init="svd", normalize_factors=True, _pos=True, **th_it), "q"),
        ("return_errors", dict(init="svd", return_errors=True, _pos=True, **th_it), "q"),
        ("exact", dict(init="svd", exact=True, _pos=True, n_iter_max=1, tol=1e-300), "x"),
    ], lambda d, s, r, **kw: call_tucker(d, s, r, _fn=D.non_negative_tucker_hals, **kw), extra=[((4, 3), 2)]), ta=True)
    E("Tucker_NN_HALS", "decomposition", 8.0, grid([("algorithm=fista", dict(init="svd", **th_it), "q")],
                                                   lambda d, s, r, **kw: {"tk": _tucker.Tucker_NN_HALS(tk_rank(s, r), random_state=d.off, **kw).fit_transform(d.pos(s))},
                                                   extra=[]), ta=True)

    # ================================================================== PARAFAC2
    def call_pf2(d, _input="list", _init=None, _cls=False, _pos=False, **kw):
        sl = [d.a(s.shape, 50 + i, signed=not _pos) for i, s in enumerate(d.slices())]
        if _input == "tensor":
            sl = d.a((3, 4, 3), 50, signed=not _pos)
        if _init == "user":
            w, f, P = d.pf2(k=20, rows=(3, 4, 3) if _input == "list" else (4, 4, 4))
            kw["init"] = (w, f, P)
        if _cls:
            est = D.Parafac2(2, random_state=d.off + 3, **kw)
            res = est.fit_transform(sl)
            return split_errors(res, kw.get("return_errors"), "pf2")
        res = D.parafac2(sl, 2, random_state=d.off + 3, **kw)
        return split_errors(res, kw.get("return_errors"), "pf2")
    p_it = dict(n_iter_max=3, tol=1e-300, n_iter_parafac=2)
    E("parafac2", "decomposition", 25.0, [
        v("init=random", lambda d: call_pf2(d, init="random", linesearch=False, **p_it)),
        v("init=svd", lambda d: call_pf2(d, init="svd", linesearch=False, **p_it)),
        v("init=user", lambda d: call_pf2(d, _init="user", linesearch=False, **p_it)),
        v("input=3d-tensor", lambda d: call_pf2(d, _input="tensor", init="random", linesearch=False, **p_it)),
        v("normalize_factors", lambda d: call_pf2(d, init="random", normalize_factors=True, linesearch=False, **p_it)),
        v("nn_modes=all", lambda d: call_pf2(d, init="random", nn_modes="all", linesearch=False, _pos=True, **p_it)),
        v("nn_modes=[0]", lambda d: call_pf2(d, init="random", nn_modes=[0], linesearch=False, _pos=True, **p_it)),
        v("linesearch", lambda d: call_pf2(d, init="random", linesearch=True, n_iter_max=9, tol=1e-300, n_iter_parafac=2)),
        v("return_errors", lambda d: call_pf2(d, init="random", return_errors=True, linesearch=False, **p_it)),
        v("svd=randomized_svd", lambda d: call_pf2(d, init="svd", svd="randomized_svd", linesearch=False, **p_it), "t"),
        v("init=svd,normalize_factors", lambda d: call_pf2(d, init="svd", normalize_factors=True, linesearch=False, **p_it), "t"),
    ], ta=True)
    E("Parafac2", "decomposition", 6.0, [
        v("init=random", lambda d: call_pf2(d, _cls=True, init="random", **p_it)),
        v("init=random,return_errors", lambda d: call_pf2(d, _cls=True, init="random", return_errors=True, **p_it))], ta=True)
    E("parafac2.initialize_decomposition", "decomposition", 1.0, [
        v("init=random", lambda d: {"pf2": _parafac2.initialize_decomposition(d.slices(), 2, init="random", random_state=d.off)}),
        v("init=svd", lambda d: {"pf2": _parafac2.initialize_decomposition(d.slices(), 2, init="svd", random_state=d.off)}),
        v("init=user", lambda d: {"pf2": _parafac2.initialize_decomposition(d.slices(), 2, init=d.pf2(k=20), random_state=d.off)}),
    ], ta=True)

    # ================================================================== TT / TR / TT-matrix
    E("tensor_train", "decomposition", 1.0, [
        v("order3", lambda d: {"tt": D.tensor_train(d.t3(), [1, 2, 2, 1])}),
        v("order3,svd=randomized_svd", lambda d: {"tt": D.tensor_train(d.t3(), [1, 2, 2, 1], svd="randomized_svd")}),
        v("order4,int-rank", lambda d: {"tt": D.tensor_train(d.a((2, 3, 2, 2)), 2)}),
        v("order2", lambda d: {"tt": D.tensor_train(d.a((4, 3)), [1, 2, 1])}, "t"),
        v("TensorTrain", lambda d: {"tt": D.TensorTrain([1, 2, 2, 1]).fit_transform(d.t3())}),
        v("svd=symeig_svd", lambda d: {"tt": D.tensor_train(d.t3(), [1, 2, 2, 1], svd="symeig_svd")}, "t", False),
    ], cx=True, ta=True)
    E("tensor_train_matrix", "decomposition", 1.0, [
        v("default", lambda d: {"ttm": D.tensor_train_matrix(d.a((2, 3, 2, 3)), [1, 2, 1])}),
        v("TensorTrainMatrix", lambda d: {"ttm": D.TensorTrainMatrix([1, 2, 1]).fit_transform(d.a((2, 3, 2, 3)))}),
    ], cx=True, ta=True)
    E("tensor_ring", "decomposition", 1.0, [
        v("mode=0", lambda d: {"tr": D.tensor_ring(d.t3(), [1, 2, 2, 1])}),
        v("mode=1,rank2", lambda d: {"tr": D.tensor_ring(d.t3(), [2, 2, 2, 2], mode=1)}),
        v("TensorRing", lambda d: {"tr": D.TensorRing([1, 2, 2, 1]).fit_transform(d.t3())}),
        v("order4", lambda d: {"tr": D.tensor_ring(d.a((2, 3, 2, 2)), [2, 1, 2, 2, 2])}, "t"),
    ], cx=True, ta=True)
    a_it = dict(n_iter_max=3, tol=0.0)
    E("tensor_ring_als", "decomposition", 2.0, [
        v("ls_solve=lstsq", lambda d: {"tr": D.tensor_ring_als(d.t3(), [2, 2, 2, 2], random_state=d.off, **a_it)}),
        v("ls_solve=normal_eq", lambda d: {"tr": D.tensor_ring_als(d.t3(), [2, 2, 2, 2], ls_solve="normal_eq", random_state=d.off, **a_it)}),
        v("TensorRingALS", lambda d: {"tr": D.TensorRingALS([2, 2, 2, 2], random_state=d.off, **a_it).fit_transform(d.t3())}),
        v("order4", lambda d: {"tr": D.tensor_ring_als(d.a((2, 3, 2, 2)), [2, 2, 2, 2, 2], random_state=d.off, **a_it)}, "t"),
        v("tol-exit", lambda d: {"tr": D.tensor_ring_als(d.t3(), [2, 2, 2, 2], random_state=d.off, n_iter_max=30, tol=1e-2)}, "t"),
    ], ta=True)
    E("tensor_ring_als_sampled", "decomposition", 4.0, [
        v("leverage", lambda d: {"tr": D.tensor_ring_als_sampled(d.t3(), [2, 2, 2, 2], 6, random_state=d.off, **a_it)}),
        v("uniform_sampling", lambda d: {"tr": D.tensor_ring_als_sampled(d.t3(), [2, 2, 2, 2], 6, uniform_sampling=True, random_state=d.off, **a_it)}),
        v("randomized_error", lambda d: {"tr": D.tensor_ring_als_sampled(d.t3(), [2, 2, 2, 2], 6, randomized_error=True, random_state=d.off, n_iter_max=3, tol=1e-300)}),
        v("TensorRingALSSampled", lambda d: {"tr": D.TensorRingALSSampled([2, 2, 2, 2], 6, random_state=d.off, **a_it).fit_transform(d.t3())}),
    ], ta=True)
    E("tensor_train_cross", "contrib", 4.0, [
        v("default", lambda d: {"tt": tensor_train_cross(d.pos((4, 4, 4), 2), [1, 2, 2, 1], tol=0.5, n_iter_max=20, random_state=d.off)})], ta=True)

    def call_ttoi(d, n_iter=2, **kw):
        res = tensor_train_OI(d.t3(), [1, 2, 2, 1], n_iter=n_iter, **kw)
        if kw.get("return_errors", True):
            return {"factors": res[0], "full": res[1], "errors~": res[2]}
        return {"factors": res[0], "full": res[1]}
    E("tensor_train_OI", "contrib", 2.0, [
        v("default", lambda d: call_ttoi(d)),
        v("trajectory", lambda d: call_ttoi(d, trajectory=True)),
        v("no-errors", lambda d: call_ttoi(d, return_errors=False)),
        v("n_iter=1", lambda d: call_ttoi(d, n_iter=1)),
        v("n_iter=1,no-errors", lambda d: call_ttoi(d, n_iter=1, return_errors=False))], ta=True)

    # ================================================================== robust PCA, CMTF
    def call_rpca(d, _mask=False, **kw):
        if _mask:
            kw["mask"] = mask_for(d, (3, 4, 2))
        res = D.robust_pca(d.t3(), n_iter_max=3, verbose=0, **kw)
        out = {"low_rank": res[0], "sparse": res[1]}
        if kw.get("return_errors"):
            out["errors~"] = res[2]
        return out
    E("robust_pca", "decomposition", 2.0, [
        v("default", lambda d: call_rpca(d)), v("mask", lambda d: call_rpca(d, _mask=True)),
        v("return_errors", lambda d: call_rpca(d, return_errors=True)),
        v("reg", lambda d: call_rpca(d, reg_E=0.5, reg_J=2.0, learning_rate=1.5))], ta=True)

    def call_cmtf(d, **kw):
        res = D.coupled_matrix_tensor_3d_factorization(d.t3(), d.a((3, 3), 9), 2, n_iter_max=3, **kw)
        return {"tensor_cp": res[0], "matrix_cp": res[1], "errors~": res[2]}
    E("coupled_matrix_tensor_3d_factorization", "decomposition", 2.0, [
        v("init=svd", lambda d: call_cmtf(d, init="svd")),
        v("init=random", rng_guard(lambda d: call_cmtf(d, init="random"))),
        v("normalize_factors", lambda d: call_cmtf(d, init="svd", normalize_factors=True))], ta=True)

    return {"call_parafac": call_parafac, "call_ccp": call_ccp, "call_tucker": call_tucker, "call_pf2": call_pf2,
            "CONSTRAINTS": CONSTRAINTS}
