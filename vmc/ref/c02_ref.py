"""C02 reference formulas that are not already in vmc/ref/core.py.

Same style as core.py: explicit loops over index tuples on python numbers (ints / complex with integer
parts), no reshape / moveaxis / einsum / BLAS.  Every function states the textbook index formula it is.
"""
from itertools import product as _product

from vmc.ref.core import RT, build, conj, mode_dot


def conj_rt(t):
    return RT(t.shape, [conj(x) for x in t.data])


def multi_mode_dot(t, ops, modes, skip=None, transpose=False):
    """T x_{modes[0]} ops[0] x_{modes[1]} ops[1] ...  (operand number `skip` of the *given list* left out).

    out[.., j_m, ..] = sum_{i_m} M_m[j_m, i_m] T[.., i_m, ..] for a matrix operand, the mode disappears for a
    vector operand; the surviving modes keep their original relative order.  With transpose the operand used is
    the conjugate transpose of the given one (for a vector: its conjugate).  Modes are looked up by *name* in the
    list of still-alive original modes, so no position arithmetic is shared with the library."""
    live = list(range(t.ndim))
    res = t
    for li, (op, mode) in enumerate(zip(ops, modes)):
        if skip is not None and li == skip:
            continue
        pos = live.index(mode)
        if op.ndim == 1:
            res = mode_dot(res, conj_rt(op) if transpose else op, pos)
            live.remove(mode)
        else:
            res = mode_dot(res, op, pos, transpose=transpose)
    return res


def tensordot(a, b, modes1, modes2, batch1, batch2):
    """Batched contraction.  Output modes: the modes of `a` that are not contracted, in their original order
    (batch modes stay where they are in `a`), followed by the modes of `b` that are neither contracted nor
    batched, in their original order.
      out[r, f] = sum_c a[r, c] * b[batch(r), c, f]"""
    rem1 = [i for i in range(a.ndim) if i not in modes1]
    free2 = [j for j in range(b.ndim) if j not in modes2 and j not in batch2]
    oshape = [a.shape[i] for i in rem1] + [b.shape[j] for j in free2]
    cranges = [range(a.shape[i]) for i in modes1]
    n1 = len(rem1)

    def ent(idx):
        ia = [None] * a.ndim
        ib = [None] * b.ndim
        for p, i in enumerate(rem1):
            ia[i] = idx[p]
        for p, j in enumerate(free2):
            ib[j] = idx[n1 + p]
        for i, j in zip(batch1, batch2):
            ib[j] = ia[i]
        s = 0
        for c in _product(*cranges):
            for i, j, v in zip(modes1, modes2, c):
                ia[i] = v
                ib[j] = v
            s = s + a[tuple(ia)] * b[tuple(ib)]
        return s

    return build(oshape, ent)


def batched_outer(ts):
    """out[n, i.., j.., ...] = prod_k t_k[n, idx_k]  (all operands share their first, batch, mode)."""
    nb = ts[0].shape[0]
    oshape = (nb,)
    cuts = []
    for t in ts:
        assert t.shape[0] == nb
        cuts.append((len(oshape), len(oshape) + t.ndim - 1))
        oshape = oshape + t.shape[1:]

    def ent(idx):
        v = 1
        for t, (lo, hi) in zip(ts, cuts):
            v = v * t[(idx[0],) + tuple(idx[lo:hi])]
        return v

    return build(oshape, ent)


def moment_sum(t, order):
    """S[i_1.., i_2.., ...] = sum_n prod_{k<order} t[n, i_k..]   (the moment is S / n_samples)."""
    feat = t.shape[1:]
    nf = len(feat)
    oshape = feat * order

    def ent(idx):
        s = 0
        for n in range(t.shape[0]):
            v = 1
            for k in range(order):
                v = v * t[(n,) + tuple(idx[k * nf:(k + 1) * nf])]
            s = s + v
        return s

    return build(oshape, ent)


def kr_row(rows, idx):
    """Row of the Khatri-Rao product (first matrix slowest) addressed by one row index per matrix."""
    r = 0
    for size, i in zip(rows, idx):
        r = r * size + i
    return r
