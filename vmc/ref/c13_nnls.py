"""Reference for C13: exact (Fraction) brute-force solution of tiny penalised NNLS problems.

    minimise  f(x) = 1/2 x'Gx - c'x + l1 * sum(x) + l2 * x'x     subject to x >= 0

(the constant 1/2 b'b of 1/2 ||Ux - b||^2 is dropped; G = U'U, c = U'b).  Every support S of {0..n-1}
is tried: the restricted unconstrained minimiser solves (G_SS + 2 l2 I) x_S = c_S - l1 (Gaussian
elimination on Fractions); it is a candidate iff x_S >= 0.  The optimum is the candidate with the least
objective.  Nothing here uses numpy or floats.
"""
from fractions import Fraction
from itertools import combinations


def to_frac(v):
    """ints stay exact; the two penalty coefficients used by the check are given as strings/ints."""
    if v is None:
        return Fraction(0)
    if isinstance(v, float):
        return Fraction(str(v))  # 0.1 -> 1/10 (the intended real number, not its binary expansion)
    return Fraction(v)


def solve_exact(A, b):
    """Solve A x = b (lists of Fractions) by Gauss-Jordan with row pivoting; None if singular."""
    n = len(A)
    M = [list(A[i]) + [b[i]] for i in range(n)]
    for col in range(n):
        piv = None
        for r in range(col, n):
            if M[r][col] != 0:
                piv = r
                break
        if piv is None:
            return None
        M[col], M[piv] = M[piv], M[col]
        p = M[col][col]
        M[col] = [v / p for v in M[col]]
        for r in range(n):
            if r != col and M[r][col] != 0:
                f = M[r][col]
                M[r] = [a - f * c for a, c in zip(M[r], M[col])]
    return [M[i][n] for i in range(n)]


def det_exact(A):
    n = len(A)
    M = [[Fraction(v) for v in row] for row in A]
    d = Fraction(1)
    for col in range(n):
        piv = None
        for r in range(col, n):
            if M[r][col] != 0:
                piv = r
                break
        if piv is None:
            return Fraction(0)
        if piv != col:
            M[col], M[piv] = M[piv], M[col]
            d = -d
        d *= M[col][col]
        for r in range(col + 1, n):
            if M[r][col] != 0:
                f = M[r][col] / M[col][col]
                M[r] = [a - f * c for a, c in zip(M[r], M[col])]
    return d


def objective(G, c, x, l1, l2):
    n = len(c)
    q = sum(x[i] * G[i][j] * x[j] for i in range(n) for j in range(n))
    return q / 2 - sum(c[i] * x[i] for i in range(n)) + l1 * sum(x) + l2 * sum(v * v for v in x)


def gradient(G, c, x, l1, l2):
    n = len(c)
    return [sum(G[i][j] * x[j] for j in range(n)) - c[i] + l1 + 2 * l2 * x[i] for i in range(n)]


def nnls_bruteforce(G, c, l1=0, l2=0):
    """G: n x n ints (symmetric PD), c: n ints, l1/l2: penalty coefficients.
    Returns dict(x, f, g, n_candidates, kkt_ok) with Fractions."""
    n = len(c)
    G = [[Fraction(v) for v in row] for row in G]
    c = [Fraction(v) for v in c]
    l1 = to_frac(l1)
    l2 = to_frac(l2)
    best = None
    ncand = 0
    for size in range(0, n + 1):
        for S in combinations(range(n), size):
            if size:
                A = [[G[i][j] + (2 * l2 if i == j else 0) for j in S] for i in S]
                xs = solve_exact(A, [c[i] - l1 for i in S])
                if xs is None or any(v < 0 for v in xs):
                    continue
            else:
                xs = []
            x = [Fraction(0)] * n
            for i, v in zip(S, xs):
                x[i] = v
            f = objective(G, c, x, l1, l2)
            ncand += 1
            if best is None or f < best[0]:
                best = (f, x)
    f, x = best
    g = gradient(G, c, x, l1, l2)
    kkt_ok = all(v >= 0 for v in x) and all((g[i] == 0) if x[i] > 0 else (g[i] >= 0) for i in range(n))
    return {"x": x, "f": f, "g": g, "n_candidates": ncand, "kkt_ok": kkt_ok}


def ls_exact(G, c):
    """Unconstrained least squares: G x = c exactly (None if singular)."""
    G = [[Fraction(v) for v in row] for row in G]
    return solve_exact(G, [Fraction(v) for v in c])
