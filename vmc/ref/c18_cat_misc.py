"""C18 catalogue, part 3: SVD functions, proximal operators, solvers, preprocessing, metrics, regressors, random."""
import numpy as np


def register(E, v, rng_guard):
    import tensorly as tl
    from tensorly.tenalg import svd as S
    from tensorly.tenalg import proximal as PX
    from tensorly.solvers import admm as ADMM
    from tensorly.solvers import nnls as NNLS
    from tensorly import preprocessing as PRE
    from tensorly import metrics as M
    from tensorly.metrics import regression as MR
    from tensorly import random as R
    from tensorly.regression import CPRegressor, TuckerRegressor, CP_PLSR

    def usv(r):
        return {"U": r[0], "S@real": r[1], "V": r[2]}

    # ================================================================== SVD
    E("truncated_svd", "svd", 0.3, [
        v("tall,k=None", lambda d: usv(S.truncated_svd(d.a((6, 4), 1)))),
        v("tall,k=2", lambda d: usv(S.truncated_svd(d.a((6, 4), 1), 2))),
        v("wide,k=3", lambda d: usv(S.truncated_svd(d.a((4, 7), 1), 3))),
        v("k>min", lambda d: usv(S.truncated_svd(d.a((4, 3), 1), 4)), "t"),
    ], cx=True)
    E("symeig_svd", "svd", 0.3, [
        v("tall,k=2", lambda d: usv(S.symeig_svd(d.a((6, 4), 1), 2))),
        v("wide,k=3", lambda d: usv(S.symeig_svd(d.a((4, 7), 1), 3))),
        v("k=None", lambda d: usv(S.symeig_svd(d.a((5, 3), 1)))),
    ])
    E("randomized_svd", "svd", 0.5, [
        v("tall", lambda d: usv(S.randomized_svd(d.a((6, 5), 1), 2, n_oversamples=1, random_state=d.off))),
        v("wide(transposed-branch)", lambda d: usv(S.randomized_svd(d.a((4, 7), 1), 2, n_oversamples=1, random_state=d.off))),
        v("n_iter=0", lambda d: usv(S.randomized_svd(d.a((6, 5), 1), 2, n_oversamples=2, n_iter=0, random_state=d.off)), "t"),
    ], cx=True)
    E("randomized_range_finder", "svd", 0.3, [
        v("n_iter=1", lambda d: {"Q": S.randomized_range_finder(d.a((6, 5), 1), 3, n_iter=1, random_state=d.off)}),
        v("n_iter=0", lambda d: {"Q": S.randomized_range_finder(d.a((6, 5), 1), 3, n_iter=0, random_state=d.off)}),
    ], cx=True)
    svdi = []
    for meth in ("truncated_svd", "symeig_svd", "randomized_svd"):
        kw = {"random_state": 0} if meth == "randomized_svd" else {}
        cxm = meth != "symeig_svd"
        svdi.append(v(f"method={meth}", lambda d, meth=meth, kw=kw: usv(S.svd_interface(d.a((6, 4), 1), method=meth, n_eigenvecs=3, **kw)), "q", cxm))
        svdi.append(v(f"method={meth},no-flip", lambda d, meth=meth, kw=kw: usv(S.svd_interface(d.a((6, 4), 1), method=meth, n_eigenvecs=3, flip_sign=False, **kw)), "t", cxm))
        svdi.append(v(f"method={meth},v-based-flip,wide", lambda d, meth=meth, kw=kw: usv(
            S.svd_interface(d.a((3, 6), 1), method=meth, n_eigenvecs=3, u_based_flip_sign=False, **kw)), "q", False))
        for nn in (True, "nndsvd", "nndsvda"):
            svdi.append(v(f"method={meth},non_negative={nn}", rng_guard(lambda d, meth=meth, kw=kw, nn=nn: usv(
                S.svd_interface(d.pos((5, 4), 1), method=meth, n_eigenvecs=3, non_negative=nn, **kw))),
                "q" if meth == "truncated_svd" else "t", False))
        svdi.append(v(f"method={meth},mask", lambda d, meth=meth, kw=kw: usv(
            S.svd_interface(d.a((5, 4), 1), method=meth, n_eigenvecs=2, mask=d.c(np.arange(20).reshape(5, 4) % 5 != 2), n_iter_mask_imputation=2, **kw)),
            "q" if meth == "truncated_svd" else "t", False))
    svdi.append(v("n_eigenvecs>min(shape)", lambda d: usv(S.svd_interface(d.a((3, 4), 1), n_eigenvecs=5)), "q", False))
    E("svd_interface", "svd", 3.0, svdi, cx=False)

    def nn_call(d, nntype):
        m = d.pos((5, 4), 1)
        U, s, Vt = np.linalg.svd(m.astype(np.float64), full_matrices=False)
        return dict(zip(("W", "H"), S.make_svd_non_negative(m, d.c(U[:, :3]), d.c(s[:3]), d.c(Vt[:3]), nntype)))
    E("make_svd_non_negative", "svd", 0.5, [v(f"nntype={t}", rng_guard(lambda d, t=t: nn_call(d, t))) for t in ("nndsvd", "nndsvda", True)])
    E("svd_flip", "svd", 0.2, [
        v("u-based", lambda d: dict(zip(("U", "V"), S.svd_flip(d.a((5, 3), 1), d.a((3, 4), 2))))),
        v("v-based", lambda d: dict(zip(("U", "V"), S.svd_flip(d.a((5, 3), 1), d.a((3, 4), 2), u_based_decision=False)))),
        v("u-based,V-has-more-rows", lambda d: dict(zip(("U", "V"), S.svd_flip(d.a((5, 2), 1), d.a((3, 4), 2))))),
        v("v-based,U-has-more-cols", lambda d: dict(zip(("U", "V"), S.svd_flip(d.a((5, 3), 1), d.a((2, 4), 2), u_based_decision=False)))),
    ])

    # ================================================================== proximal operators
    def px(fn):
        return lambda d: {"out": fn(d)}
    E("soft_thresholding", "proximal", 0.1, [
        v("float-threshold", px(lambda d: PX.soft_thresholding(d.a((3, 4)), 0.1))),
        v("array-threshold", px(lambda d: PX.soft_thresholding(d.a((3, 4)), d.c(np.arange(12).reshape(3, 4) % 2) * d.c(0.1))))])
    E("svd_thresholding", "proximal", 0.2, [v("default", px(lambda d: PX.svd_thresholding(d.a((4, 3)), 0.1)))])
    E("procrustes", "proximal", 0.2, [v("default", px(lambda d: PX.procrustes(d.a((4, 3)))))])
    E("hard_thresholding", "proximal", 0.1, [
        v("matrix", px(lambda d: PX.hard_thresholding(d.a((3, 4)), 5))), v("vector", px(lambda d: PX.hard_thresholding(d.a((6,)), 2)))])
    E("simplex_prox", "proximal", 0.1, [
        v("matrix", px(lambda d: PX.simplex_prox(d.a((4, 3)), 1.0))), v("vector", px(lambda d: PX.simplex_prox(d.a((5,)), 1.0))),
        v("matrix,int-parameter", px(lambda d: PX.simplex_prox(d.a((4, 3)), 1)), "t")])
    E("soft_sparsity_prox", "proximal", 0.1, [
        v("matrix", px(lambda d: PX.soft_sparsity_prox(d.a((4, 3)), 0.5))), v("vector", px(lambda d: PX.soft_sparsity_prox(d.a((5,)), 0.5)))])
    E("normalized_sparsity_prox", "proximal", 0.1, [
        v("matrix", px(lambda d: PX.normalized_sparsity_prox(d.a((4, 3)), 5))), v("vector", px(lambda d: PX.normalized_sparsity_prox(d.a((5,)), 2)))])
    E("l2_prox", "proximal", 0.1, [
        v("norm>reg", px(lambda d: PX.l2_prox(d.a((4, 3)), 0.1))), v("norm<reg", px(lambda d: PX.l2_prox(d.a((4, 3)), 50.0))),
        v("zero-tensor", px(lambda d: PX.l2_prox(d.c(np.zeros((3, 2))), 0.0)), "t")])
    E("l2_square_prox", "proximal", 0.1, [v("default", px(lambda d: PX.l2_square_prox(d.a((4, 3)), 0.1)))])
    E("smoothness_prox", "proximal", 0.1, [
        v("matrix", px(lambda d: PX.smoothness_prox(d.a((4, 3)), 0.1))), v("vector", px(lambda d: PX.smoothness_prox(d.a((5,)), 0.1)))])
    E("monotonicity_prox", "proximal", 0.3, [
        v("matrix", px(lambda d: PX.monotonicity_prox(d.a((4, 3))))), v("vector", px(lambda d: PX.monotonicity_prox(d.a((5,))))),
        v("decreasing", px(lambda d: PX.monotonicity_prox(d.a((4, 3)), decreasing=True)))])
    E("unimodality_prox", "proximal", 1.0, [
        v("matrix", px(lambda d: PX.unimodality_prox(d.a((4, 3))))), v("vector", px(lambda d: PX.unimodality_prox(d.a((5,)))))])
    CONSTRAINTS = [
        ("non_negative", True), ("l1_reg", 0.05), ("l2_reg", 0.05), ("l2_square_reg", 0.05), ("unimodality", True),
        ("normalize", True), ("simplex", 1.0), ("normalized_sparsity", 2), ("soft_sparsity", 1.0), ("smoothness", 0.1),
        ("monotonicity", True), ("hard_sparsity", 2),
    ]
    E("proximal_operator", "proximal", 2.0,
      [v(cn, px(lambda d, cn=cn, cv=cv: PX.proximal_operator(d.a((4, 3)), **{cn: cv}))) for cn, cv in CONSTRAINTS]
      + [v("n_const=None", px(lambda d: PX.proximal_operator(d.a((4, 3)), non_negative=True, n_const=None))),
         v("no-constraint", px(lambda d: PX.proximal_operator(d.a((4, 3)))))]
      + [v(f"{cn},order=1-of-dict", px(lambda d, cn=cn, cv=cv: PX.proximal_operator(d.a((4, 3)), **{cn: {1: cv}}, n_const=3, order=1)), "t") for cn, cv in CONSTRAINTS])

    # ================================================================== solvers
    def call_admm(d, **kw):
        UtM, UtU = d.gram(3, 5)
        x = d.pos((5, 3), 4)
        dual = d.c(np.zeros((5, 3)))
        r = ADMM.admm(d.c(UtM.T), UtU, x, dual, n_iter_max=4, **kw)
        return {"x": r[0], "x_split": r[1], "dual_var": r[2]}
    E("admm", "solvers", 5.0,
      [v(cn, lambda d, cn=cn, cv=cv: call_admm(d, n_const=1, order=0, **{cn: cv})) for cn, cv in CONSTRAINTS]
      + [v("n_const=None(least-squares)", lambda d: call_admm(d))])

    def call_hals(d, _V=False, **kw):
        UtM, UtU = d.gram(3, 5)
        if _V:
            kw["V"] = d.pos((3, 5), 4)
        return {"V": NNLS.hals_nnls(UtM, UtU, n_iter_max=5, **kw)}
    E("hals_nnls", "solvers", 2.0, [
        v("V=None", lambda d: call_hals(d)), v("V-given", lambda d: call_hals(d, _V=True)),
        v("sparsity_coefficient", lambda d: call_hals(d, _V=True, sparsity_coefficient=0.1)),
        v("ridge_coefficient", lambda d: call_hals(d, _V=True, ridge_coefficient=0.1)),
        v("nonzero_rows", lambda d: call_hals(d, _V=True, nonzero_rows=True, sparsity_coefficient=50.0)),
        v("exact", lambda d: call_hals(d, _V=True, exact=True), "x"),
        v("epsilon", lambda d: call_hals(d, _V=True, epsilon=1e-6), "t"),
    ])

    def call_fista(d, _x=False, **kw):
        UtM, UtU = d.gram(3, 5)
        if _x:
            kw["x"] = d.pos((3, 5), 4)
        return {"x": NNLS.fista(UtM, UtU, n_iter_max=5, **kw)}
    E("fista", "solvers", 2.0, [
        v("x=None", lambda d: call_fista(d)), v("x-given", lambda d: call_fista(d, _x=True)),
        v("non_negative=False", lambda d: call_fista(d, non_negative=False)),
        v("sparsity_coef", lambda d: call_fista(d, sparsity_coef=0.1)),
        v("ridge_coef", lambda d: call_fista(d, ridge_coef=0.1)),
        v("lr-given", lambda d: call_fista(d, lr=0.01)),
        v("tol-exit", lambda d: call_fista(d, tol=0.5), "t"),
    ])

    def call_as(d, _x=False, _neg=False, **kw):
        UtM, UtU = d.gram(3, 5)
        utm = UtM[:, 0]
        if _neg:
            utm = -utm
        if _x:
            kw["x"] = d.pos((3,), 4)
        return {"x": NNLS.active_set_nnls(utm, UtU, n_iter_max=10, **kw)}
    E("active_set_nnls", "solvers", 1.0, [
        v("x=None", lambda d: call_as(d)), v("x-given", lambda d: call_as(d, _x=True)),
        v("all-negative-rhs", lambda d: call_as(d, _neg=True)),
        v("mixed-rhs", lambda d: (lambda g: {"x": NNLS.active_set_nnls(g[0][:, 0] * d.c([1, -1, 1]), g[1], n_iter_max=10)})(d.gram(3, 5))),
        v("x-given,singular-gram(restart-branch)", lambda d: (lambda u: {"x": NNLS.active_set_nnls(
            d.c(u.T @ d.pos((5,), 7)), d.c(u.T @ u), x=d.pos((3,), 4), n_iter_max=10)})(
            (lambda m: np.stack([m[:, 0], m[:, 0], m[:, 1]], axis=1))(d.pos((5, 2), 1)))),
        v("x-given,mixed-rhs", lambda d: (lambda g: {"x": NNLS.active_set_nnls(g[0][:, 0] * d.c([1, -1, 1]), g[1], x=d.pos((3,), 4), n_iter_max=10)})(d.gram(3, 5))),
    ])

    # ================================================================== preprocessing
    def call_compress(d, _input="list", **kw):
        sl = d.slices(rows=(5, 6, 5), cols=3) if _input == "list" else d.a((3, 5, 3), 1)
        sc, lo = PRE.svd_compress_tensor_slices(sl, **kw)
        return {"scores": sc, "loadings": lo}
    E("svd_compress_tensor_slices", "preprocessing", 1.0, [
        v("list", lambda d: call_compress(d)), v("3d-tensor", lambda d: call_compress(d, _input="tensor")),
        v("compression_threshold", lambda d: call_compress(d, compression_threshold=0.2)),
        v("max_rank", lambda d: call_compress(d, max_rank=2)),
        v("no-compression(rows<=cols)", lambda d: (lambda r: {"scores": r[0], "loadings": r[1]})(PRE.svd_compress_tensor_slices(d.slices(rows=(2, 3, 2), cols=3)))),
    ], cx=True)

    def call_decompress(d):
        w, f, P = d.pf2(rows=(3, 3, 3))
        load = [d.c(np.linalg.qr(np.asarray(d.a((5, 3), 30 + i), dtype=np.complex128 if d.dtype.kind == "c" else np.float64))[0]) for i in range(3)]
        return {"pf2": PRE.svd_decompress_parafac2_tensor((w, f, P), load)}
    E("svd_decompress_parafac2_tensor", "preprocessing", 0.5, [
        v("default", call_decompress),
        v("None-loadings", lambda d: {"pf2": PRE.svd_decompress_parafac2_tensor(d.pf2(rows=(3, 3, 3)), [None, None, None])}, "t")], cx=True)

    # ================================================================== metrics
    for nm in ("MSE", "RMSE", "reflective_correlation_coefficient", "covariance", "variance", "standard_deviation", "correlation"):
        fn = getattr(MR, nm)
        one = nm in ("variance", "standard_deviation")
        E(f"metrics.{nm}", "metrics", 0.1, [
            v(f"axis={ax}", lambda d, fn=fn, ax=ax, one=one: {"out": fn(d.t3(1), axis=ax) if one else fn(d.t3(1), d.t3(2), axis=ax)})
            for ax in (None, 0, 1)])
    E("metrics.R2_score", "metrics", 0.1, [v("default", lambda d: {"out": MR.R2_score(d.t3(1), d.t3(2))})])
    E("congruence_coefficient", "metrics", 0.3, [
        v("absolute", lambda d: (lambda r: {"value": r[0], "perm": r[1]})(M.congruence_coefficient(d.a((4, 3), 1), d.a((4, 3), 2)))),
        v("signed", lambda d: (lambda r: {"value": r[0], "perm": r[1]})(M.congruence_coefficient(d.a((4, 3), 1), d.a((4, 3), 2), absolute_value=False)))])
    E("correlation_index", "metrics", 0.3, [
        v(f"method={m}", lambda d, m=m: {"value": M.correlation_index(d.mats(k=1), d.mats(k=5), method=m)}) for m in ("stacked", "max_score", "min_score", "avg_score")])
    E("vonneumann_entropy", "metrics", 0.3, [
        v("density-matrix", lambda d: (lambda m: {"out": M.vonneumann_entropy(m @ m.T / np.trace(m @ m.T))})(d.a((3, 3), 1))),
        v("cp", lambda d: (lambda w, f: {"out": M.cp_vonneumann_entropy((w / w.sum(), f))})(*d.cp((3, 3), 2))),
        v("tt", lambda d: (lambda m: {"out": M.tt_vonneumann_entropy([(m @ m.T / np.trace(m @ m.T)).reshape(1, 3, 3), d.c(np.eye(3)).reshape(3, 3, 1)])})(d.a((3, 3), 1)), "t"),
    ])
    E("leverage_score_dist", "metrics", 0.2, [
        v("full-rank", lambda d: {"dist@f64": M.leverage_score_dist(d.a((6, 3), 1))}),
        v("rank-deficient", lambda d: (lambda m: {"dist@f64": M.leverage_score_dist(np.concatenate([m, m[:, :1]], axis=1))})(d.a((6, 2), 1))),
    ], cx=True)

    # ================================================================== regressors
    def reg_data(d, ydim=1):
        X = d.a((6, 3, 2), 4)
        y = d.a((6,), 5) if ydim == 1 else d.a((6, 2), 5)
        return X, y

    def call_cpreg(d, **kw):
        X, y = reg_data(d)
        est = CPRegressor(weight_rank=2, n_iter_max=3, random_state=d.off, verbose=0, **kw).fit(X, y)
        return {"weight_tensor_": est.weight_tensor_, "cp_weight_": est.cp_weight_, "vec_W_": est.vec_W_, "predict": est.predict(X)}
    E("CPRegressor", "regression", 3.0, [v("default", call_cpreg), v("reg_W=10", lambda d: call_cpreg(d, reg_W=10)),
                                         v("reg_W=0.5", lambda d: call_cpreg(d, reg_W=0.5), "t")], ta=True)

    def call_tkreg(d, **kw):
        X, y = reg_data(d)
        est = TuckerRegressor(weight_ranks=[2, 2], n_iter_max=3, random_state=d.off, verbose=0, **kw).fit(X, y)
        return {"weight_tensor_": est.weight_tensor_, "tucker_weight_": est.tucker_weight_, "vec_W_": est.vec_W_, "predict": est.predict(X)}
    E("TuckerRegressor", "regression", 3.0, [v("default", call_tkreg), v("reg_W=10", lambda d: call_tkreg(d, reg_W=10)),
                                             v("reg_W=0.5", lambda d: call_tkreg(d, reg_W=0.5), "t")], ta=True)

    def call_plsr(d, ydim=2, ncomp=2):
        X, y = reg_data(d, ydim)
        est = CP_PLSR(n_components=ncomp, n_iter_max=5, random_state=d.off)
        est.fit(X, y)
        out = {"X_factors": list(est.X_factors), "Y_factors": list(est.Y_factors), "coef_": est.coef_, "X_mean_": est.X_mean_, "Y_mean_": est.Y_mean_,
               "X_r2": est.X_r2, "Y_r2": est.Y_r2, "predict": est.predict(X), "transform": est.transform(X)}
        tx = est.transform(X, y)
        out["transformXY"] = list(tx) if isinstance(tx, tuple) else tx
        return out
    E("CP_PLSR", "regression", 4.0, [v("Y-matrix", call_plsr), v("Y-vector", lambda d: call_plsr(d, ydim=1)),
                                     v("n_components=1", lambda d: call_plsr(d, ncomp=1), "t")], ta=True)

    # ================================================================== random generators (dtype requested through **context)
    E("random_tensor", "random", 0.1, [v("default", lambda d: {"out": R.random_tensor((3, 4, 2), random_state=d.off, **d.ctx)})])
    E("random_cp", "random", 0.2, [
        v("default", lambda d: {"cp": R.random_cp((3, 4, 2), 2, random_state=d.off, **d.ctx)}),
        v("full", lambda d: {"out": R.random_cp((3, 4, 2), 2, full=True, random_state=d.off, **d.ctx)}),
        v("orthogonal", lambda d: {"cp": R.random_cp((3, 4, 2), 2, orthogonal=True, random_state=d.off, **d.ctx)}),
        v("normalise_factors=False", lambda d: {"cp": R.random_cp((3, 4, 2), 2, normalise_factors=False, random_state=d.off, **d.ctx)}),
    ], ta=True)
    E("random_tucker", "random", 0.2, [
        v("default", lambda d: {"tk": R.random_tucker((3, 4, 2), [2, 2, 2], random_state=d.off, **d.ctx)}),
        v("full", lambda d: {"out": R.random_tucker((3, 4, 2), [2, 2, 2], full=True, random_state=d.off, **d.ctx)}),
        v("orthogonal", lambda d: {"tk": R.random_tucker((3, 4, 2), [2, 2, 2], orthogonal=True, random_state=d.off, **d.ctx)}),
        v("non_negative", lambda d: {"tk": R.random_tucker((3, 4, 2), [2, 2, 2], non_negative=True, random_state=d.off, **d.ctx)}),
        v("int-rank", lambda d: {"tk": R.random_tucker((3, 4, 2), 2, random_state=d.off, **d.ctx)}, "t"),
    ], ta=True)
    E("random_tt", "random", 0.2, [
        v("default", lambda d: {"tt": R.random_tt((3, 4, 2), [1, 2, 2, 1], random_state=d.off, **d.ctx)}),
        v("full", lambda d: {"out": R.random_tt((3, 4, 2), [1, 2, 2, 1], full=True, random_state=d.off, **d.ctx)})], ta=True)
    E("random_tt_matrix", "random", 0.2, [
        v("default", lambda d: {"ttm": R.random_tt_matrix((2, 3, 2, 3), [1, 2, 1], random_state=d.off, **d.ctx)}),
        v("full", lambda d: {"out": R.random_tt_matrix((2, 3, 2, 3), [1, 2, 1], full=True, random_state=d.off, **d.ctx)})], ta=True)
    E("random_tr", "random", 0.2, [
        v("default", lambda d: {"tr": R.random_tr((3, 4, 2), [2, 2, 2, 2], random_state=d.off, **d.ctx)}),
        v("full", lambda d: {"out": R.random_tr((3, 4, 2), [2, 2, 2, 2], full=True, random_state=d.off, **d.ctx)})], ta=True)
    E("random_parafac2", "random", 0.4, [
        v("default", lambda d: {"pf2": R.random_parafac2([(3, 3), (4, 3), (3, 3)], 2, random_state=d.off, **d.ctx)}),
        v("full", lambda d: {"out": R.random_parafac2([(3, 3), (4, 3), (3, 3)], 2, full=True, random_state=d.off, **d.ctx)}),
        v("normalise_factors", lambda d: {"pf2": R.random_parafac2([(3, 3), (4, 3), (3, 3)], 2, normalise_factors=True, random_state=d.off, **d.ctx)}),
    ], ta=True)
