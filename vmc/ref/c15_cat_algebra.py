"""C15 catalogue, section 2: base (un)folding, tensor algebra (both tenalg backends), proximal operators, SVD
functions, factorised-tensor conversions / transforms and the wrapper-class methods."""
import numpy as np

from vmc.ref.c15_catalogue import (Entry, Spec, L, ten, mat, mask_for, cp_dec, tucker_dec, tt_dec, tr_dec, ttm_dec,
                                   parafac2_dec, tenalg_fn)

ALL = (0, 1, 2, 3)
W = ("wrapper",)


def _both(name, fn_name, params, classes=None, sizes=ALL, label="default"):
    """A tensor-algebra spec under the core and the einsum tenalg backend."""
    return [Spec(label, tenalg_fn(fn_name), params, classes, sizes=sizes),
            Spec(label + "@einsum", tenalg_fn(fn_name), params, classes, sizes=sizes, tenalg="einsum")]


def entries():
    import tensorly as tl
    from tensorly import base as B
    from tensorly import cp_tensor as CP, tucker_tensor as TK, tt_tensor as TT, tr_tensor as TR, tt_matrix as TM, parafac2_tensor as P2
    from tensorly.tenalg import proximal as PX, svd as SV
    from tensorly.tenalg import core_tenalg as CT

    E = []

    def add(name, targets, specs, family):
        E.append(Entry(name, targets, specs, family))

    T_ = L(lambda c: ten(c))

    # ---- base ------------------------------------------------------------------------------------
    shp = L(lambda c: list(c.shape))
    add("base.unfold", [B.unfold], [Spec("mode-1", B.unfold, {"tensor": T_, "mode": 1}, sizes=ALL)], "base")
    add("base.fold", [B.fold], [Spec("shape[list]", B.fold, {"unfolded_tensor": L(lambda c: B.unfold(ten(c), 1)), "mode": 1, "shape": shp},
                                     {"shape": "list"}, sizes=ALL)], "base")
    add("base.tensor_to_vec", [B.tensor_to_vec], [Spec("default", B.tensor_to_vec, {"tensor": T_}, sizes=ALL)], "base")
    add("base.vec_to_tensor", [B.vec_to_tensor], [Spec("shape[list]", B.vec_to_tensor, {"vec": L(lambda c: ten(c).reshape(-1)), "shape": shp},
                                                       {"shape": "list"}, sizes=ALL)], "base")
    add("base.partial_unfold", [B.partial_unfold], [
        Spec("skip_begin", B.partial_unfold, {"tensor": T_, "mode": 0, "skip_begin": 1}, sizes=ALL),
        Spec("skip_end+ravel", B.partial_unfold, {"tensor": T_, "mode": 0, "skip_begin": 0, "skip_end": 1, "ravel_tensors": True}, sizes=ALL)], "base")
    add("base.partial_fold", [B.partial_fold], [Spec("shape[list]", B.partial_fold,
        {"unfolded": L(lambda c: B.partial_unfold(ten(c), 0, 1, 0)), "mode": 0, "shape": shp, "skip_begin": 1}, {"shape": "list"}, sizes=ALL)], "base")
    add("base.partial_tensor_to_vec", [B.partial_tensor_to_vec], [Spec("default", B.partial_tensor_to_vec, {"tensor": T_, "skip_begin": 1}, sizes=ALL)], "base")
    add("base.partial_vec_to_tensor", [B.partial_vec_to_tensor], [Spec("shape[list]", B.partial_vec_to_tensor,
        {"matrix": L(lambda c: B.partial_tensor_to_vec(ten(c), 1, 0)), "shape": shp, "skip_begin": 1}, {"shape": "list"}, sizes=ALL)], "base")
    add("base.matricize", [B.matricize], [
        Spec("row_modes[list]", B.matricize, {"tensor": T_, "row_modes": L(lambda c: [1, 0])}, {"row_modes": "list"}, sizes=ALL),
        Spec("row+column_modes[lists]", B.matricize, {"tensor": T_, "row_modes": L(lambda c: [c.N - 1]), "column_modes": L(lambda c: list(range(c.N - 1)))},
             {"row_modes": "list", "column_modes": "list"}, sizes=ALL),
        Spec("raise[modes]", B.matricize, {"tensor": T_, "row_modes": L(lambda c: [0]), "column_modes": L(lambda c: [0])},
             {"row_modes": "list", "column_modes": "list"}, sizes=ALL)], "base")

    # ---- tenalg (core + einsum) -------------------------------------------------------------------
    mats = L(lambda c: [mat((s, 2), c, i) for i, s in enumerate(c.shape)])
    add("tenalg.khatri_rao", [CT.khatri_rao],
        _both("kr", "khatri_rao", {"matrices": mats}, {"matrices": "list"})
        + _both("kr", "khatri_rao", {"matrices": mats, "weights": L(lambda c: np.array([2.0, 0.5])), "skip_matrix": 1}, {"matrices": "list"}, label="weights+skip")
        + _both("kr", "khatri_rao", {"matrices": mats, "mask": L(lambda c: mask_for(c, "float").reshape(-1, 1))}, {"matrices": "list+mask-option", "mask": "float"}, label="mask")
        + [Spec("mask[tensor-shaped]@einsum", tenalg_fn("khatri_rao"), {"matrices": mats, "mask": L(lambda c: mask_for(c, "float"))},
                {"matrices": "list+mask-option", "mask": "float"}, sizes=ALL, tenalg="einsum")]
        + _both("kr", "khatri_rao", {"matrices": L(lambda c: tuple(mat((s, 2), c, i) for i, s in enumerate(c.shape)))}, {"matrices": "tuple"}, label="tuple"),
        "tenalg")
    add("tenalg.kronecker", [CT.kronecker],
        _both("kron", "kronecker", {"matrices": mats}, {"matrices": "list"})
        + _both("kron", "kronecker", {"matrices": mats, "skip_matrix": 0, "reverse": True}, {"matrices": "list"}, label="skip+reverse"), "tenalg")
    add("tenalg.mode_dot", [CT.mode_dot],
        _both("md", "mode_dot", {"tensor": T_, "matrix_or_vector": L(lambda c: mat((5, c.shape[1]), c, 8)), "mode": 1}, label="matrix")
        + _both("md", "mode_dot", {"tensor": T_, "matrix_or_vector": L(lambda c: mat((c.shape[0],), c, 8)), "mode": 0}, label="vector")
        + _both("md", "mode_dot", {"tensor": T_, "matrix_or_vector": L(lambda c: mat((c.shape[1], 5), c, 8)), "mode": 1, "transpose": True}, label="transpose")
        + _both("md", "mode_dot", {"tensor": T_, "matrix_or_vector": L(lambda c: mat((5, 9), c, 8)), "mode": 1}, label="raise[shape]"), "tenalg")
    mlist = L(lambda c: [mat((2, s), c, i) for i, s in enumerate(c.shape)])
    add("tenalg.multi_mode_dot", [CT.multi_mode_dot],
        _both("mmd", "multi_mode_dot", {"tensor": T_, "matrix_or_vec_list": mlist}, {"matrix_or_vec_list": "list"})
        + _both("mmd", "multi_mode_dot", {"tensor": T_, "matrix_or_vec_list": L(lambda c: [mat((2, c.shape[1]), c, 1), mat((2, c.shape[0]), c, 2)]),
                                          "modes": L(lambda c: [1, 0])}, {"matrix_or_vec_list": "list", "modes": "list-unsorted"}, label="modes[unsorted]")
        + _both("mmd", "multi_mode_dot", {"tensor": T_, "matrix_or_vec_list": mlist, "skip": 1}, {"matrix_or_vec_list": "list"}, label="skip")
        + _both("mmd", "multi_mode_dot", {"tensor": T_, "matrix_or_vec_list": L(lambda c: [mat((s,), c, i) for i, s in enumerate(c.shape)])},
                {"matrix_or_vec_list": "list-of-vectors"}, label="vectors")
        + _both("mmd", "multi_mode_dot", {"tensor": T_, "matrix_or_vec_list": L(lambda c: [mat((s, 2), c, i) for i, s in enumerate(c.shape)]), "transpose": True},
                {"matrix_or_vec_list": "list"}, label="transpose"), "tenalg")
    add("tenalg.inner", [CT.inner],
        _both("in", "inner", {"tensor1": T_, "tensor2": L(lambda c: ten(c, k=1))})
        + _both("in", "inner", {"tensor1": T_, "tensor2": L(lambda c: ten(c, k=1, shape=c.shape[-1:] + (3,))), "n_modes": 1}, label="n_modes"), "tenalg")
    vecs = L(lambda c: [mat((s,), c, i) for i, s in enumerate(c.shape)])
    add("tenalg.outer", [CT.outer], _both("out", "outer", {"tensors": vecs}, {"tensors": "list"}), "tenalg")
    add("tenalg.batched_outer", [CT.batched_outer],
        _both("bo", "batched_outer", {"tensors": L(lambda c: [mat((2, s), c, i) for i, s in enumerate(c.shape)])}, {"tensors": "list"}), "tenalg")
    add("tenalg.tensordot", [CT.tensordot],
        _both("td", "tensordot", {"tensor1": T_, "tensor2": L(lambda c: ten(c, k=1)), "modes": L(lambda c: [c.N - 1])}, {"modes": "list"}, label="modes[list]")
        + _both("td", "tensordot", {"tensor1": T_, "tensor2": L(lambda c: ten(c, k=1)), "modes": L(lambda c: [[-1], [-1]])}, {"modes": "nested-list-negative"}, label="modes[negative]")
        + _both("td", "tensordot", {"tensor1": T_, "tensor2": L(lambda c: ten(c, k=1)), "modes": L(lambda c: [1]), "batched_modes": L(lambda c: [0])},
                {"modes": "list", "batched_modes": "list"}, label="batched")
        + _both("td", "tensordot", {"tensor1": T_, "tensor2": L(lambda c: ten(c, k=1)), "modes": L(lambda c: [[-1], [-1]]), "batched_modes": L(lambda c: [[-2], [-2]])},
                {"modes": "nested-list-negative", "batched_modes": "nested-list-negative"}, label="batched[negative]"), "tenalg")
    add("tenalg.unfolding_dot_khatri_rao", [CT.unfolding_dot_khatri_rao],
        _both("mttkrp", "unfolding_dot_khatri_rao", {"tensor": T_, "cp_tensor": L(lambda c: cp_dec(c, 2, "nonunit")), "mode": 1}, {"cp_tensor": "cp-nonunit-weights"})
        + _both("mttkrp", "unfolding_dot_khatri_rao", {"tensor": T_, "cp_tensor": L(lambda c: cp_dec(c, 2, "none", only=("tuple", "list"))), "mode": 0},
                {"cp_tensor": "cp-unit-weights"}, label="weights-none"), "tenalg")
    add("tenalg.higher_order_moment", [CT.higher_order_moment],
        _both("hom", "higher_order_moment", {"tensor": L(lambda c: ten(c, shape=(5, 3))), "order": 3}, sizes=(0,)), "tenalg")
    add("tenalg.tt_matrix_to_tensor", [TM.tt_matrix_to_tensor],
        [Spec("default", TM.tt_matrix_to_tensor, {"tt_matrix": L(lambda c: ttm_dec(c))}, {"tt_matrix": "ttm"}),
         Spec("default@einsum", TM.tt_matrix_to_tensor, {"tt_matrix": L(lambda c: ttm_dec(c))}, {"tt_matrix": "ttm"}, tenalg="einsum")], "tenalg")

    # ---- proximal -----------------------------------------------------------------------------------
    M_ = L(lambda c: mat((4, 3), c, 2))
    Mp = L(lambda c: mat((4, 3), c, 2, signed=False))
    px = [
        ("soft_thresholding", PX.soft_thresholding, [("scalar", {"tensor": T_, "threshold": 0.1}, ALL),
                                                      ("array-threshold", {"tensor": T_, "threshold": L(lambda c: 0.2 * ten(c, False, 4))}, ALL)]),
        ("hard_thresholding", PX.hard_thresholding, [("default", {"tensor": M_, "number_of_non_zero": 2}, (0,))]),
        ("svd_thresholding", PX.svd_thresholding, [("default", {"matrix": M_, "threshold": 0.1}, (0,))]),
        ("procrustes", PX.procrustes, [("default", {"matrix": M_}, (0,))]),
        ("l2_prox", PX.l2_prox, [("default", {"tensor": M_, "regularizer": 0.1}, (0,))]),
        ("l2_square_prox", PX.l2_square_prox, [("default", {"tensor": M_, "regularizer": 0.1}, (0,))]),
        ("simplex_prox", PX.simplex_prox, [("default", {"tensor": M_, "parameter": 1.0}, (0,))]),
        ("normalized_sparsity_prox", PX.normalized_sparsity_prox, [("default", {"tensor": M_, "threshold": 2}, (0,))]),
        ("soft_sparsity_prox", PX.soft_sparsity_prox, [("default", {"tensor": M_, "threshold": 0.5}, (0,))]),
        ("smoothness_prox", PX.smoothness_prox, [("default", {"tensor": M_, "regularizer": 0.5}, (0,))]),
        ("monotonicity_prox", PX.monotonicity_prox, [("increasing", {"tensor": M_}, (0,)), ("decreasing", {"tensor": M_, "decreasing": True}, (0,)),
                                                      ("1d", {"tensor": L(lambda c: mat((5,), c, 2))}, (0,))]),
        ("unimodality_prox", PX.unimodality_prox, [("default", {"tensor": Mp}, (0,)), ("1d", {"tensor": L(lambda c: mat((5,), c, 2, False))}, (0,))]),
    ]
    for nm, f, rows in px:
        add(f"tenalg.proximal.{nm}", [f], [Spec(lab, f, p, sizes=sz) for lab, p, sz in rows], "proximal")
    cons = [("non_negative", True), ("l1_reg", 0.1), ("l2_reg", 0.1), ("l2_square_reg", 0.1), ("unimodality", True), ("normalize", True),
            ("simplex", 1.0), ("normalized_sparsity", 2), ("soft_sparsity", 0.5), ("smoothness", 0.5), ("monotonicity", True), ("hard_sparsity", 2)]
    add("tenalg.proximal.proximal_operator", [PX.proximal_operator],
        [Spec(k, PX.proximal_operator, {"tensor": Mp, k: v}) for k, v in cons]
        + [Spec("l1_reg[list]", PX.proximal_operator, {"tensor": Mp, "l1_reg": [0.1, 0.2, 0.3], "n_const": 3, "order": 1}, {"l1_reg": "list"}),
           Spec("l2_reg[dict]", PX.proximal_operator, {"tensor": Mp, "l2_reg": {1: 0.2}, "n_const": 3, "order": 1}, {"l2_reg": "dict"}),
           Spec("raise[two-constraints]", PX.proximal_operator, {"tensor": Mp, "l1_reg": [0.1, 0.2, 0.3], "non_negative": {1: True}, "n_const": 3, "order": 1},
                {"l1_reg": "list", "non_negative": "dict"})], "proximal")
    add("tenalg.proximal.validate_constraints", [PX.validate_constraints],
        [Spec("dicts", PX.validate_constraints, {"non_negative": {0: True}, "l1_reg": {1: 0.1, 2: 0.2}, "n_const": 3, "order": 1},
              {"non_negative": "dict", "l1_reg": "dict"}),
         Spec("list", PX.validate_constraints, {"l2_reg": [0.1, 0.2, 0.3], "n_const": 3, "order": 2}, {"l2_reg": "list"}),
         Spec("raise[two-constraints]", PX.validate_constraints, {"l2_reg": [0.1, 0.2, 0.3], "simplex": {0: 1.0}, "n_const": 3}, {"l2_reg": "list", "simplex": "dict"})],
        "proximal")

    # ---- SVD ------------------------------------------------------------------------------------------
    A65 = L(lambda c: mat((6, 5), c, 6))
    A47 = L(lambda c: mat((4, 7), c, 7))
    A65p = L(lambda c: mat((6, 5), c, 6, signed=False))
    svi = [("truncated", {"matrix": A65, "n_eigenvecs": 3}), ("symeig", {"matrix": A65, "method": "symeig_svd", "n_eigenvecs": 3}),
           ("symeig-wide", {"matrix": A47, "method": "symeig_svd", "n_eigenvecs": 2}),
           ("randomized", {"matrix": A65, "method": "randomized_svd", "n_eigenvecs": 2, "random_state": 0}),
           ("non_negative[True]", {"matrix": A65p, "n_eigenvecs": 2, "non_negative": True}),
           ("non_negative[nndsvda]", {"matrix": A65, "n_eigenvecs": 2, "non_negative": "nndsvda"}),
           ("mask", {"matrix": A65, "n_eigenvecs": 2, "mask": L(lambda c: mask_for(c, "bool", shape=(6, 5))), "n_iter_mask_imputation": 2}),
           ("mask[float]", {"matrix": A65, "n_eigenvecs": 2, "mask": L(lambda c: mask_for(c, "float", shape=(6, 5)))}),
           ("no-flip", {"matrix": A47, "n_eigenvecs": 2, "flip_sign": False}), ("v-based-flip", {"matrix": A47, "n_eigenvecs": 2, "u_based_flip_sign": False}),
           ("n_eigenvecs[None]", {"matrix": A65}), ("raise[method]", {"matrix": A65, "method": "bogus"})]
    add("tenalg.svd.svd_interface", [SV.svd_interface],
        [Spec(lab, SV.svd_interface, p, {"mask": "bool" if "mask" in p and lab == "mask" else "float"} if "mask" in p else None) for lab, p in svi], "svd")
    add("tenalg.svd.truncated_svd", [SV.truncated_svd], [Spec("tall", SV.truncated_svd, {"matrix": A65, "n_eigenvecs": 2}),
                                                         Spec("wide-full", SV.truncated_svd, {"matrix": A47})], "svd")
    add("tenalg.svd.symeig_svd", [SV.symeig_svd], [Spec("tall", SV.symeig_svd, {"matrix": A65, "n_eigenvecs": 2}),
                                                   Spec("wide", SV.symeig_svd, {"matrix": A47, "n_eigenvecs": 3})], "svd")
    add("tenalg.svd.randomized_svd", [SV.randomized_svd], [Spec("tall", SV.randomized_svd, {"matrix": A65, "n_eigenvecs": 2, "n_oversamples": 1, "random_state": 0}),
                                                           Spec("wide", SV.randomized_svd, {"matrix": A47, "n_eigenvecs": 2, "n_oversamples": 1, "random_state": 0})], "svd")
    add("tenalg.svd.randomized_range_finder", [SV.randomized_range_finder],
        [Spec("default", SV.randomized_range_finder, {"A": A65, "n_dims": 3, "n_iter": 1, "random_state": 0})], "svd")
    usv = lambda i: L(lambda c: np.ascontiguousarray(np.linalg.svd(mat((6, 5), c, 6), full_matrices=False)[i]))
    add("tenalg.svd.svd_flip", [SV.svd_flip], [Spec("u-based", SV.svd_flip, {"U": usv(0), "V": usv(2)}),
                                               Spec("v-based", SV.svd_flip, {"U": usv(0), "V": usv(2), "u_based_decision": False})], "svd")
    add("tenalg.svd.make_svd_non_negative", [SV.make_svd_non_negative],
        [Spec(f"nntype[{nt}]", SV.make_svd_non_negative, {"tensor": A65, "U": usv(0), "S": usv(1), "V": usv(2), "nntype": nt}) for nt in ("nndsvd", "nndsvda")], "svd")
    add("tenalg.svd.svd_checks", [SV.svd_checks], [Spec("default", SV.svd_checks, {"matrix": A65, "n_eigenvecs": 9})], "svd")

    # ---- CP tensor functions ----------------------------------------------------------------------------
    def cpd(w="nonunit", **kw):
        return L(lambda c: cp_dec(c, 2, w, **kw))

    WC = {"none": "cp-unit-weights", "ones": "cp-unit-weights", "nonunit": "cp-nonunit-weights"}

    def cp_fn_specs(f, extra=None, ws=("nonunit", "none"), sizes=ALL, pname="cp_tensor"):
        out = []
        for w in ws:
            only = ("tuple", "list") if w == "none" else None  # a wrapper never has weights None
            p = {pname: cpd(w, only=only)}
            p.update(extra or {})
            out.append(Spec(f"weights[{w}]", f, p, {pname: WC[w]}, sizes=sizes))
        return out

    add("cp_tensor.cp_to_tensor", [CP.cp_to_tensor], cp_fn_specs(CP.cp_to_tensor)
        + [Spec("mask", CP.cp_to_tensor, {"cp_tensor": cpd(), "mask": L(lambda c: mask_for(c, "float"))}, {"cp_tensor": WC["nonunit"], "mask": "float"}, sizes=ALL)], "cp_tensor")
    add("cp_tensor.cp_to_unfolded", [CP.cp_to_unfolded], cp_fn_specs(CP.cp_to_unfolded, {"mode": 1}), "cp_tensor")
    add("cp_tensor.cp_to_vec", [CP.cp_to_vec], cp_fn_specs(CP.cp_to_vec), "cp_tensor")
    add("cp_tensor.cp_norm", [CP.cp_norm], cp_fn_specs(CP.cp_norm), "cp_tensor")
    add("cp_tensor.cp_normalize", [CP.cp_normalize], cp_fn_specs(CP.cp_normalize, ws=("nonunit", "none", "ones")), "cp_tensor")
    add("cp_tensor.cp_flip_sign", [CP.cp_flip_sign], cp_fn_specs(CP.cp_flip_sign, ws=("nonunit", "ones"))
        + cp_fn_specs(CP.cp_flip_sign, {"mode": 1}, ws=("ones",))[:1], "cp_tensor")
    E[-1].specs[-1].label = "mode-1"
    add("cp_tensor.cp_lstsq_grad", [CP.cp_lstsq_grad], cp_fn_specs(CP.cp_lstsq_grad, {"tensor": T_, "return_loss": True})
        + [Spec("mask", CP.cp_lstsq_grad, {"cp_tensor": cpd(), "tensor": T_, "mask": L(lambda c: mask_for(c, "float"))}, {"cp_tensor": WC["nonunit"], "mask": "float"}, sizes=ALL)],
        "cp_tensor")
    mv = {"matrix": L(lambda c: mat((5, c.shape[1]), c, 8)), "vector": L(lambda c: mat((c.shape[1],), c, 8))}
    md = []
    for copy in (True, False):
        for arg in ("matrix", "vector"):
            for keep in ((False, True) if arg == "vector" else (False,)):
                md.append(Spec(f"copy[{copy}]+{arg}" + ("+keep_dim" if keep else ""), CP.cp_mode_dot,
                               {"cp_tensor": cpd("nonunit", only=W), "matrix_or_vector": mv[arg], "mode": 1, "keep_dim": keep, "copy": copy},
                               {"cp_tensor": WC["nonunit"]}, exempt=() if copy else ("cp_tensor",), sizes=ALL))
    # every position of the contracted / multiplied mode (first, last): which factor is written depends on it
    for mlabel, mfn in (("mode0", lambda c: 0), ("mode-last", lambda c: c.N - 1)):
        for copy in (True, False):
            for arg in ("matrix", "vector"):
                for keep in ((False, True) if arg == "vector" else (False,)):
                    opnd = (L(lambda c, mfn=mfn: mat((5, c.shape[mfn(c)]), c, 8)) if arg == "matrix" else L(lambda c, mfn=mfn: mat((c.shape[mfn(c)],), c, 8)))
                    md.append(Spec(f"{mlabel}+copy[{copy}]+{arg}" + ("+keep_dim" if keep else ""), CP.cp_mode_dot,
                                   {"cp_tensor": cpd("nonunit", only=W), "matrix_or_vector": opnd, "mode": L(mfn), "keep_dim": keep, "copy": copy},
                                   {"cp_tensor": WC["nonunit"]}, exempt=() if copy else ("cp_tensor",), sizes=ALL))
    md.append(Spec("copy[True]+tuple-input", CP.cp_mode_dot, {"cp_tensor": cpd("nonunit", only=("tuple", "list")), "matrix_or_vector": mv["matrix"], "mode": 1, "copy": True},
                   {"cp_tensor": WC["nonunit"]}, sizes=ALL))
    md.append(Spec("raise[shape]+copy[True]", CP.cp_mode_dot, {"cp_tensor": cpd("nonunit"), "matrix_or_vector": L(lambda c: mat((5, 9), c, 8)), "mode": 1, "copy": True},
                   {"cp_tensor": WC["nonunit"]}, sizes=ALL))
    add("cp_tensor.cp_mode_dot", [CP.cp_mode_dot], md, "cp_tensor")
    add("cp_tensor.cp_permute_factors", [CP.cp_permute_factors],
        [Spec("single", CP.cp_permute_factors, {"ref_cp_tensor": cpd("nonunit", only=W), "tensors_to_permute": cpd("nonunit", only=W, k=5)},
              {"ref_cp_tensor": WC["nonunit"], "tensors_to_permute": "cp-wrapper"}, sizes=ALL),
         Spec("list", CP.cp_permute_factors, {"ref_cp_tensor": cpd("nonunit", only=W), "tensors_to_permute": L(lambda c: [cp_dec(c, 2, "nonunit", only=W, k=5), cp_dec(c, 2, "ones", only=W, k=7)])},
              {"ref_cp_tensor": WC["nonunit"], "tensors_to_permute": "list-of-cp-wrappers"}, sizes=ALL)], "cp_tensor")
    add("cp_tensor.validate_cp_rank", [CP.validate_cp_rank], [Spec("shape[list]", CP.validate_cp_rank, {"tensor_shape": L(lambda c: list(c.shape)), "rank": 0.5}, {"tensor_shape": "list"}, sizes=ALL)], "cp_tensor")
    slf = cpd("nonunit", only=W)
    cpm = [("to_tensor", lambda self: self.to_tensor(), {}, ()), ("to_vec", lambda self: self.to_vec(), {}, ()),
           ("to_unfolded", lambda self, mode: self.to_unfolded(mode), {"mode": 1}, ()), ("norm", lambda self: self.norm(), {}, ()),
           ("cp_copy", lambda self: self.cp_copy(), {}, ()), ("normalize", lambda self: self.normalize(), {}, ("self",))]
    for nm, f, extra, ex in cpm:
        add(f"CPTensor.{nm}", [getattr(CP.CPTensor, nm)], [Spec("default", f, dict({"self": slf}, **extra), {"self": WC["nonunit"]}, exempt=ex, sizes=ALL)], "cp_tensor")
    add("CPTensor.mode_dot", [CP.CPTensor.mode_dot],
        [Spec("default(copy=True)+matrix", lambda self, m, mode: self.mode_dot(m, mode), {"self": slf, "m": mv["matrix"], "mode": 1}, {"self": WC["nonunit"]}, sizes=ALL),
         Spec("default(copy=True)+vector", lambda self, m, mode: self.mode_dot(m, mode), {"self": slf, "m": mv["vector"], "mode": 1}, {"self": WC["nonunit"]}, sizes=ALL),
         Spec("copy[False]+vector", lambda self, m, mode: self.mode_dot(m, mode, copy=False), {"self": slf, "m": mv["vector"], "mode": 1}, {"self": WC["nonunit"]}, exempt=("self",), sizes=ALL)],
        "cp_tensor")
    add("CPTensor.__init__", [CP.CPTensor], [Spec("from-tuple", CP.CPTensor, {"cp_tensor": cpd("none", only=("tuple", "list"))}, {"cp_tensor": WC["none"]}, sizes=ALL),
                                             Spec("raise[ranks]", CP.CPTensor, {"cp_tensor": L(lambda c: (None, [mat((3, 2), c), mat((4, 3), c)]))}, sizes=(0,))], "cp_tensor")

    # ---- Tucker tensor ----------------------------------------------------------------------------------
    tkd = lambda **kw: L(lambda c: tucker_dec(c, **kw))
    TKc = {"tucker_tensor": "tucker"}
    add("tucker_tensor.tucker_to_tensor", [TK.tucker_to_tensor],
        [Spec("default", TK.tucker_to_tensor, {"tucker_tensor": tkd()}, TKc, sizes=ALL),
         Spec("skip_factor", TK.tucker_to_tensor, {"tucker_tensor": tkd(), "skip_factor": 1}, TKc, sizes=ALL),
         Spec("transpose_factors", TK.tucker_to_tensor, {"tucker_tensor": L(lambda c: (ten(c), [mat((s, 2), c, i) for i, s in enumerate(c.shape)])), "transpose_factors": True}, TKc, sizes=ALL)],
        "tucker_tensor")
    add("tucker_tensor.tucker_to_unfolded", [TK.tucker_to_unfolded], [Spec("mode-1", TK.tucker_to_unfolded, {"tucker_tensor": tkd(), "mode": 1}, TKc, sizes=ALL)], "tucker_tensor")
    add("tucker_tensor.tucker_to_vec", [TK.tucker_to_vec], [Spec("default", TK.tucker_to_vec, {"tucker_tensor": tkd()}, TKc, sizes=ALL)], "tucker_tensor")
    add("tucker_tensor.tucker_normalize", [TK.tucker_normalize], [Spec("default", TK.tucker_normalize, {"tucker_tensor": tkd()}, TKc, sizes=ALL)], "tucker_tensor")
    tmd = []
    for copy in (True, False):
        for arg in ("matrix", "vector"):
            tmd.append(Spec(f"copy[{copy}]+{arg}", TK.tucker_mode_dot, {"tucker_tensor": tkd(), "matrix_or_vector": mv[arg], "mode": 1, "copy": copy}, TKc,
                            exempt=() if copy else ("tucker_tensor",), sizes=ALL if arg == "matrix" else (0, 1, 3)))
    for mlabel, mfn in (("mode0", lambda c: 0), ("mode-last", lambda c: c.N - 1)):
        for copy in (True, False):
            for arg in ("matrix", "vector"):
                opnd = (L(lambda c, mfn=mfn: mat((5, c.shape[mfn(c)]), c, 8)) if arg == "matrix" else L(lambda c, mfn=mfn: mat((c.shape[mfn(c)],), c, 8)))
                tmd.append(Spec(f"{mlabel}+copy[{copy}]+{arg}", TK.tucker_mode_dot, {"tucker_tensor": tkd(), "matrix_or_vector": opnd, "mode": L(mfn), "copy": copy}, TKc,
                                exempt=() if copy else ("tucker_tensor",), sizes=ALL if arg == "matrix" else (0, 1, 3)))
    add("tucker_tensor.tucker_mode_dot", [TK.tucker_mode_dot], tmd, "tucker_tensor")
    add("tucker_tensor.validate_tucker_rank", [TK.validate_tucker_rank],
        [Spec("float+fixed_modes", TK.validate_tucker_rank, {"tensor_shape": L(lambda c: list(c.shape)), "rank": 0.5, "fixed_modes": L(lambda c: [1, 0])},
              {"tensor_shape": "list", "fixed_modes": "list-unsorted"}, sizes=(0, 1, 3)),
         Spec("int+fixed_modes", TK.validate_tucker_rank, {"tensor_shape": L(lambda c: list(c.shape)), "rank": 2, "fixed_modes": L(lambda c: [0])},
              {"tensor_shape": "list", "fixed_modes": "list"}, sizes=ALL),
         Spec("rank[list]", TK.validate_tucker_rank, {"tensor_shape": L(lambda c: list(c.shape)), "rank": L(lambda c: [2] * c.N)}, {"tensor_shape": "list", "rank": "list"}, sizes=ALL)],
        "tucker_tensor")
    tks = tkd(only=W)
    tkm = [("to_tensor", lambda self: self.to_tensor(), {}, ()), ("to_vec", lambda self: self.to_vec(), {}, ()),
           ("to_unfolded", lambda self, mode: self.to_unfolded(mode), {"mode": 1}, ()), ("tucker_copy", lambda self: self.tucker_copy(), {}, ()),
           ("normalize", lambda self: self.normalize(), {}, ("self",))]
    for nm, f, extra, ex in tkm:
        add(f"TuckerTensor.{nm}", [getattr(TK.TuckerTensor, nm)], [Spec("default", f, dict({"self": tks}, **extra), {"self": "tucker"}, exempt=ex, sizes=ALL)], "tucker_tensor")
    add("TuckerTensor.mode_dot", [TK.TuckerTensor.mode_dot],
        [Spec("default(copy=False)", lambda self, m, mode: self.mode_dot(m, mode), {"self": tks, "m": mv["matrix"], "mode": 1}, {"self": "tucker"}, exempt=("self",), sizes=ALL),
         Spec("copy[True]+matrix", lambda self, m, mode: self.mode_dot(m, mode, copy=True), {"self": tks, "m": mv["matrix"], "mode": 1}, {"self": "tucker"}, sizes=ALL),
         Spec("copy[True]+vector", lambda self, m, mode: self.mode_dot(m, mode, copy=True), {"self": tks, "m": mv["vector"], "mode": 1}, {"self": "tucker"}, sizes=(0, 1, 3))], "tucker_tensor")

    # ---- TT / TR / TT-matrix / PARAFAC2 tensors -------------------------------------------------------------
    ttd = lambda **kw: L(lambda c: tt_dec(c, **kw))
    trd = lambda **kw: L(lambda c: tr_dec(c, **kw))
    for nm, f, extra in (("tt_to_tensor", TT.tt_to_tensor, {}), ("tt_to_unfolded", TT.tt_to_unfolded, {"mode": 1}), ("tt_to_vec", TT.tt_to_vec, {})):
        add(f"tt_tensor.{nm}", [f], [Spec("default", f, dict({"factors": ttd()}, **extra), {"factors": "tt"}, sizes=ALL)], "tt_tensor")
    add("tt_tensor.pad_tt_rank", [TT.pad_tt_rank], [Spec("default", TT.pad_tt_rank, {"factor_list": ttd(), "n_padding": 1}, {"factor_list": "tt"}, sizes=ALL),
                                                    Spec("pad_boundaries", TT.pad_tt_rank, {"factor_list": trd(), "n_padding": 2, "pad_boundaries": True}, {"factor_list": "tr"}, sizes=ALL)], "tt_tensor")
    add("tt_tensor.validate_tt_rank", [TT.validate_tt_rank],
        [Spec("float", TT.validate_tt_rank, {"tensor_shape": L(lambda c: list(c.shape)), "rank": 0.5}, {"tensor_shape": "list"}, sizes=ALL),
         Spec("rank[list]", TT.validate_tt_rank, {"tensor_shape": L(lambda c: list(c.shape)), "rank": L(lambda c: [1] + [9] * (c.N - 1) + [1]), "allow_overparametrization": False},
              {"tensor_shape": "list", "rank": "list"}, sizes=ALL)], "tt_tensor")
    tts = ttd(only=W)
    for nm, f, extra in (("to_tensor", lambda self: self.to_tensor(), {}), ("to_vec", lambda self: self.to_vec(), {}),
                         ("to_unfolding", lambda self, mode: self.to_unfolding(mode), {"mode": 1})):
        add(f"TTTensor.{nm}", [getattr(TT.TTTensor, nm)], [Spec("default", f, dict({"self": tts}, **extra), {"self": "tt"}, sizes=ALL)], "tt_tensor")
    for nm, f, extra in (("tr_to_tensor", TR.tr_to_tensor, {}), ("tr_to_unfolded", TR.tr_to_unfolded, {"mode": 1}), ("tr_to_vec", TR.tr_to_vec, {})):
        add(f"tr_tensor.{nm}", [f], [Spec("default", f, dict({"factors": trd()}, **extra), {"factors": "tr"}, sizes=ALL)], "tr_tensor")
    add("tr_tensor.validate_tr_rank", [TR.validate_tr_rank],
        [Spec("rank[list]", TR.validate_tr_rank, {"tensor_shape": L(lambda c: list(c.shape)), "rank": L(lambda c: [2] * (c.N + 1))}, {"tensor_shape": "list", "rank": "list"}, sizes=ALL),
         Spec("float", TR.validate_tr_rank, {"tensor_shape": L(lambda c: list(c.shape)), "rank": 0.5}, {"tensor_shape": "list"}, sizes=ALL)], "tr_tensor")
    trs = trd(only=W)
    for nm, f, extra in (("to_tensor", lambda self: self.to_tensor(), {}), ("to_vec", lambda self: self.to_vec(), {}),
                         ("to_unfolding", lambda self, mode: self.to_unfolding(mode), {"mode": 1})):
        add(f"TRTensor.{nm}", [getattr(TR.TRTensor, nm)], [Spec("default", f, dict({"self": trs}, **extra), {"self": "tr"}, sizes=ALL)], "tr_tensor")
    tmd_ = lambda **kw: L(lambda c: ttm_dec(c, **kw))
    for nm, f, extra in (("tt_matrix_to_matrix", TM.tt_matrix_to_matrix, {}), ("tt_matrix_to_unfolded", TM.tt_matrix_to_unfolded, {"mode": 1}),
                         ("tt_matrix_to_vec", TM.tt_matrix_to_vec, {})):
        add(f"tt_matrix.{nm}", [f], [Spec("default", f, dict({"tt_matrix": tmd_()}, **extra), {"tt_matrix": "ttm"})], "tt_matrix")
    add("tt_matrix.validate_tt_matrix_rank", [TM.validate_tt_matrix_rank],
        [Spec("rank[list]", TM.validate_tt_matrix_rank, {"tensorized_shape": L(lambda c: [2, 3, 2, 2]), "rank": L(lambda c: [1, 2, 1])}, {"tensorized_shape": "list", "rank": "list"}),
         Spec("float", TM.validate_tt_matrix_rank, {"tensorized_shape": L(lambda c: [2, 3, 2, 2]), "rank": 0.5}, {"tensorized_shape": "list"})], "tt_matrix")
    tms = tmd_(only=W)
    for nm, f, extra in (("to_tensor", lambda self: self.to_tensor(), {}), ("to_matrix", lambda self: self.to_matrix(), {}), ("to_vec", lambda self: self.to_vec(), {}),
                         ("to_unfolding", lambda self, mode: self.to_unfolding(mode), {"mode": 1})):
        add(f"TTMatrix.{nm}", [getattr(TM.TTMatrix, nm)], [Spec("default", f, dict({"self": tms}, **extra), {"self": "ttm"})], "tt_matrix")
    p2 = lambda w="nonunit", **kw: L(lambda c: parafac2_dec(c, w=w, **kw))
    P2c = {"parafac2_tensor": "parafac2-nonunit-weights"}
    for nm, f, extra in (("parafac2_to_tensor", P2.parafac2_to_tensor, {}), ("parafac2_to_slices", P2.parafac2_to_slices, {}),
                         ("parafac2_to_slice", P2.parafac2_to_slice, {"slice_idx": 1}), ("parafac2_to_unfolded", P2.parafac2_to_unfolded, {"mode": 1}),
                         ("parafac2_to_vec", P2.parafac2_to_vec, {}), ("apply_parafac2_projections", P2.apply_parafac2_projections, {}),
                         ("parafac2_normalise", P2.parafac2_normalise, {})):
        add(f"parafac2_tensor.{nm}", [f], [Spec("weights[nonunit]", f, dict({"parafac2_tensor": p2()}, **extra), P2c),
                                            Spec("weights[none]", f, dict({"parafac2_tensor": p2("none", only=("tuple", "list"))}, **extra), {"parafac2_tensor": "parafac2-unit-weights"})],
            "parafac2_tensor")
    p2s = p2(only=W)
    for nm, f, extra in (("to_tensor", lambda self: self.to_tensor(), {}), ("to_vec", lambda self: self.to_vec(), {}),
                         ("to_unfolded", lambda self, mode: self.to_unfolded(mode), {"mode": 1})):
        add(f"Parafac2Tensor.{nm}", [getattr(P2.Parafac2Tensor, nm)], [Spec("default", f, dict({"self": p2s}, **extra), {"self": "parafac2-nonunit-weights"})], "parafac2_tensor")
    add("Parafac2Tensor.from_CPTensor", [P2.Parafac2Tensor.from_CPTensor],
        [Spec("cp", lambda cp_tensor: P2.Parafac2Tensor.from_CPTensor(cp_tensor), {"cp_tensor": L(lambda c: cp_dec(c, 2, "nonunit", shape=(3, 4, 3)))}, {"cp_tensor": "cp-nonunit-weights"}),
         Spec("parafac2-ok", lambda cp_tensor: P2.Parafac2Tensor.from_CPTensor(cp_tensor, parafac2_tensor_ok=True), {"cp_tensor": p2()}, {"cp_tensor": "parafac2-nonunit-weights"})],
        "parafac2_tensor")
    return E
