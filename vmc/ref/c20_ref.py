"""Reference semantics for C20 (factor-similarity and error metrics).  Boring on purpose:
python floats, explicit loops, math.fsum / math.sqrt.  Only the all-matchings maximum uses
numpy fancy indexing (cross-checked against an itertools loop in `selftest`)."""
import itertools
import math

import numpy as np


# ------------------------------------------------------------------ cosines
def cos_matrix(a, b):
    """c[i][j] = <a[:, i], b[:, j]> / (|a[:, i]| |b[:, j]|); a, b nested lists / 2-D arrays of reals (same rows)."""
    a = [[float(x) for x in row] for row in np.asarray(a).tolist()]
    b = [[float(x) for x in row] for row in np.asarray(b).tolist()]
    n = len(a)
    ra, rb = len(a[0]), len(b[0])
    na = [math.sqrt(math.fsum(a[k][i] * a[k][i] for k in range(n))) for i in range(ra)]
    nb = [math.sqrt(math.fsum(b[k][j] * b[k][j] for k in range(n))) for j in range(rb)]
    return [[math.fsum(a[k][i] * b[k][j] for k in range(n)) / (na[i] * nb[j]) for j in range(rb)] for i in range(ra)]


def product_matrix(cos_list, absolute):
    """Entry-wise product over modes of the per-mode cosine matrices (absolute values first if requested)."""
    r1, r2 = len(cos_list[0]), len(cos_list[0][0])
    out = [[1.0] * r2 for _ in range(r1)]
    for c in cos_list:
        for i in range(r1):
            for j in range(r2):
                out[i][j] *= abs(c[i][j]) if absolute else c[i][j]
    return out


# ------------------------------------------------------------------ all matchings
_PERMS = {}


def perms_array(r):
    if r not in _PERMS:
        _PERMS[r] = np.array(list(itertools.permutations(range(r))), dtype=np.int64).reshape(-1, r)
    return _PERMS[r]


def all_matchings(c):
    """c: R x R nested list.  Returns (best mean, list of all matchings p (p[i] = column matched to row i) whose
    mean is within 1e-12 of the best, means array)."""
    c = np.asarray(c, dtype=np.float64)
    r = c.shape[0]
    p = perms_array(r)
    means = c[np.arange(r)[None, :], p].sum(axis=1) / r
    best = float(means.max())
    return best, means


def matching_mean(c, perm):
    r = len(c)
    return math.fsum(c[i][perm[i]] for i in range(r)) / r


def count_optimal(means, best, tol=1e-9):
    return int((means >= best - tol).sum())


def greedy_mean(c):
    """Row-by-row greedy matching (used only to classify cases: is the optimum different from greedy?)."""
    r = len(c)
    used, tot = set(), 0.0
    for i in range(r):
        j = max((j for j in range(r) if j not in used), key=lambda j: c[i][j])
        used.add(j)
        tot += c[i][j]
    return tot / r


def selftest():
    c = [[0.1, 0.9, 0.3], [0.8, 0.85, 0.2], [0.4, 0.5, 0.6]]
    best, means = all_matchings(c)
    ref = max(sum(c[i][p[i]] for i in range(3)) / 3 for p in itertools.permutations(range(3)))
    assert abs(best - ref) < 1e-15, (best, ref)
    assert abs(best - (0.9 + 0.8 + 0.6) / 3) < 1e-15
    cm = cos_matrix([[1.0, 0.0], [0.0, 2.0]], [[0.0, 3.0], [-1.0, 3.0]])
    assert cm[0][0] == 0.0 and abs(cm[0][1] - 1 / math.sqrt(2)) < 1e-15 and cm[1][0] == -1.0


# ------------------------------------------------------------------ dense CP
def cp_dense(weights, factors):
    """numpy-free accumulation order is irrelevant here (tolerance 1e-12 * scale); explicit loops over index tuples."""
    fs = [np.asarray(f, dtype=np.float64).tolist() for f in factors]
    w = [float(x) for x in np.asarray(weights).tolist()]
    shape = [len(f) for f in fs]
    out = []
    for idx in itertools.product(*[range(s) for s in shape]):
        terms = []
        for r in range(len(w)):
            v = w[r]
            for k, f in enumerate(fs):
                v *= f[idx[k]][r]
            terms.append(v)
        out.append(math.fsum(terms))
    return out


# ------------------------------------------------------------------ error metrics along axes
def _split(shape, axes):
    keep = [k for k in range(len(shape)) if k not in axes]
    return keep, [shape[k] for k in keep]


def reduce_axes(shape, axes, fn):
    """Apply fn(list_of_index_tuples) for every output position (the kept axes, C order). Returns flat list + out shape."""
    nd = len(shape)
    axes = sorted(axes)
    keep, kshape = _split(shape, axes)
    out = []
    for kidx in itertools.product(*[range(s) for s in kshape]):
        cells = []
        for ridx in itertools.product(*[range(shape[a]) for a in axes]):
            idx = [0] * nd
            for k, i in zip(keep, kidx):
                idx[k] = i
            for a, i in zip(axes, ridx):
                idx[a] = i
            cells.append(tuple(idx))
        out.append(fn(cells))
    return out, tuple(kshape)


def norm_axes(axis, nd):
    if axis is None:
        return list(range(nd))
    if isinstance(axis, (list, tuple)):
        return sorted(a % nd for a in axis)
    return [axis % nd]


def mean(xs):
    return math.fsum(xs) / len(xs)
