"""C03 reference helpers (on top of vmc/ref/core.py): TT-matrix and PARAFAC2 dense forms, the
"merge modes" (matrix view) layout, and the exactly orthonormal integer projections.

Everything is explicit loops over index tuples on python numbers (no reshape / einsum / BLAS).
"""
from itertools import combinations, permutations, product

from vmc.ref.core import RT, build


def ttm_dense(cores):
    """cores[k]: RT (r_k, in_k, out_k, r_{k+1}), r_0 = r_d = 1.
    Dense tensor of shape (in_0..in_{d-1}, out_0..out_{d-1}) with entry
    prod_k cores[k][:, i_k, j_k, :]  (chain of matrix products)."""
    d = len(cores)
    shape = tuple(c.shape[1] for c in cores) + tuple(c.shape[2] for c in cores)

    def ent(idx):
        v = [1]
        for k, c in enumerate(cores):
            i, j = idx[k], idx[d + k]
            v = [sum(v[a] * c[(a, i, j, b)] for a in range(c.shape[0])) for b in range(c.shape[3])]
        assert len(v) == 1
        return v[0]

    return build(shape, ent)


def merge_leading(t, nlead):
    """Matrix view: rows = first `nlead` modes merged (C order), columns = remaining modes merged (C order)."""
    rs, cs = t.shape[:nlead], t.shape[nlead:]
    nr = 1
    for s in rs:
        nr *= s
    nc = 1
    for s in cs:
        nc *= s
    out = [None] * (nr * nc)
    for idx in t.indices():
        r = 0
        for i, s in zip(idx[:nlead], rs):
            r = r * s + i
        c = 0
        for i, s in zip(idx[nlead:], cs):
            c = c * s + i
        out[r * nc + c] = t[idx]
    return RT((nr, nc), out)


def signed_selections(J, R):
    """All J x R matrices with exactly orthonormal integer columns: R distinct rows of the identity
    (ordered) with signs.  Returned as nested python lists, deterministic order."""
    out = []
    for rows in combinations(range(J), R):
        for order in permutations(rows):
            for signs in product((1, -1), repeat=R):
                m = [[0] * R for _ in range(J)]
                for c, (r, s) in enumerate(zip(order, signs)):
                    m[r][c] = s
                out.append(m)
    return out


def parafac2_slices(weights, A, B, C, projections):
    """Slices X_i[j, k] = sum_r w_r A[i, r] (P_i B)[j, r] C[k, r];  list of RT (J_i, K)."""
    I, Rk = A.shape
    K = C.shape[0]
    out = []
    for i in range(I):
        P = projections[i]
        Ji = P.shape[0]

        def ent(idx, i=i, P=P):
            j, k = idx
            s = 0
            for r in range(Rk):
                pb = sum(P[(j, q)] * B[(q, r)] for q in range(B.shape[0]))
                w = 1 if weights is None else weights[r]
                s = s + w * A[(i, r)] * pb * C[(k, r)]
            return s

        out.append(build((Ji, K), ent))
    return out


def parafac2_dense(slices):
    """Zero-padded stack of the slices: shape (I, max J_i, K)."""
    I = len(slices)
    K = slices[0].shape[1]
    J = max(s.shape[0] for s in slices)
    return build((I, J, K), lambda idx: slices[idx[0]][(idx[1], idx[2])] if idx[1] < slices[idx[0]].shape[0] else 0)
