"""C16 catalogue: every seed-accepting entry point of tensorly (x a few configurations that change
*where* randomness enters) and families of seedless deterministic functions.

An entry is a dict {"name", "config", "cost", "build"}; ``build(off)`` returns ``call(rs)`` (seeded
entries) that runs the REAL tensorly function on fixed table data with ``random_state=rs`` and
returns the raw result.  Seedless families are dicts {"name", "members": [(label, build)]} where
``build(off)`` returns ``call()``.

Data come from vmc.values (deterministic tables; ``off`` = VERIF_SEED rotates them).  No RNG here.
"""
import functools as _functools

import numpy as np

from vmc import values as V

# "cost" = static estimate of the work of a group in ms per library call, used ONLY to order the groups (largest first) so that
# the pool's dynamic scheduling keeps 16 workers busy; configurations whose BFS is known to merge few states get a larger figure.


# cheap entry points (< ~0.6 ms per call): explored one level deeper than the others
DEEP = {
    ("random_tensor", "default"), ("random_cp", "default"), ("random_cp", "full-orthogonal"), ("random_tucker", "default"),
    ("random_tucker", "orthogonal-nonneg"), ("random_tt", "default"), ("random_tt_matrix", "default"), ("random_tr", "default"),
    ("random_parafac2", "default"), ("random_parafac2", "full-normalised"), ("backend.randn", "default"), ("backend.gamma", "default"),
    ("initialize_cp", "init-random"), ("initialize_tucker", "init-random"), ("sample_khatri_rao", "default"),
    ("sample_khatri_rao", "skip_matrix"), ("randomized_range_finder", "default"), ("randomized_svd", "default"),
    ("randomized_svd", "transposed-branch"), ("svd_interface", "method-randomized_svd"),
    ("parafac2.initialize_decomposition", "init-random"),
}


_BIG = {}


def _big(off, shape=(240, 260)):
    """A large generic array (smaller side >= 200), built once per (offset, shape): size-dependent code paths."""
    key = (int(off), tuple(shape))
    if key not in _BIG:
        n = int(np.prod(shape))
        base = V.generic((997,), off + 11)
        idx = (np.arange(n) * 7 + (np.arange(n) // 997) * 13) % 997
        _BIG[key] = (base[idx] * (1.0 + (np.arange(n) % 11) / 7.0)).reshape(shape)
    return _BIG[key].copy()


def _t3(off, signed=True):
    return V.generic((3, 4, 2), off, signed=signed)


def _t444(off):
    return V.generic((4, 4, 4), off + 2, signed=False)


def _slices(off):
    return [V.generic((3, 3), off + 1), V.generic((4, 3), off + 2), V.generic((2, 3), off + 3)]


def _mats(off):
    return [V.generic((3, 2), off + 1), V.generic((4, 2), off + 2), V.generic((2, 2), off + 3)]


def _reg(off):
    return V.generic((6, 3, 2), off + 4), V.generic((6,), off + 5)


# ------------------------------------------------------------------------------------------------
def seeded_entries():
    import tensorly as tl
    from tensorly import random as R
    from tensorly import decomposition as D
    from tensorly.decomposition import _cp, _constrained_cp, _tucker, _parafac2, _nn_cp, _tr_als
    from tensorly.contrib.decomposition import tensor_train_cross
    from tensorly.tenalg import svd as S
    from tensorly.regression import CPRegressor, TuckerRegressor, CP_PLSR

    E = []

    def add(name, config, cost, build):
        E.append({"name": name, "config": config, "cost": cost, "build": build, "deep": (name, config) in DEEP})

    # ---- random generators ---------------------------------------------------------------------
    add("random_tensor", "default", 0.01, lambda off: (lambda rs: R.random_tensor((3, 4, 2), random_state=rs)))
    add("random_cp", "default", 0.1, lambda off: (lambda rs: R.random_cp((3, 4, 2), 2, random_state=rs)))
    add("random_cp", "full-orthogonal", 0.1, lambda off: (lambda rs: R.random_cp((3, 4, 2), 2, full=True, orthogonal=True, random_state=rs)))
    add("random_tucker", "default", 0.1, lambda off: (lambda rs: R.random_tucker((3, 4, 2), [2, 2, 2], random_state=rs)))
    add("random_tucker", "orthogonal-nonneg", 0.2, lambda off: (lambda rs: R.random_tucker((3, 4, 2), [2, 2, 2], orthogonal=True, non_negative=True, random_state=rs)))
    add("random_tt", "default", 0.1, lambda off: (lambda rs: R.random_tt((3, 4, 2), [1, 2, 2, 1], random_state=rs)))
    add("random_tt_matrix", "default", 0.1, lambda off: (lambda rs: R.random_tt_matrix((2, 3, 2, 3), [1, 2, 1], random_state=rs)))
    add("random_tr", "default", 0.1, lambda off: (lambda rs: R.random_tr((3, 4, 2), [2, 2, 2, 2], random_state=rs)))
    add("random_parafac2", "default", 0.3, lambda off: (lambda rs: R.random_parafac2([(3, 3), (4, 3), (2, 3)], 2, random_state=rs)))
    add("random_parafac2", "full-normalised", 0.5, lambda off: (lambda rs: R.random_parafac2([(3, 3), (4, 3), (2, 3)], 2, full=True, normalise_factors=True, random_state=rs)))
    add("backend.randn", "default", 0.01, lambda off: (lambda rs: tl.randn((3, 4), seed=rs)))
    add("backend.gamma", "default", 0.01, lambda off: (lambda rs: tl.gamma(2.0, 1.5, size=(3, 2), seed=rs)))

    # ---- CP family -----------------------------------------------------------------------------
    def b_init_cp(rank=2, **kw):
        return lambda off: (lambda rs, T=_t3(off): _cp.initialize_cp(T, rank, random_state=rs, **kw))

    add("initialize_cp", "init-random", 0.1, b_init_cp(init="random"))
    add("initialize_cp", "init-svd-rank-gt-dim", 0.3, b_init_cp(init="svd", rank=3))
    add("initialize_cp", "init-svd-randomized_svd", 8.0, b_init_cp(init="svd", svd="randomized_svd"))

    def b_parafac(fn, **kw):
        def build(off):
            T = _t3(off, signed=not kw.get("_pos", False))
            k2 = {k: v for k, v in kw.items() if not k.startswith("_")}
            return lambda rs: fn(T, random_state=rs, **k2)
        return build

    add("parafac", "init-random", 1.0, b_parafac(D.parafac, rank=2, init="random", n_iter_max=3, tol=0))
    add("parafac", "init-random-return_errors-normalize", 1.2, b_parafac(D.parafac, rank=2, init="random", n_iter_max=3, return_errors=True, normalize_factors=True))
    add("parafac", "init-svd-rank-gt-dim", 1.5, b_parafac(D.parafac, rank=3, init="svd", n_iter_max=2, tol=0))
    add("parafac", "init-svd-randomized_svd", 12.0, b_parafac(D.parafac, rank=2, init="svd", svd="randomized_svd", n_iter_max=2, tol=0))
    add("CP", "init-random", 1.0, lambda off: (lambda rs, T=_t3(off): D.CP(rank=2, init="random", n_iter_max=3, random_state=rs).fit_transform(T)))
    add("randomised_parafac", "init-random", 1.5, lambda off: (lambda rs, T=_t3(off): D.randomised_parafac(T, 2, 4, n_iter_max=3, init="random", max_stagnation=0, tol=1e-300, random_state=rs)))
    add("RandomizedCP", "init-random", 1.5, lambda off: (lambda rs, T=_t3(off): D.RandomizedCP(rank=2, n_samples=4, n_iter_max=3, init="random", max_stagnation=0, tol=1e-300, verbose=0, random_state=rs).fit_transform(T)))
    add("sample_khatri_rao", "default", 0.1, lambda off: (lambda rs, M=_mats(off): D.sample_khatri_rao(M, 5, random_state=rs, return_sampled_rows=True)))
    add("sample_khatri_rao", "skip_matrix", 0.1, lambda off: (lambda rs, M=_mats(off): D.sample_khatri_rao(M, 5, skip_matrix=1, random_state=rs)))
    add("non_negative_parafac", "init-random", 1.5, b_parafac(D.non_negative_parafac, rank=2, init="random", n_iter_max=3, _pos=True))
    add("non_negative_parafac", "init-svd-rank-gt-dim", 2.0, b_parafac(D.non_negative_parafac, rank=3, init="svd", n_iter_max=2, _pos=True))
    add("CP_NN", "init-random", 1.5, lambda off: (lambda rs, T=_t3(off, False): D.CP_NN(rank=2, init="random", n_iter_max=3, random_state=rs).fit_transform(T)))
    add("non_negative_parafac_hals", "init-random", 9.0, b_parafac(D.non_negative_parafac_hals, rank=2, init="random", n_iter_max=1, _pos=True))
    add("CP_NN_HALS", "init-random", 9.0, lambda off: (lambda rs, T=_t3(off, False): D.CP_NN_HALS(rank=2, init="random", n_iter_max=1, random_state=rs).fit_transform(T)))

    # ---- constrained CP ------------------------------------------------------------------------
    add("initialize_constrained_parafac", "init-random", 2.5,
        lambda off: (lambda rs, T=_t3(off): _constrained_cp.initialize_constrained_parafac(T, 2, init="random", random_state=rs, non_negative=True)))
    add("initialize_constrained_parafac", "init-svd-rank-gt-dim", 0.5,
        lambda off: (lambda rs, T=_t3(off): _constrained_cp.initialize_constrained_parafac(T, 3, init="svd", random_state=rs, non_negative=True)))
    add("constrained_parafac", "init-random", 16.0,
        lambda off: (lambda rs, T=_t3(off): D.constrained_parafac(T, 2, init="random", n_iter_max=2, n_iter_max_inner=3, random_state=rs, non_negative=True)))
    add("constrained_parafac", "init-svd-rank-gt-dim", 4.0,
        lambda off: (lambda rs, T=_t3(off): D.constrained_parafac(T, 3, init="svd", n_iter_max=2, n_iter_max_inner=3, random_state=rs, non_negative=True)))
    add("ConstrainedCP", "init-random", 16.0,
        lambda off: (lambda rs, T=_t3(off): D.ConstrainedCP(rank=2, init="random", n_iter_max=2, n_iter_max_inner=3, random_state=rs, non_negative=True).fit_transform(T)))

    # ---- Tucker family -------------------------------------------------------------------------
    add("initialize_tucker", "init-random", 0.1,
        lambda off: (lambda rs, T=_t3(off): _tucker.initialize_tucker(T, [2, 2, 2], [0, 1, 2], rs, init="random")))
    add("initialize_tucker", "init-svd-randomized_svd", 0.6,
        lambda off: (lambda rs, T=_t3(off): _tucker.initialize_tucker(T, [2, 2, 2], [0, 1, 2], rs, init="svd", svd="randomized_svd")))
    add("partial_tucker", "init-random", 1.5,
        lambda off: (lambda rs, T=_t3(off): D.partial_tucker(T, [2, 2], modes=[0, 1], init="random", n_iter_max=2, tol=0, random_state=rs)))
    add("tucker", "init-random", 2.0,
        lambda off: (lambda rs, T=_t3(off): D.tucker(T, [2, 2, 2], init="random", n_iter_max=2, tol=0, random_state=rs)))
    add("tucker", "init-svd-randomized_svd", 2.0,
        lambda off: (lambda rs, T=_t3(off): D.tucker(T, [2, 2, 2], init="svd", svd="randomized_svd", n_iter_max=2, tol=0, random_state=rs)))
    add("Tucker", "init-random", 2.0,
        lambda off: (lambda rs, T=_t3(off): D.Tucker(rank=[2, 2, 2], init="random", n_iter_max=2, tol=0, random_state=rs).fit_transform(T)))
    add("non_negative_tucker", "init-random", 2.0,
        lambda off: (lambda rs, T=_t3(off, False): D.non_negative_tucker(T, [2, 2, 2], init="random", n_iter_max=3, random_state=rs)))
    add("Tucker_NN", "init-random", 2.0,
        lambda off: (lambda rs, T=_t3(off, False): _tucker.Tucker_NN(rank=[2, 2, 2], init="random", n_iter_max=3, random_state=rs).fit_transform(T)))
    add("non_negative_tucker_hals", "init-random", 14.0,
        lambda off: (lambda rs, T=_t3(off, False): D.non_negative_tucker_hals(T, [2, 2, 2], init="random", n_iter_max=1, random_state=rs)))
    add("Tucker_NN_HALS", "init-random", 14.0,
        lambda off: (lambda rs, T=_t3(off, False): _tucker.Tucker_NN_HALS(rank=[2, 2, 2], init="random", n_iter_max=1, random_state=rs).fit_transform(T)))

    # ---- PARAFAC2 ------------------------------------------------------------------------------
    add("parafac2.initialize_decomposition", "init-random", 0.4,
        lambda off: (lambda rs, SL=_slices(off): _parafac2.initialize_decomposition(SL, 2, init="random", random_state=rs)))
    add("parafac2", "init-random", 6.5,
        lambda off: (lambda rs, SL=_slices(off): D.parafac2(SL, 2, init="random", n_iter_max=2, tol=1e-300, random_state=rs)))
    add("parafac2", "init-svd-randomized_svd", 18.0,
        lambda off: (lambda rs, SL=_slices(off): D.parafac2(SL, 2, init="svd", svd="randomized_svd", n_iter_max=1, n_iter_parafac=2, tol=1e-300, random_state=rs)))
    add("parafac2", "init-random-svd-randomized_svd", 18.0,
        lambda off: (lambda rs, SL=_slices(off): D.parafac2(SL, 2, init="random", svd="randomized_svd", n_iter_max=1, n_iter_parafac=2, tol=1e-300, random_state=rs)))
    add("Parafac2", "init-random", 6.5,
        lambda off: (lambda rs, SL=_slices(off): D.Parafac2(rank=2, init="random", n_iter_max=2, tol=1e-300, return_errors=True, random_state=rs).fit_transform(SL)))

    # ---- tensor ring ALS -----------------------------------------------------------------------
    add("tensor_ring_als", "default", 1.0,
        lambda off: (lambda rs, T=_t3(off): D.tensor_ring_als(T, [2, 2, 2, 2], n_iter_max=2, tol=0.0, random_state=rs)))
    add("TensorRingALS", "default", 1.0,
        lambda off: (lambda rs, T=_t3(off): D.TensorRingALS(rank=[2, 2, 2, 2], n_iter_max=2, tol=0.0, random_state=rs).fit_transform(T)))
    add("tensor_ring_als_sampled", "leverage-sampling", 2.5,
        lambda off: (lambda rs, T=_t3(off): D.tensor_ring_als_sampled(T, [2, 2, 2, 2], 6, n_iter_max=2, tol=0.0, random_state=rs)))
    add("tensor_ring_als_sampled", "uniform-sampling", 2.5,
        lambda off: (lambda rs, T=_t3(off): D.tensor_ring_als_sampled(T, [2, 2, 2, 2], 6, n_iter_max=2, tol=0.0, uniform_sampling=True, random_state=rs)))
    add("TensorRingALSSampled", "leverage-sampling", 2.5,
        lambda off: (lambda rs, T=_t3(off): D.TensorRingALSSampled(rank=[2, 2, 2, 2], n_samples=6, n_iter_max=2, tol=0.0, random_state=rs).fit_transform(T)))

    # ---- TT-cross, randomized SVD --------------------------------------------------------------
    add("tensor_train_cross", "default", 4.0,
        lambda off: (lambda rs, T=_t444(off): tensor_train_cross(T, [1, 2, 2, 1], tol=0.5, n_iter_max=20, random_state=rs)))
    add("randomized_range_finder", "default", 0.2,
        lambda off: (lambda rs, M=V.generic((6, 5), off + 6): S.randomized_range_finder(M, 3, n_iter=1, random_state=rs)))
    add("randomized_svd", "default", 0.3,
        lambda off: (lambda rs, M=V.generic((6, 5), off + 6): S.randomized_svd(M, 2, n_oversamples=1, random_state=rs)))
    # data of another kind (complex) and of another size class (smaller side >= 200: above any plausible "large matrix" switch)
    add("randomized_svd", "complex-input", 0.3,
        lambda off: (lambda rs, M=V.gauss_ints((6, 5), off + 6): S.randomized_svd(M, 2, n_oversamples=1, random_state=rs)))
    add("svd_interface", "method-randomized_svd-complex-input", 0.4,
        lambda off: (lambda rs, M=V.gauss_ints((5, 7), off + 4): S.svd_interface(M, method="randomized_svd", n_eigenvecs=2, random_state=rs)))
    # the SVD given as a callable (the function object / a functools.partial of it) instead of its name
    add("svd_interface", "method-callable-randomized_svd", 0.4,
        lambda off: (lambda rs, M=V.generic((6, 5), off + 6): S.svd_interface(M, method=S.randomized_svd, n_eigenvecs=2, random_state=rs)))
    add("tucker", "init-svd-callable-randomized_svd", 2.0,
        lambda off: (lambda rs, T=_t3(off): D.tucker(T, [2, 2, 2], init="svd", svd=S.randomized_svd, n_iter_max=1, tol=0, random_state=rs)))
    add("parafac", "init-svd-partial-randomized_svd", 4.0,
        lambda off: (lambda rs, T=_t3(off): D.parafac(T, 2, init="svd", svd=_functools.partial(S.randomized_svd, n_oversamples=1), n_iter_max=1, tol=0, random_state=rs)))
    add("randomized_svd", "large-matrix", 6.0,
        lambda off: (lambda rs, M=_big(off): S.randomized_svd(M, 3, random_state=rs)))
    add("randomized_svd", "transposed-branch", 0.3,
        lambda off: (lambda rs, M=V.generic((4, 7), off + 7): S.randomized_svd(M, 2, n_oversamples=1, random_state=rs)))
    add("svd_interface", "method-randomized_svd", 0.4,
        lambda off: (lambda rs, M=V.generic((6, 5), off + 6): S.svd_interface(M, method="randomized_svd", n_eigenvecs=2, random_state=rs)))

    # ---- regressors ----------------------------------------------------------------------------
    def reg_out(est, X, y):
        est.fit(X, y)
        return [est.weight_tensor_, est.predict(X)]

    add("CPRegressor", "default", 2.0,
        lambda off: (lambda rs, Xy=_reg(off): reg_out(CPRegressor(weight_rank=2, n_iter_max=3, random_state=rs, verbose=0), *Xy)))
    add("TuckerRegressor", "default", 3.0,
        lambda off: (lambda rs, Xy=_reg(off): reg_out(TuckerRegressor(weight_ranks=[2, 2], n_iter_max=3, random_state=rs, verbose=0), *Xy)))

    def plsr_out(est, X, y):
        est.fit(X, y)
        return [list(est.X_factors), list(est.Y_factors), est.coef_, est.predict(X)]

    # the estimator parameter protocol: a copy made from get_params() / configured by set_params() is seeded like the original
    add("CPRegressor", "copy-from-get_params", 2.0,
        lambda off: (lambda rs, Xy=_reg(off): reg_out(CPRegressor(**CPRegressor(weight_rank=2, n_iter_max=3, random_state=rs, verbose=0).get_params()), *Xy)))
    add("TuckerRegressor", "copy-from-get_params", 3.0,
        lambda off: (lambda rs, Xy=_reg(off): reg_out(TuckerRegressor(**TuckerRegressor(weight_ranks=[2, 2], n_iter_max=3, random_state=rs, verbose=0).get_params()), *Xy)))
    add("TuckerRegressor", "configured-by-set_params", 3.0,
        lambda off: (lambda rs, Xy=_reg(off): reg_out(TuckerRegressor(weight_ranks=[2, 2], n_iter_max=3, verbose=0).set_params(random_state=rs), *Xy)))
    add("CPRegressor", "configured-by-set_params", 2.0,
        lambda off: (lambda rs, Xy=_reg(off): reg_out(CPRegressor(weight_rank=2, n_iter_max=3, verbose=0).set_params(random_state=rs), *Xy)))
    add("CP_PLSR", "default", 3.0,
        lambda off: (lambda rs, Xy=_reg(off): plsr_out(CP_PLSR(n_components=2, n_iter_max=5, random_state=rs), Xy[0], Xy[1])))

    # ---- the same estimator OBJECT fitted again (an int seed stored in the object must give the same fit every time) -------
    def refit(make, use):
        """call(rs): for an int seed the estimator object is created once per history and re-used by later calls of that history
        (`reset()` is invoked by the check at the start of every history); generators always get a fresh object."""
        def build(off):
            objs = {}

            def call(rs):
                if isinstance(rs, (int, np.integer)):
                    if rs not in objs:
                        objs[rs] = make(rs)
                    est = objs[rs]
                else:
                    est = make(rs)
                return use(est, off)

            call.reset = objs.clear
            return call
        return build

    add("CPRegressor", "same-object-refit", 2.0,
        refit(lambda rs: CPRegressor(weight_rank=2, n_iter_max=3, random_state=rs, verbose=0), lambda est, off: reg_out(est, *_reg(off))))
    add("TuckerRegressor", "same-object-refit", 3.0,
        refit(lambda rs: TuckerRegressor(weight_ranks=[2, 2], n_iter_max=3, random_state=rs, verbose=0), lambda est, off: reg_out(est, *_reg(off))))
    add("CP", "same-object-refit", 2.0,
        refit(lambda rs: D.CP(2, n_iter_max=2, init="random", tol=0, random_state=rs), lambda est, off: est.fit_transform(_t3(off))))
    add("Tucker", "same-object-refit", 2.0,
        refit(lambda rs: D.Tucker([2, 2, 2], n_iter_max=2, init="random", tol=0, random_state=rs), lambda est, off: est.fit_transform(_t3(off))))
    add("CP_NN_HALS", "same-object-refit", 4.0,
        refit(lambda rs: D.CP_NN_HALS(2, n_iter_max=2, init="random", random_state=rs), lambda est, off: est.fit_transform(_t3(off, False))))
    add("TensorRingALS", "same-object-refit", 2.0,
        refit(lambda rs: D.TensorRingALS([2, 2, 2, 2], n_iter_max=2, random_state=rs), lambda est, off: est.fit_transform(_t3(off))))
    return E


# ------------------------------------------------------------------------------------------------
def seedless_families():
    import tensorly as tl
    from tensorly import decomposition as D
    from tensorly import tenalg as A
    from tensorly.tenalg import svd as S

    F = []

    def fam(name, cost, members):
        F.append({"name": name, "cost": cost, "members": members})

    fam("svd-init-decompositions-A", 3.0, [
        ("parafac[init=svd]", lambda off: (lambda T=_t3(off): D.parafac(T, 2, init="svd", n_iter_max=2, tol=0))),
        ("tucker[init=svd]", lambda off: (lambda T=_t3(off): D.tucker(T, [2, 2, 2], init="svd", n_iter_max=2, tol=0))),
        ("non_negative_parafac[init=svd]", lambda off: (lambda T=_t3(off, False): D.non_negative_parafac(T, 2, init="svd", n_iter_max=2))),
        ("parafac2[init=svd]", lambda off: (lambda SL=_slices(off): D.parafac2(SL, 2, init="svd", n_iter_max=2, tol=1e-300))),
    ])
    fam("svd-init-decompositions-B", 3.0, [
        ("constrained_parafac[init=svd]", lambda off: (lambda T=_t3(off): D.constrained_parafac(T, 2, init="svd", n_iter_max=2, n_iter_max_inner=3, non_negative=True))),
        ("non_negative_tucker[init=svd]", lambda off: (lambda T=_t3(off, False): D.non_negative_tucker(T, [2, 2, 2], init="svd", n_iter_max=2))),
        ("partial_tucker[init=svd]", lambda off: (lambda T=_t3(off): D.partial_tucker(T, [2, 2], modes=[0, 2], init="svd", n_iter_max=2, tol=0))),
        ("coupled_matrix_tensor_3d_factorization[init=svd]",
         lambda off: (lambda T=_t3(off), M=V.generic((3, 3), off + 9): D.coupled_matrix_tensor_3d_factorization(T, M, 2, init="svd", n_iter_max=2))),
    ])
    def _mask3(off):
        m = np.ones((3, 4, 2))
        m[0, 1, 0] = m[2, 3, 1] = m[1, 0, 1] = 0.0
        return m

    # masked data with SVD initialisation, the SAME (C-contiguous) data array handed to every call of a history
    fam("masked-svd-init-decompositions-E", 3.0, [
        ("parafac[init=svd,mask]", lambda off: (lambda T=np.ascontiguousarray(_t3(off)), M=_mask3(off): D.parafac(T, 2, init="svd", mask=M, n_iter_max=2, tol=0))),
        ("tucker[init=svd,mask]", lambda off: (lambda T=np.ascontiguousarray(_t3(off)), M=_mask3(off): D.tucker(T, [2, 2, 2], init="svd", mask=M, n_iter_max=2, tol=0))),
        ("non_negative_parafac[init=svd,mask]", lambda off: (lambda T=np.ascontiguousarray(_t3(off, False)), M=_mask3(off): D.non_negative_parafac(T, 2, init="svd", mask=M, n_iter_max=2))),
        ("svd_interface[mask]", lambda off: (lambda T=np.ascontiguousarray(V.generic((4, 3), off + 3)), M=np.array([[1, 1, 0], [1, 1, 1], [0, 1, 1], [1, 1, 1.0]]):
                                              S.svd_interface(T, n_eigenvecs=2, mask=M, n_iter_mask_imputation=3))),
    ])
    fam("svd-based-decompositions-C", 2.0, [
        ("tensor_train", lambda off: (lambda T=_t3(off): D.tensor_train(T, [1, 2, 2, 1]))),
        ("tensor_train_matrix", lambda off: (lambda T=V.generic((2, 3, 2, 3), off): D.tensor_train_matrix(T, [1, 2, 1]))),
        ("tensor_ring", lambda off: (lambda T=_t3(off): D.tensor_ring(T, [1, 2, 2, 1]))),
        ("robust_pca", lambda off: (lambda T=_t3(off): D.robust_pca(T, n_iter_max=3))),
    ])
    fam("svd-functions", 0.5, [
        ("svd_interface[truncated_svd]", lambda off: (lambda M=V.generic((6, 5), off + 6): S.svd_interface(M, method="truncated_svd", n_eigenvecs=3))),
        ("svd_interface[symeig_svd]", lambda off: (lambda M=V.generic((6, 5), off + 6): S.svd_interface(M, method="symeig_svd", n_eigenvecs=3))),
        ("truncated_svd", lambda off: (lambda M=V.generic((4, 7), off + 7): S.truncated_svd(M, 2))),
        ("svd_interface[non_negative]", lambda off: (lambda M=V.generic((6, 5), off + 6, signed=False): S.svd_interface(M, n_eigenvecs=2, non_negative=True))),
    ])
    fam("svd-functions-large-matrix", 8.0, [
        ("truncated_svd[240x260,k=3]", lambda off: (lambda M=_big(off): S.truncated_svd(M, 3))),
        ("svd_interface[truncated_svd,240x260,k=2]", lambda off: (lambda M=_big(off): S.svd_interface(M, method="truncated_svd", n_eigenvecs=2))),
        ("symeig_svd[240x260,k=3]", lambda off: (lambda M=_big(off): S.symeig_svd(M, 3))),
        ("parafac[init=svd,(220,12,20)]", lambda off: (lambda T=_big(off, (220, 12, 20)): D.parafac(T, 2, init="svd", n_iter_max=1, tol=0))),
    ])
    fam("tensor-algebra-A", 0.2, [
        ("khatri_rao", lambda off: (lambda M=_mats(off): A.khatri_rao(M))),
        ("kronecker", lambda off: (lambda M=_mats(off): A.kronecker(M))),
        ("mode_dot", lambda off: (lambda T=_t3(off), M=V.generic((5, 4), off + 8): A.mode_dot(T, M, 1))),
        ("multi_mode_dot", lambda off: (lambda T=_t3(off), M=_mats(off): A.multi_mode_dot(T, [m.T for m in M]))),
    ])
    fam("tensor-algebra-B", 0.2, [
        ("unfolding_dot_khatri_rao", lambda off: (lambda T=_t3(off), M=_mats(off): A.unfolding_dot_khatri_rao(T, (None, M), 1))),
        ("inner", lambda off: (lambda T=_t3(off), U=_t3(off + 1): A.inner(T, U))),
        ("outer", lambda off: (lambda M=_mats(off): A.outer([m[:, 0] for m in M]))),
        ("tensordot", lambda off: (lambda T=_t3(off), U=_t3(off + 1): A.tensordot(T, U, modes=(2, 2), batched_modes=(0, 0)))),
    ])
    fam("reconstruction-and-norms", 0.3, [
        ("cp_to_tensor", lambda off: (lambda M=_mats(off): tl.cp_to_tensor((V.generic((2,), off, signed=False), M)))),
        ("tucker_to_tensor", lambda off: (lambda M=_mats(off), C=V.generic((2, 2, 2), off): tl.tucker_to_tensor((C, M)))),
        ("cp_normalize", lambda off: (lambda M=_mats(off): tl.cp_tensor.cp_normalize((None, [m.copy() for m in M])))),
        ("tt_to_tensor", lambda off: (lambda off=off: tl.tt_to_tensor([V.generic((1, 3, 2), off), V.generic((2, 4, 2), off + 1), V.generic((2, 2, 1), off + 2)]))),
    ])
    return F
