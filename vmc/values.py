"""Deterministic value tables (no RNG).  VERIF_SEED only rotates the offset into the tables."""
import math

import numpy as np


import os as _os

_LAYOUTS = _os.environ.get("VERIF_LAYOUTS", "1") != "0"


def _lay(arr, off):
    """Every table array comes in a memory layout that rotates with (offset, shape): the values are what the tables define,
    the strides vary (C, Fortran, negative strides, strided view) - layout-dependent code paths are exercised for free."""
    if not _LAYOUTS:
        return arr
    return relayout(arr, int(off) + arr.ndim + (arr.shape[0] if arr.ndim else 0))


def _primes(n):
    out, c = [], 2
    while len(out) < n:
        if all(c % p for p in out if p * p <= c):
            out.append(c)
        c += 1
    return out


_P = _primes(6000)


def ints(shape, off=0, k=3, nonzero=False):
    """Small 'generic' integers in [-k, k] (python ints in a float64 array; exactly representable)."""
    n = int(np.prod(shape)) if len(shape) else 1
    span = 2 * k + 1
    vals = []
    for i in range(n):
        v = (_P[(i * 7 + off * 13 + 5) % len(_P)] + i * i + off) % span - k
        if nonzero and v == 0:
            v = 1 + (i % k)
        vals.append(v)
    return _lay(np.array(vals, dtype=np.float64).reshape(shape), off)


def posints(shape, off=0, k=4):
    n = int(np.prod(shape)) if len(shape) else 1
    vals = [(_P[(i * 5 + off * 11 + 3) % len(_P)] + i) % k + 1 for i in range(n)]
    return _lay(np.array(vals, dtype=np.float64).reshape(shape), off)


def gauss_ints(shape, off=0, k=2):
    return ints(shape, off, k) + 1j * ints(shape, off + 17, k)


def generic(shape, off=0, signed=True):
    """Irrational 'generic position' values frac(sqrt(p_i)) (- 0.5 if signed)."""
    n = int(np.prod(shape)) if len(shape) else 1
    vals = []
    for i in range(n):
        f = math.sqrt(_P[(i * 3 + off * 29 + 1) % len(_P)]) % 1.0
        if f < 1e-3:
            f += 0.37
        vals.append(f - 0.5 if signed else f + 0.05)
    return _lay(np.array(vals, dtype=np.float64).reshape(shape), off)


def lowrank_cp(shape, rank, off=0, nonneg=False, integer=False):
    """Exactly rank-`rank` (at most) tensor built from table factors."""
    facs = []
    for k, s in enumerate(shape):
        if integer:
            f = posints((s, rank), off + k) if nonneg else ints((s, rank), off + k, 2, nonzero=True)
        else:
            f = generic((s, rank), off + k, signed=not nonneg)
        facs.append(f)
    t = np.zeros(shape)
    for r in range(rank):
        comp = facs[0][:, r]
        for f in facs[1:]:
            comp = np.multiply.outer(comp, f[:, r])
        t = t + comp
    return t, facs


def relayout(arr, k):
    """Same logical array in one of four memory layouts (k mod 4): C-contiguous, Fortran-ordered, negative strides on every
    axis, strided view into a larger buffer.  Values, dtype and shape are unchanged - only the strides differ."""
    arr = np.asarray(arr)
    k = int(k) % 4
    if k == 0 or arr.ndim == 0 or arr.size == 0:
        return np.ascontiguousarray(arr)
    if k == 1:
        return np.asfortranarray(arr)
    if k == 2:
        rev = tuple(slice(None, None, -1) for _ in arr.shape)
        return np.ascontiguousarray(arr[rev])[rev]
    big = np.zeros(tuple(2 * s + 1 for s in arr.shape), dtype=arr.dtype)
    sl = tuple(slice(1, 2 * s + 1, 2) for s in arr.shape)
    big[sl] = arr
    return big[sl]
