"""Iteration machines: uniform access to TensorLy's iterative decompositions as state machines.

state s_k = the decomposition after k sweeps of a fixed configuration (obtained by the prefix run
n_iter_max = k; the algorithms are deterministic given data, init and seed), transition = one sweep of
the REAL algorithm.  Used by C06 / C07 / C08 / C10 / C14.

Dense reconstructions here are written with numpy.einsum directly from the factor arrays (independent
of tensorly's own conversion code, which is the subject of C03).
"""
import string
import warnings

import numpy as np

from vmc import values as V

warnings.filterwarnings("ignore")


# ------------------------------------------------------------------ independent reconstructions
def cp_dense(weights, factors):
    factors = [np.asarray(f) for f in factors]
    R = factors[0].shape[1]
    w = np.ones(R) if weights is None else np.asarray(weights)
    letters = string.ascii_lowercase
    sub = ",".join(letters[i] + "z" for i in range(len(factors))) + ",z->" + letters[: len(factors)]
    return np.einsum(sub, *factors, w)


def tucker_dense(core, factors):
    out = np.asarray(core)
    for k, f in enumerate(factors):
        out = np.moveaxis(np.tensordot(np.asarray(f), out, axes=(1, k)), 0, k)
    return out


def tr_dense(cores):
    out = np.asarray(cores[0])  # (r0, I0, r1)
    for c in cores[1:]:
        out = np.tensordot(out, np.asarray(c), axes=(-1, 0))
    return np.trace(out, axis1=0, axis2=-1)


def tt_dense(cores):
    out = np.asarray(cores[0])
    for c in cores[1:]:
        out = np.tensordot(out, np.asarray(c), axes=(-1, 0))
    return out.reshape(out.shape[1:-1])


def parafac2_slices(weights, factors, projections):
    A, B, C = [np.asarray(f) for f in factors]
    w = np.ones(A.shape[1]) if weights is None else np.asarray(weights)
    return [np.asarray(P) @ (B * (A[i] * w)) @ C.T for i, P in enumerate(projections)]


def relerr(X, M):
    return float(np.linalg.norm((X - M).ravel()) / np.linalg.norm(np.asarray(X).ravel()))


# ------------------------------------------------------------------ deterministic data
def data_tensor(family, shape, rank, seed=0):
    """Deterministic data tensor; its memory layout rotates with (shape, seed) - C, Fortran, negative strides, strided view."""
    return V.relayout(_data_tensor(family, shape, rank, seed), seed + sum(shape) + len(shape))


def _data_tensor(family, shape, rank, seed=0):
    shape = tuple(shape)
    if family == "generic":
        return V.generic(shape, seed + 3) * 2.0
    if family == "lowrank":
        return V.lowrank_cp(shape, rank, seed + 5)[0]
    if family == "nonneg":
        return V.generic(shape, seed + 7, signed=False)
    if family == "nonneg-lowrank":
        return V.lowrank_cp(shape, rank, seed + 9, nonneg=True)[0]
    if family == "integer":
        return V.ints(shape, seed + 11, 3)
    if family == "sparse-nonneg":
        x = V.generic(shape, seed + 13, signed=False)
        m = V.ints(shape, seed + 15, 2)
        return np.where(m > 0, x, 0.0)
    if family == "small-norm":  # Frobenius norm well below 1 (un-normalised vs relative error confusions)
        return V.generic(shape, seed + 19) * 0.05
    if family.startswith("parafac2-model"):
        I, J, K = shape
        return parafac2_model_tensor(I, J, K, max(rank, 1), seed + int(family.split(":")[1]) if ":" in family else seed)
    if family == "all-negative":
        return -V.generic(shape, seed + 17, signed=False)
    raise ValueError(family)


def parafac2_model_tensor(I, J, K, R, off=0, noise=0.05):
    """Noisy PARAFAC2 data (I slices of J x K) whose true A factor has entries of both signs (deterministic tables)."""
    A = V.generic((I, R), off + 41)          # signed
    B = V.generic((R, R), off + 42) + np.eye(R)
    C = V.generic((K, R), off + 43, signed=False)
    out = []
    for i in range(I):
        P, _ = np.linalg.qr(V.generic((J, R), off + 50 + i))
        out.append(P @ (B * A[i]) @ C.T + noise * V.generic((J, K), off + 70 + i))
    return np.stack(out)


def mask_tensor(shape, seed=0):
    m = V.ints(shape, seed + 21, 3)
    out = np.where(m == 3, 0.0, 1.0)
    out.reshape(-1)[0] = 1.0
    return out


def cp_init(shape, rank, seed=0, weights="none", nonneg=False):
    facs = [V.generic((s, rank), seed + 31 + k, signed=not nonneg) + (0.1 if nonneg else 0.0) for k, s in enumerate(shape)]
    table = {"none": None, "ones": np.ones(rank), "positive": np.array([2.0, 0.5, 3.0][:rank]),
             "negative": -np.array([2.0, 0.5, 3.0][:rank]), "mixed": np.array([2.0, -0.5, 3.0][:rank]),
             # some, not all, weights exactly one (tests written as "all(w == 1)" / "any(w != 1)" agree except here)
             "partly-one": np.array([2.0, 1.0, 0.5][:rank]), "partly-one-first": np.array([1.0, 3.0, 1.0][:rank])}
    return table[weights], facs


# ------------------------------------------------------------------ algorithm adapters
class Result:
    __slots__ = ("decomp", "errors", "dense", "extra", "kind")

    def __init__(self, kind, decomp, errors, dense, extra=None):
        self.kind, self.decomp, self.errors, self.dense, self.extra = kind, decomp, errors, dense, extra or {}


TINY = 1e-300  # "tol" that never triggers except on an exactly repeated error value


def _errs(e):
    return None if e is None else [float(np.real(x)) for x in e]


def run(algo, X, rank, cfg, n_iter_max, tol=None):
    """Run one algorithm for n_iter_max sweeps.  tol=None: the iteration cap decides (the algorithm's own
    'disabled' value is used); otherwise the given tolerance (convergence exit possible).
    cfg['tenalg'] (optional): run under that tensor-algebra backend ('core' / 'einsum') - a configuration axis."""
    import tensorly as tl

    if cfg.get("verbose"):  # the chatty switch is a configuration like any other; its output is discarded
        import contextlib
        import io

        with contextlib.redirect_stdout(io.StringIO()):
            return _run_t(algo, X, rank, cfg, n_iter_max, tol)
    return _run_t(algo, X, rank, cfg, n_iter_max, tol)


def _run_t(algo, X, rank, cfg, n_iter_max, tol=None):
    import tensorly as tl

    if cfg.get("mttkrp") == "memory":
        # the documented way to switch to the memory-efficient MTTKRP (register_backend_method); undone afterwards - it is process-global
        from tensorly.tenalg.core_tenalg.mttkrp import unfolding_dot_khatri_rao_memory

        cfg = {k: v for k, v in cfg.items() if k != "mttkrp"}
        cls = type(tl.tenalg.current_backend())
        name = "unfolding_dot_khatri_rao"
        saved = cls.__dict__.get(name)
        tl.tenalg.register_backend_method(name, unfolding_dot_khatri_rao_memory)
        try:
            return _run_t(algo, X, rank, cfg, n_iter_max, tol)
        finally:
            if saved is not None:
                setattr(cls, name, saved)
            else:
                delattr(cls, name)

    if "tenalg" in cfg:
        cfg = dict(cfg)
        name = cfg.pop("tenalg")
        with tl.tenalg.backend_context(name, local_threadsafe=True):
            return _run(algo, X, rank, cfg, n_iter_max, tol)
    return _run(algo, X, rank, cfg, n_iter_max, tol)


def _run(algo, X, rank, cfg, n_iter_max, tol=None):
    import tensorly as tl
    from tensorly import decomposition as D

    cfg = dict(cfg)
    rs = cfg.pop("random_state", 0)
    X = tl.tensor(X)
    if cfg.pop("api", None) == "class":
        # the estimator-class entry point of the same algorithm (every explicit option must reach it)
        cname = {"parafac": "CP", "non_negative_parafac": "CP_NN", "non_negative_parafac_hals": "CP_NN_HALS", "constrained_parafac": "ConstrainedCP",
                 "tucker": "Tucker", "parafac2": "Parafac2"}[algo]
        t = tol if tol is not None else (TINY if algo in ("non_negative_parafac", "non_negative_parafac_hals", "parafac2") else 0)
        kw = dict(cfg)
        data = kw.pop("slices", None) if algo == "parafac2" else None
        tolkw = {"tol_outer": t} if algo == "constrained_parafac" else {"tol": t}
        est = getattr(D, cname)(rank, n_iter_max=n_iter_max, random_state=rs, **tolkw, **kw)
        dec = est.fit_transform(data if data is not None else X)
        errs = getattr(est, "errors_", None)
        if algo == "tucker":
            return Result("tucker", dec, _errs(errs), tucker_dense(dec[0], dec[1]))
        if algo == "parafac2":
            return Result("parafac2", dec, _errs(errs), parafac2_slices(dec[0], dec[1], dec[2]))
        return Result("cp", dec, _errs(errs), cp_dense(dec[0], dec[1]))
    if algo == "parafac":
        t = (0 if tol is None else tol)
        out = D.parafac(X, rank, n_iter_max=n_iter_max, tol=t, random_state=rs, return_errors=True, **cfg)
        cp, errs = out
        sparse = None
        if cfg.get("sparsity"):
            cp, sparse = cp
        dense = cp_dense(cp[0], cp[1])
        return Result("cp", cp, _errs(errs), dense, {"sparse": sparse})
    if algo in ("non_negative_parafac", "non_negative_parafac_hals"):
        t = TINY if tol is None else tol
        cp, errs = getattr(D, algo)(X, rank, n_iter_max=n_iter_max, tol=t, random_state=rs, return_errors=True, **cfg)
        return Result("cp", cp, _errs(errs), cp_dense(cp[0], cp[1]))
    if algo == "constrained_parafac":
        t = 0 if tol is None else tol
        cp, errs = D.constrained_parafac(X, rank, n_iter_max=n_iter_max, tol_outer=t, random_state=rs, return_errors=True, **cfg)
        return Result("cp", cp, _errs(errs), cp_dense(cp[0], cp[1]))
    if algo == "tucker":
        t = 0 if tol is None else tol
        tk, errs = D.tucker(X, rank, n_iter_max=n_iter_max, tol=t, random_state=rs, return_errors=True, **cfg)
        return Result("tucker", tk, _errs(errs), tucker_dense(tk[0], tk[1]))
    if algo in ("non_negative_tucker", "non_negative_tucker_hals"):
        t = 0 if tol is None else tol
        tk, errs = getattr(D, algo)(X, rank, n_iter_max=n_iter_max, tol=t, random_state=rs, return_errors=True, **cfg)
        return Result("tucker", tk, _errs(errs), tucker_dense(tk[0], tk[1]))
    if algo == "parafac2":
        t = TINY if tol is None else tol
        slices = cfg.pop("slices", None)
        data = slices if slices is not None else X
        p2, errs = D.parafac2(data, rank, n_iter_max=n_iter_max, tol=t, random_state=rs, return_errors=True, **cfg)
        sl = parafac2_slices(p2[0], p2[1], p2[2])
        return Result("parafac2", p2, _errs(errs), sl)
    if algo in ("tensor_ring_als", "tensor_ring_als_sampled"):
        t = 0 if tol is None else tol
        seen = []

        def cb(tr, err):
            seen.append((float(err), [np.array(c, copy=True) for c in tr]))

        tr = getattr(D, algo)(X, rank, n_iter_max=n_iter_max, tol=t, random_state=rs, callback=cb, **cfg)
        return Result("tr", tr, [e for e, _ in seen], tr_dense(list(tr)), {"callback_iterates": seen})
    if algo == "randomised_parafac":
        use_cb = cfg.pop("with_callback", False)
        t = (0 if use_cb else TINY) if tol is None else tol
        seen = []

        def cb(cp, err=None):
            if err is not None:  # (the initial call passes the decomposition only)
                seen.append((float(np.real(err)), None if cp[0] is None else np.array(cp[0], copy=True), [np.array(f, copy=True) for f in cp[1]]))

        out = D.randomised_parafac(X, rank, n_iter_max=n_iter_max, tol=t, random_state=rs, return_errors=not use_cb,
                                   max_stagnation=cfg.pop("max_stagnation", 0), callback=cb if use_cb else None, **cfg)
        cp, errs = out if not use_cb else (out, [e for e, _, _ in seen])
        return Result("cp", cp, _errs(errs), cp_dense(cp[0], cp[1]), {"callback_iterates": seen})
    if algo == "cmtf":
        from tensorly.decomposition._cmtf_als import coupled_matrix_tensor_3d_factorization as cmtf

        t = 0 if tol is None else tol
        Y = cfg.pop("matrix")
        (tcp, mcp, errs) = cmtf(X, tl.tensor(Y), rank, n_iter_max=n_iter_max, tol=t, **cfg)
        return Result("cmtf", (tcp, mcp), _errs(errs), (cp_dense(tcp[0], tcp[1]), cp_dense(mcp[0], mcp[1])), {"matrix": Y})
    raise ValueError(algo)
