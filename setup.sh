#!/bin/bash
# setup_cmd: offline install of jsonschema (evidence validation) into /verif/.deps; self-test.
set -e
HERE="$(cd "$(dirname "$0")" && pwd)"
cd "$HERE"
if ! PYTHONPATH="$HERE/.deps" /venv/bin/python -c "import jsonschema" 2>/dev/null; then
  rm -rf .deps && mkdir -p .deps
  PIP_NO_INDEX=1 /venv/bin/pip install -q --no-index --find-links /opt/veriftools/wheels --target .deps jsonschema
fi
mkdir -p evidence replays
PYTHONPATH="$HERE:/repo" /venv/bin/python -c "import tensorly, vmc.runner; print('setup ok: tensorly from', tensorly.__file__)"
