#!/usr/bin/env python3
"""Regenerates MANIFEST.json from the table below (run after adding / removing a check)."""
import json
import os

HERE = os.path.dirname(os.path.abspath(__file__))

# pid -> (level, technique, level text, level note, design section)
CHECKS = {}
NOT_APPLICABLE = {}


# axes added to the lattices after the waves of seeded changes (DESIGN.md 7.5 / 7.6); appended to the note of the check
EXTRA = {
    "C01": "Also: orders 6-10 (12 thorough) with a reduced menu of mode lists; negative modes for unfold/fold; one caller-owned shape list reused across the calls of a case.",
    "C02": "Also: depth-2 call histories sharing argument objects; complex weights on real matrices; NumPy-integer indices; sample_khatri_rao with drawn indices (consistency only); multi_mode_dot mode lists that name a mode twice.",
    "C03": "Also: factors of mixed real/complex kinds; weighting (non 0/1) masks; 2-D weights and partially invalid PARAFAC2 projections must be rejected; rejection demanded of every conversion of a plain PARAFAC2 tuple (tensor, slices, single slice, unfolded, vec) and of cp_to_vec.",
    "C04": "Also: input decomposition unchanged with copy=True; ragged generic slices for SVD compression; per-factor scales 1e-19..1e+19; mdotchain: every sequence of 2 (thorough 3) mode products on ONE CPTensor/TuckerTensor object (function/method x copy x operand that changes the mode size), continuing on the returned object or on the argument a copy=False step updated in place.",
    "C05": "Also: graded low-rank spectra; data units 1e-9 / 1e+9.",
    "C06": "Also: size-1 modes; callback that ends the run; mask x sparsity; negative fixed modes; verbose and estimator-class variants; memory of the previous iterate for masked HOOI; mask x line search for CP-ALS.",
    "C07": "Also: memory-efficient MTTKRP registered as backend method; hals_nnls flags nonzero_rows / exact; HOOI with a randomised-SVD generator on a (9,4,4) tensor; HALS with a strict subset of non-negative modes and normalize_factors.",
    "C08": "Also: user initialisation with non-unit weights; einsum backend; Parafac2 class with its defaults; exceptions on valid requests are violations (whitelist of documented refusals); TT ranks clipped by sizes only; CMTF normalised outputs represent the un-normalised tensors.",
    "C09": "Also: TensorRing class; Tucker under the einsum backend; two-call histories sharing the rank list; int64 input.",
    "C10": "Also: estimator classes; einsum backend; fixed mode x subset of declared modes; negative dictionary keys; size-1 modes; the PARAFAC2 line-search step driven directly.",
    "C11": "Also: falsy list placeholders; NumPy-scalar parameter values; zero-sweep budget; fixed constrained modes; einsum backend and class API.",
    "C12": "Also: one-column matrices (shape must be preserved for matrix inputs); parameters and flags as NumPy scalars.",
    "C13": "Also: cold and warm starts, l1 / ridge / both, designs with all-nonpositive least-squares solutions.",
    "C14": "Also: estimator classes; einsum backend; weights mixing exact ones with other values; constraints whose prox moves the initialisation; the last mode listed together with others; masked Tucker warm start fitting the observed entries exactly is a fixed point whatever the hidden entries hold.",
    "C15": "Also: array-valued hyper-parameters (0-d arrays, 1-d coefficient arrays, float defaults passed explicitly); every position of the contracted mode.",
    "C16": "Also: complex input; 240x260 matrices; callable SVDs; estimators rebuilt from get_params / configured by set_params; same-object refits; integers outside NumPy's seed range handled identically on every call.",
    "C18": "Also: data units 1e-9 / 1e6; mask x line search; CP weights of complex data must be complex.",
    "C19": "Also: refit and failed-refit histories; fit_transform outputs scribbled on by the caller; verbose fits; 1030-sample predictions; zero-channel data; einsum backend; PLSR fits stopped by a loose tolerance (transform == stored scores).",
    "C20": "Also: per-method semantics when only some modes are equivalent; zero-row factor matrices; column scalings 1e-6..1e3; factor sets handed over as tuples (a 2-tuple must not be read as (weights, factors)).",
}


def add(pid, level, technique, text, note, engine="LX"):
    CHECKS[pid] = dict(level=level, technique=technique, text=text, note=(note + " " + EXTRA[pid]) if pid in EXTRA else note, engine=engine)


add("C01", "exploration",
    "bounded exhaustive enumeration of (shape x op parameters x dtype x memory layout) against an index-arithmetic reference permutation",
    "Every shape of order 1-5 with small mode sizes (incl. size-1), every mode / skip split / ravel flag / ordered row+column "
    "mode choice, 8 dtypes, 4 memory layouts is executed on the real functions and compared bit-for-bit with a reference "
    "permutation; the operations are data-oblivious, so one injective tensor per (shape,dtype,layout) decides all values of that shape.",
    "Bounds: order<=5, dims<=3 (quick) / <=4 (thorough). Trusted: numpy tobytes/dtype, the loop-level reference in vmc/props/c01.py.")

add("C05", "exploration",
    "bounded exhaustive enumeration of (shape x constructed spectrum x method x n_eigenvecs x flip options x non_negative) with Eckart-Young / orthonormality / sign certificates",
    "All matrix shapes up to 5x5 (7x7 thorough) x matrices constructed from known singular triplets (distinct, repeated, zero, rank-1 spectra) "
    "and integer matrices x every method x every n_eigenvecs from 1 past max(shape) and None x all flip/non-negative options; each result is "
    "checked with a certificate (shapes, S equals the known spectrum, orthonormality, reconstruction error equals the discarded tail, sign rule, entrywise non-negativity).",
    "Trusted: the construction U0 diag(s) V0^T from rational Givens rotations (spectrum known without calling an SVD), numpy.linalg.svd for the integer family; "
    "tolerance ladder 1e-9 / 1e-6 (symeig). Randomized method only where rank+oversampling covers the matrix rank (guard counted).")

add("C17", "model_checking",
    "explicit-state BFS over operation histories of the real backend managers (subset-construction oracle against a per-thread-stack spec) + stateless exploration of all thread schedules up to a pre-emption bound under a controlled scheduler with a linearizability oracle",
    "HX: breadth-first exploration of every history of {set/enter/exit/query, global|local, valid|bogus} events by 2-3 real threads on the REAL "
    "tensorly.backend and tensorly.tenalg managers, deduplicated on a canonical state that contains every data field the managers own; after every "
    "transition all threads are probed (get_backend, current_backend, a dispatched call) and compared with the set of specification states still "
    "consistent (trace inclusion). SX: the same operations run in real threads under a sys.settrace baton scheduler; every schedule with <=2 (quick) / <=3 "
    "(thorough) pre-emptions at line / bytecode granularity is executed and the call/return history checked for linearizability against the spec. "
    "DX: in every state reached by a selection history of length <=2 (quick) / <=4 (thorough) every name of the managers' dispatch tables (functions and attributes) is "
    "reached through every access path (manager attribute, reference taken before any selection, tensorly top level) in every thread with marker methods installed on "
    "the backend classes, and must land on the backend get_backend() names in that thread. TX: the TLA+ spec graph (TLC) equals the Python spec graph and every labelled "
    "spec edge is replayed on the real managers.",
    "Bounds: 2-3 threads, 2-3 backends, context nesting <=2, history length <=5 (quick) or to the fixpoint (thorough, nesting 1); stand-in NumPy-derived "
    "backends replace the uninstallable ones. Entering a context is modelled as two atomic steps (the statement does not promise atomicity against other "
    "threads' global selections). CPython bytecodes are atomic under the GIL.", engine="SX+TX")

add("C19", "exploration",
    "bounded exhaustive enumeration of (estimator x sample count x sample shape x target shape x rank x regularisation x seed x iteration cap) with loop-level reference contractions; all sample permutations / shifts for PLSR",
    "Every configuration of the bounded lattice is fitted with the real estimators; predictions are compared with the explicit contraction of each sample "
    "with the exposed weight tensor, the weight tensor with the loop-level reconstruction of the exposed factors, vec_W_ with its vectorisation; for CP_PLSR "
    "transform(train) = scores, unit-norm loadings, invariance under constant shifts of X / Y and equivariance under every sample permutation.",
    "Bounds: n<=6 samples, sample order<=3 with dims {2,3}, rank<=3. Guards (counted): fits that raise on order-1 samples, ridge collapse, PLSR components beyond the data rank. Tolerances 1e-9/1e-12/1e-8.")

add("C12", "exploration",
    "bounded exhaustive enumeration of every vector over a 7-value alphabet (n<=4, 3 scales, vector and matrix form, every parameter) against brute-force minimisers (all supports / all block partitions) + all-pairs firm non-expansiveness",
    "Every vector v in {-2,-1,-1/2,0,1/2,1,2}^n, n=1..4 (n<=5 and a near-tie alphabet in thorough), three scales, 1-D and n x 2 form, every operator "
    "(direct and through proximal_operator) and every parameter of a table; the result must be feasible and attain the brute-force optimum of "
    "penalty + 1/2||x-v||^2 (enumeration of all 2^n supports / all 2^(n-1) block partitions, exact rational solve for smoothness, variational "
    "certificates for SVT / Procrustes); projections idempotent; firm non-expansiveness on ALL ordered pairs of lattice vectors (n<=3).",
    "Bounds as stated; tolerance 1e-12*scale^2 on objective values. Not demanded: a penalty for smoothness_prox beyond the one its banded system defines; normalize on zero input.")

add("C06", "model_checking",
    "explicit exploration of the iteration chains s_1..s_K of the real algorithms (prefix runs + convergence-exit runs) over a complete configuration lattice, with a per-state monitor comparing every reported error with an independently recomputed one",
    "For every (algorithm, option set, data family, shape, rank) of the lattice - 11 algorithms, 45 option sets - the chain of iterates is produced by the "
    "real code (n_iter_max = 1..K, tolerance off, plus loose-tolerance runs so the convergence exit is taken); in every state the reported values must be finite, the last "
    "one must equal the error of the returned decomposition recomputed by an independent einsum reconstruction, prefix lists must be bit-identical, and every "
    "(decomposition, error) pair given to a callback must agree.",
    "Bounds: order 2-4, dims<=4, rank<=3, K<=9 (13 thorough). Tolerance 1e-6 absolute on the relative error (shortcut formula) / 1e-9 (explicit residual), widened for tensor-ring "
    "iterates by the forward rounding bound 16*eps*prod||G_k||/||X|| (rank-deficient core updates give cancelling cores of size 1e11). CMTF accepted with or "
    "without the documented factor 1/2. Global NumPy RNG re-seeded before every run. The tensor-algebra backend (core / einsum) is a configuration axis; tensor-ring ranks include a "
    "bottleneck bond next to a bond wider than its mode (rank-deficient design matrix).", engine="HX")

add("C09", "exploration",
    "bounded exhaustive enumeration of (shape x input family x every rank vector x svd method [x start mode]) with singular-value tail bounds computed independently",
    "Every shape {2,3}^n (n=2..4; thorough {2,3,4}^n and {2,3}^5) x 5 input families x EVERY rank vector from 1 to beyond the unfolding sizes for tucker (HOSVD only, 1 and "
    "100 sweeps), tensor_train, tensor_train_matrix and tensor_ring (every start mode): exact at sufficient ranks, error <= root-sum-square of discarded tails, error >= largest "
    "discarded tail at the requested ranks, returned ranks <= requested.",
    "Trusted: numpy.linalg.svd on harness-built unfoldings for the tails; harness-side reconstructions. TR exactness demanded only under a proven sufficient condition; documented ValueErrors guarded (counted).")

add("C16", "model_checking",
    "BFS over all operation histories (seeded calls, generator-seeded calls, unseeded calls, global-RNG perturbations) up to a depth bound per seed-accepting entry point, state = (global RNG state hash, outputs seen per (entry, seed)), invariants checked in every state",
    "62 seed-accepting entry-point configurations and 28 seedless functions; every history up to depth 3-5 is replayed on the real code; invariants: outputs of f(seed) bit-identical "
    "within a history, identically seeded generators agree, an int-seeded call leaves numpy's global RNG state untouched, seedless functions repeat identically.",
    "Bounds: depth 3 (quick) / 4 (thorough), +1/+2 for cheap entries; seeds {0,1,12345,2^32-1}. No tolerance (bit equality).", engine="HX")

add("C20", "exploration",
    "bounded exhaustive enumeration of factor sets x all column permutations x column scalings with a brute-force all-matchings oracle (R!); loop-level definitions for error metrics",
    "Ranks 1-5 (6 thorough), 1-3 modes, every permutation in S_R x scalings {+-1,+-2,1/2}^R: returned congruence = maximum over all R! matchings and the returned permutation attains it, "
    "=1 with the recovering permutation on equivalent sets, in [0,1] with absolute values; all four correlation_index methods in [0,1] and 0 on equivalent sets; cp_permute_factors aligns and "
    "preserves the tensor; MSE/RMSE/R2/correlation/covariance equal fsum loop definitions for every axis argument; leverage scores >=0 and sum to 1.",
    "Trusted: brute force over R! matchings, math.fsum. R2 accepted centred or uncentred, ddof 0 or 1 accepted.")

add("C08", "exploration",
    "bounded exhaustive enumeration of (entry point x option set x shape x rank specification x stopping configuration) with structural oracles",
    "Every decomposition entry point (functions and class wrappers) x shapes of order 2-4 incl. size-1 modes x rank specifications (int, list, 'same', fraction, over-sized, "
    "boundary violations that must raise) x six stopping configurations that force the zero-sweep, cap and convergence exits (path recorded from the error list) x normalisation: "
    "factor shapes, TT boundary ranks 1, closed TR ring, one orthonormal projection per PARAFAC2 slice with shared cross-product, orthonormal HOOI factors with core = projection, "
    "left-orthogonal TT cores, unit-norm columns with the scale in weights/core when normalisation is requested, else weights all ones.",
    "Bounds: order<=4, dims<=4, rank<=3 (+ over-sized). Tolerances 1e-8 (1e-6 symeig). Not demanded: orthonormality of a random initialisation returned with n_iter_max=0; fractional Tucker/TT/TR ranks beyond internal consistency.")

add("C10", "model_checking",
    "exploration of the iteration chains s_0..s_K (prefix runs) and convergence-exit states of the real non-negative algorithms over a complete configuration lattice, state invariant min(entry) >= 0 on the declared modes",
    "Six non-negative algorithms x 51 option sets (inits incl. user inits with exact zeros, normalisation, sparsity, every subset of nn_modes, exact/inexact inner solves, dict "
    "specifications) x 5 data families (signed, non-negative, sparse, integer, all-negative) x shapes x ranks; every iterate k=0..K and the convergence-exit state must have finite, "
    "entrywise non-negative factors / weights / core on exactly the declared modes.",
    "Bounds: order 2-4, rank<=3, K<=3 (6 thorough; 8-11 with line search). PARAFAC2 mode 1 not demanded (documented). Exact comparison (>= 0), no tolerance.", engine="HX")

add("C02", "exploration",
    "bounded exhaustive enumeration of (operand orders/shapes x modes x option combinations x real/complex) under both tenalg backends against exact integer index-formula references",
    "Every operand configuration of the bounded lattice for mode_dot, multi_mode_dot (every ordered subset of modes, every skip), kronecker, khatri_rao (weights, mask, skip, single "
    "matrix), inner, outer, batched_outer, batched tensordot (every contraction/batch pairing), MTTKRP (both variants), sample_khatri_rao (every explicit index list) and "
    "higher_order_moment is executed through tenalg.set_backend('core'|'einsum') with harness-side wrappers confirming which implementation ran; results are compared with == "
    "against pure-python integer / Gaussian-integer formulas.",
    "Bounds: order<=4(5), dims<=3(4), rank<=3(4). Exact arithmetic (all partial sums < 2^53). Not demanded: conjugation of weights, behaviour for arguments the docstrings exclude.")

add("C03", "exploration",
    "bounded exhaustive enumeration of factor-set structures (orders, mode sizes, every rank vector, weights, masks, uneven PARAFAC2 slices) x views x backends x container kinds against exact integer references; every single structural perturbation must be rejected",
    "CP / Tucker / TT / TR / TT-matrix / PARAFAC2 structures of the bounded lattice: dense conversion, every unfolding, vec, matrix and slice views, shape/rank, factor-based norm are "
    "compared (==, exact integers) with loop-level definitions under both tenalg backends and for tuple/list vs wrapper inputs; each valid structure is perturbed in every structural "
    "way and the validating entry points must raise.",
    "Bounds: order<=4(5), dims<=3(4), ranks<=3(4). Not demanded: validation by the raw non-validating helpers (tt_to_tensor(list) etc.).")

add("C04", "exploration",
    "bounded exhaustive enumeration of factorised tensors with degenerate column patterns x transforms, dense-before == dense-after plus canonical-form predicates",
    "Nine transform families (cp_normalize, cp_flip_sign for every mode and summary, cp/tucker mode_dot with matrix/vector/keep_dim/copy, tucker_normalize, parafac2_normalise, "
    "from_CPTensor, pad_tt_rank for TT/TR/TT-matrix, svd compress->decompress, cp_permute_factors under every permutation and scaling) over every per-column kind in {generic, zero, "
    "zero-mean, all-negative} and six weight classes: the dense tensor is unchanged (exact for sign flips / mode products on integers) and the advertised canonical form holds.",
    "Bounds: order<=3(4), rank<=3. Tolerance 1e-12*scale (normalisation), 1e-9 (SVD paths). Input mutation is judged by C15, not here.")

add("C07", "model_checking",
    "exploration of the iteration chains s_0..s_K (prefix runs) of the exact block-coordinate algorithms with a transition monitor (objective recomputed from scratch must not increase) and a differential reference sweep from every non-initial state",
    "CP-ALS (plain, normalised, line search, l2, fixed mode, masked), HALS-NNCP, HOOI, PARAFAC2 (+nn, +line search), TR-ALS, CMTF, the CP/Tucker ridge regressors and the inner sweeps of "
    "hals_nnls (through its callback): for every transition s_k -> s_k+1 of every configuration the objective must not increase; for CP-ALS and HOOI a boring numpy reference sweep "
    "applied to s_k must reproduce s_k+1.",
    "Guard (counted): block Gram condition number <= 1e8. Tolerance f(s')<=f(s)(1+1e-9)+1e-12*scale; reference sweeps 1e-7 relative (skipped on singular-value ties). "
    "Configuration axes added after the seed waves: tensor-algebra backend core/einsum for CP-ALS, HALS-NNCP, HOOI and PARAFAC2; scalar, vector- and matrix-valued responses for CPRegressor with "
    "reg_W in {0.1, 1, 10, 100}; hals_nnls with sparsity x ridge x cold/warm start.", engine="HX")

add("C11", "exploration",
    "bounded exhaustive enumeration of (constraint x specification form x every mode subset x parameters x data x rank x init x outer/inner budgets), all pairs of constraints on disjoint modes, and every conflicting pair (must raise); feasibility oracle per constrained mode",
    "All 8 hard constraints in scalar / list / dict form over every non-empty subset of modes, all 28 pairs on every pair of disjoint mode sets, and all 66 keyword pairs on "
    "intersecting mode sets (must raise ValueError): the factor of every constrained mode is checked for feasibility (>=0; on the simplex; monotone; unimodal; <=k non-zeros; unit norm "
    "k-sparse; max|.|=1; l1<=threshold).",
    "Bounds: order 3-4, rank<=3, budgets {1,2,5}x{1,5,10}. Tolerances 1e-12*scale (inequalities), 1e-9 (equalities). Monotone direction free but common to all columns; LinAlgError on degenerate problems guarded (counted).")

add("C14", "model_checking",
    "exploration of iteration chains started from user initialisations (every weight class, container kind, subset of fixed modes, budget 0..K) with zero-budget, bisimulation (weights absorbed into a factor) and bit-identity-of-fixed-factors monitors",
    "For the seven algorithms accepting an initialisation: n_iter_max=0 must return the tensor the init represents; the chain from init and the chain from the same tensor with the "
    "weights absorbed into the first / last factor must have equal dense iterates for every k; factors of fixed modes must be bit-identical in every iterate; fixing every mode returns the init.",
    "Bounds: order 3-4, rank<=3, K<=2 (4 thorough). Bisimulation only for exact / multiplicative / HALS updates (ADMM agrees only in the limit). Fixing the last mode not demanded where documented unsupported.", engine="HX")

add("C15", "exploration",
    "catalogue-driven exhaustive enumeration of (public entry point x option set x size x array layout incl. read-only x container kind x normal/exceptional exit) with byte-level before/after snapshots of every argument",
    "182 catalogued entry points (completeness checked by introspection: 0 uncatalogued in-scope callables) x 655 option sets x layouts (fresh, transposed view, strided view in a "
    "sentinel buffer, read-only) x tuple/list/wrapper containers x normal and forced-exception exits: bytes, dtype, shape, strides of every reachable array and the identity/length of "
    "every list slot are compared before and after the call.",
    "Exempt by name: copy=False mode products, the hals_nnls start matrix, index_update, self of the documented self-modifying normalize methods. A slot rebound to a bit-identical value is counted, not reported.")

add("C18", "exploration",
    "catalogue-driven exhaustive enumeration of (array-returning entry point x option/initialisation variant x dtype x tenalg backend), walking every returned array",
    "149 entry points x option variants (svd/random/user init, masks, normalisation, every constraint of constrained CP, every NNLS algorithm) x {float32, float64, complex128 where supported} "
    "x both tenalg backends: every array of the returned structure must have the input's floating dtype.",
    "Exempt: error lists, integer/bool outputs, leverage scores (float64 by documentation); real-valued roles of complex inputs may be float64.")

add("C13", "exploration",
    "bounded exhaustive enumeration of every small integer design (one per distinct Gram matrix) x right-hand sides x penalties x cold/warm starts for each solver, with KKT residuals and an exact rational brute-force optimum over all 2^n supports",
    "Every design U in {-1,0,1}^(m x n) (shapes up to 3x3; structured Toeplitz families up to n=8 in thorough) with cond(U'U)<=50, right-hand sides with active and inactive "
    "constraints, 1-3 columns, 9 (l1, ridge) pairs, cold start and every warm start in {0,1}^n: hals_nnls, fista and active_set_nnls run to convergence must return x>=0 satisfying "
    "the KKT conditions and attaining the exact optimum (Fractions, all supports); admm without constraints returns the least-squares solution.",
    "Guard (counted): cond<=50. Tolerances 1e-6*scale (KKT), 1e-9*scale (objective). FISTA's epsilon floor counts as active.")

READY = ["C01", "C02", "C03", "C04", "C05", "C06", "C07", "C08", "C09", "C10", "C11", "C12", "C13", "C14", "C15", "C16", "C17", "C18", "C19", "C20"]
for _p in list(CHECKS):
    if _p not in READY:
        del CHECKS[_p]

ALL = [f"C{i:02d}" for i in range(1, 21)]
REASON_PENDING = "check not built yet in this round (planned, see DESIGN.md §4); nothing is claimed for it"


def main():
    checks = []
    for pid in ALL:
        if pid not in CHECKS:
            continue
        c = CHECKS[pid]
        checks.append({
            "property_id": pid,
            "quick_cmd": f"./check {pid} --tier quick",
            "thorough_cmd": f"./check {pid} --tier thorough",
            "evidence_file": f"evidence/{pid}.json",
            "replay_cmd_template": f"./check {pid} --replay {{path}}",
            "engine": c["engine"],
            "level_claimed": {"category": c["level"], "text": c["text"], "design_ref": f"DESIGN.md §4 {pid}"},
            "level_note": c["note"],
            "technique": c["technique"],
        })
    na = [{"property_id": p, "reason": NOT_APPLICABLE.get(p, REASON_PENDING)} for p in ALL if p not in CHECKS]
    man = {
        "version": 1,
        "setup_cmd": "./setup.sh",
        "hooks": {
            "guard": "TENSORLY_VERIF",
            "enable": "no source hooks: checks import /repo's working tree directly (editable install / PYTHONPATH=/repo); "
                      "observation uses sys.settrace, callbacks, prefix runs and harness-side wrappers only",
            "baseline_off_cmd": "cd /repo && /venv/bin/python -m pytest -ra -q -p no:cacheprovider --timeout=900 --continue-on-collection-errors",
            "source_commits": [],
            "add_only": True,
        },
        "engines": [
            {"name": "LX", "path": "vmc/runner.py", "serves_properties": [p for p in CHECKS if CHECKS[p]["engine"] == "LX"],
             "kind_free_text": "lattice explorer: complete enumeration of a bounded product of configurations x inputs on the real functions, sharded over 16 processes"},
            {"name": "HX", "path": "vmc/runner.py", "serves_properties": [p for p in CHECKS if CHECKS[p]["engine"] == "HX"],
             "kind_free_text": "history explorer: explicit-state exploration of iteration chains / API histories of the real code with per-state and per-transition monitors"},
            {"name": "SX+TX", "path": "vmc/sched.py", "serves_properties": [p for p in CHECKS if CHECKS[p]["engine"] == "SX+TX"],
             "kind_free_text": "controlled thread scheduler (sys.settrace baton, preemption-bounded DFS) + TLC state graph of the TLA+ spec replayed edge by edge on the real managers"},
        ],
        "checks": checks,
        "not_applicable": na,
        "notes": "All checks: cwd /verif, `./check <id> --tier quick|thorough`; exit 0 / exit 1 + VIOLATION line / exit 2 harness error. "
                 "known_findings.json lists recorded genuine defects (printed as KNOWN-FINDING) and fixed ones.",
    }
    with open(os.path.join(HERE, "MANIFEST.json"), "w") as f:
        json.dump(man, f, indent=1)
    print(f"MANIFEST.json: {len(checks)} checks, {len(na)} not claimed")


if __name__ == "__main__":
    main()
