------------------------------ MODULE BackendStack ------------------------------
(* Specification of property C17: backend selection is a per-thread stack over a shared default.      *)
(* The same machine is written in Python in vmc/bk.py (spec_step); the check C17 compares the two      *)
(* state graphs (set equality of states and of transitions) and replays the edges on the real managers. *)
EXTENDS Naturals, Sequences, TLC, Json

CONSTANTS Threads, Backends, MaxDepth, G0

VARIABLES G,     \* shared default
          sel,   \* sel[t] \in Backends \cup {NONE}: thread t's own selection
          stk    \* stk[t]: sequence of [prev, wasNone, fl, g0] saved by open contexts (innermost last)

vars == <<G, sel, stk>>
NONE == "none"

Cur(t) == IF sel[t] = NONE THEN G ELSE sel[t]   \* what thread t observes / dispatches to

Entry == [prev : Backends, wasNone : BOOLEAN, fl : {"G", "L"}, g0 : Backends \cup {NONE}]

TypeOK == /\ G \in Backends
          /\ sel \in [Threads -> Backends \cup {NONE}]
          /\ \A t \in Threads : /\ Len(stk[t]) <= MaxDepth
                                /\ \A i \in 1..Len(stk[t]) : stk[t][i] \in Entry

Init == /\ G = G0
        /\ sel = [t \in Threads |-> NONE]
        /\ stk = [t \in Threads |-> <<>>]

SetGlobal(t, b) == sel' = [sel EXCEPT ![t] = b] /\ G' = b /\ UNCHANGED stk
SetLocal(t, b)  == sel' = [sel EXCEPT ![t] = b] /\ UNCHANGED <<G, stk>>
Reject(t)       == UNCHANGED vars      \* unknown name (set or enter): raises, nothing changes
Query(t)        == UNCHANGED vars      \* observes Cur(t)

Enter(t, b, fl) ==
    /\ Len(stk[t]) < MaxDepth
    /\ stk' = [stk EXCEPT ![t] = Append(@, [prev |-> Cur(t), wasNone |-> (sel[t] = NONE), fl |-> fl,
                                             g0 |-> IF fl = "G" THEN G ELSE NONE])]
    /\ sel' = [sel EXCEPT ![t] = b]
    /\ G' = IF fl = "G" THEN b ELSE G

\* exit is the same whether the body ended normally or by exception
Exit(t) ==
    /\ Len(stk[t]) > 0
    /\ LET top == stk[t][Len(stk[t])]
           GOpts == IF top.fl = "L" THEN {G} ELSE {G, top.prev, top.g0}
       IN /\ stk' = [stk EXCEPT ![t] = SubSeq(@, 1, Len(@) - 1)]
          /\ \E g2 \in GOpts :
                /\ G' = g2
                /\ \/ sel' = [sel EXCEPT ![t] = top.prev]                               \* restore by value ...
                   \/ (top.wasNone /\ g2 = top.prev /\ sel' = [sel EXCEPT ![t] = NONE])  \* ... or un-select

LocalStep(t) == \/ \E b \in Backends : SetLocal(t, b) \/ Enter(t, b, "L")
                \/ Reject(t) \/ Query(t)
                \/ (Len(stk[t]) > 0 /\ stk[t][Len(stk[t])].fl = "L" /\ Exit(t))

Next == \E t \in Threads :
           \/ \E b \in Backends : SetGlobal(t, b) \/ SetLocal(t, b) \/ Enter(t, b, "G") \/ Enter(t, b, "L")
           \/ Reject(t) \/ Query(t) \/ Exit(t)

Spec == Init /\ [][Next]_vars

\* --- sanity properties of the specification itself (the property statement, checked by TLC)
\* a thread-local selection / context / rejected selection / query never changes what another thread observes
LocalIsolation == [][ \A t \in Threads : LocalStep(t) => \A u \in Threads \ {t} : Cur(u)' = Cur(u) ]_vars
\* leaving a context restores the backend the thread had when it entered
Restoration == [][ \A t \in Threads : (Len(stk[t]) > 0 /\ Len(stk'[t]) < Len(stk[t])) => Cur(t)' = stk[t][Len(stk[t])].prev ]_vars

\* --- every explored transition is written out (one JSON pair per line) for the graph comparison / replay
Dump == PrintT(<<"EDGE", ToJson([G |-> G, sel |-> sel, stk |-> stk]), ToJson([G |-> G', sel |-> sel', stk |-> stk'])>>)
=================================================================================
